"""
C07 - PDB files never emit shifted columns.

R1  layout: cumulative widths of the pieces the writer concatenates into an
    ATOM/HETATM, CRYST1 and CONECT record equal the reader's slice table,
    field by field, and each field is read with its own slice.
R2  every piece has min width = max width = its column width: justified to a
    constant, a literal, or bounded by a guard of _check_pdb_compatibility.
R3  guard soundness: a `W.Df` field is bounded by a guard on the *rounded*
    value (or no carry exists for the field's dtype - decided arithmetically);
    guards cover every model (`[..., i]`), NaN coordinates are refused.
R4  hybrid-36: the additive offsets of encode and decode cancel for widths 4
    and 5, the letter ranges are exactly the base-36 numbers with a leading
    letter, max_hybrid36_number is the last value encode accepts.
R5  set_structure starts from an empty line list on every path; the ID wrap is
    the identity on 1..max and applied exactly to the positive IDs.
"""

import ast

from ..astutil import (
    call_name, calls, const_eval, dotted, names_in, param_names, stmts, walk_local, NotConst,
)
from ..cfg import CFG
from ..core import AnalysisError, Mutant
from ..layout import INF, Unknown, float_field_width, int_digits, parse_spec
from ..exprnorm import has_code, same_expr

EXPLANATION = (
    "Symbolic (min,max) width of every piece PDBFile.set_structure concatenates, bounded by the "
    "guards extracted from _check_pdb_compatibility, compared with the reader's slice constants; "
    "hybrid-36 offsets constant-folded from hybrid36.pyx."
)
ASSUMPTIONS = [
    "np.round(v, D) and f'{v:.Df}' agree on the integer part (multiplication by 10**D is monotone)",
    "coordinates are float32 (AtomArray.__setattr__ casts; checked), annotations float64",
    "number_of_integer_digits = len(str(int(v))) of min and max (checked structurally)",
    "np.char.array elements lose trailing blanks when iterated; f'{start:27}' restores them",
]
MIN_OBLIGATIONS = 60

FILE = "structure/io/pdb/file.py"
H36 = "structure/io/pdb/hybrid36.pyx"
UTIL = "structure/io/util.py"
ATOMS = "structure/atoms.py"

# writer piece variable -> (reader slice constant, source annotation)
WRITER_FIELDS = {
    "record": ("_record", "hetero"),
    "pdb_atom_id": ("_atom_id", "atom_id"),
    "names": ("_atom_name", "atom_name"),
    "res_names": ("_res_name", "res_name"),
    "chain_ids": ("_chain_id", "chain_id"),
    "pdb_res_id": ("_res_id", "res_id"),
    "ins_codes": ("_ins_code", "ins_code"),
    "x": ("_coord_x", "coord"),
    "y": ("_coord_y", "coord"),
    "z": ("_coord_z", "coord"),
    "occupancy": ("_occupancy", "occupancy"),
    "b_factor": ("_temp_f", "b_factor"),
    "elements": ("_element", "element"),
    "charge": ("_charge", "charge"),
}
# reader: local array variable -> slice constant it must be read with
READER_FIELDS = {
    "chain_id": "_chain_id", "res_id": "_res_id", "ins_code": "_ins_code",
    "res_name": "_res_name", "hetero": "_record", "atom_name": "_atom_name",
    "element": "_element", "altloc_id": "_alt_loc", "atom_id_raw": "_atom_id",
    "charge_raw": "_charge", "occupancy": "_occupancy", "b_factor": "_temp_f",
}
COORD_SLICES = {0: "_coord_x", 1: "_coord_y", 2: "_coord_z"}
STR_ANNOTS = {"chain_id", "res_name", "atom_name", "ins_code", "element"}


def slice_table(src):
    out = {}
    for st in src.tree.body:
        if (
            isinstance(st, ast.Assign) and len(st.targets) == 1
            and isinstance(st.targets[0], ast.Name)
            and isinstance(st.value, ast.Call) and call_name(st.value) == "slice"
            and len(st.value.args) == 2
        ):
            try:
                out[st.targets[0].id] = (const_eval(st.value.args[0]), const_eval(st.value.args[1]))
            except NotConst:
                pass
    return out


def module_consts(src):
    env = {}
    for st in src.tree.body:
        if isinstance(st, ast.Assign) and len(st.targets) == 1 and isinstance(st.targets[0], ast.Name):
            try:
                v = const_eval(st.value, env, sym_attrs=False)
                if isinstance(v, (int, float, str)):
                    env[st.targets[0].id] = v
            except (NotConst, Exception):
                pass
    return env


# ---------------------------------------------------------------------------
# guards


class Guards:
    def __init__(self, ctx, func, consts):
        self.maxlen = {}
        self.digits = {}
        self.lower = {}
        self.nan = set()
        self.nodes = {}
        aparam = param_names(func)[0]
        assigns = {}
        for st in stmts(func):
            if isinstance(st, ast.Assign) and len(st.targets) == 1 and isinstance(st.targets[0], ast.Name):
                assigns.setdefault(st.targets[0].id, []).append(st.value)
        for st in stmts(func):
            if not isinstance(st, ast.If):
                continue
            if not any(isinstance(b, ast.Raise) for b in st.body):
                continue
            tests = st.test.values if isinstance(st.test, ast.BoolOp) and isinstance(st.test.op, ast.And) else [st.test]
            for t in tests:
                self._one(t, aparam, assigns, consts, st)

    def _field(self, e, aparam):
        """array.F  or array.coord[..., i] -> (field, subscript_ok)"""
        if isinstance(e, ast.Subscript):
            f, _ = self._field(e.value, aparam)
            sl = e.slice
            ok = (
                isinstance(sl, ast.Tuple) and len(sl.elts) == 2
                and isinstance(sl.elts[0], ast.Constant) and sl.elts[0].value is Ellipsis
            )
            return f, ok
        d = dotted(e)
        if d and d.startswith(aparam + "."):
            return d[len(aparam) + 1:], True
        if isinstance(e, ast.Call) and call_name(e) == f"{aparam}.get_annotation" and e.args:
            if isinstance(e.args[0], ast.Constant):
                return e.args[0].value, True
        return None, False

    def _one(self, t, aparam, assigns, consts, st):
        # any([len(n) > K for n in array.F])
        if isinstance(t, ast.Call) and call_name(t) == "any" and t.args:
            a = t.args[0]
            if isinstance(a, (ast.ListComp, ast.GeneratorExp)) and len(a.generators) == 1:
                g = a.generators[0]
                fld, _ = self._field(g.iter, aparam)
                e = a.elt
                if (
                    fld and isinstance(e, ast.Compare) and len(e.ops) == 1
                    and isinstance(e.ops[0], (ast.Gt, ast.GtE))
                    and isinstance(e.left, ast.Call) and call_name(e.left) == "len"
                    and isinstance(e.comparators[0], ast.Constant)
                ):
                    k = e.comparators[0].value
                    self.maxlen[fld] = k if isinstance(e.ops[0], ast.Gt) else k - 1
                    self.nodes[("maxlen", fld)] = st
            return
        # (array.F < L).any()  /  np.isnan(array.coord).any()
        if isinstance(t, ast.Call) and isinstance(t.func, ast.Attribute) and t.func.attr == "any":
            inner = t.func.value
            if isinstance(inner, ast.Call) and (call_name(inner) or "").endswith("isnan") and inner.args:
                fld, _ = self._field(inner.args[0], aparam)
                if fld:
                    self.nan.add(fld)
                    self.nodes[("nan", fld)] = st
            elif isinstance(inner, ast.Compare) and len(inner.ops) == 1:
                fld, _ = self._field(inner.left, aparam)
                try:
                    c = const_eval(inner.comparators[0], consts, sym_attrs=False)
                except NotConst:
                    return
                if fld and isinstance(inner.ops[0], ast.Lt):
                    self.lower[fld] = c
                    self.nodes[("lower", fld)] = st
                elif fld and isinstance(inner.ops[0], ast.LtE):
                    self.lower[fld] = c + 1
                    self.nodes[("lower", fld)] = st
            return
        # n_digits > K   with n_digits = number_of_integer_digits(EXPR)
        if isinstance(t, ast.Compare) and len(t.ops) == 1 and isinstance(t.ops[0], (ast.Gt, ast.GtE)):
            left = t.left
            exprs = []
            if isinstance(left, ast.Name):
                exprs = assigns.get(left.id, [])
            elif isinstance(left, ast.Call):
                exprs = [left]
            try:
                k = const_eval(t.comparators[0], consts, sym_attrs=False)
            except NotConst:
                return
            if isinstance(t.ops[0], ast.GtE):
                k -= 1
            for e in exprs:
                if isinstance(e, ast.Call) and (call_name(e) or "").split(".")[-1] == "number_of_integer_digits" and e.args:
                    arg = e.args[0]
                    use_abs = False
                    rounded = None
                    changed = True
                    while changed:
                        changed = False
                        if isinstance(arg, ast.Call) and (call_name(arg) or "").split(".")[-1] in ("abs", "absolute") and arg.args:
                            use_abs = True
                            arg = arg.args[0]
                            changed = True
                        if isinstance(arg, ast.Call) and (call_name(arg) or "").split(".")[-1] in ("round", "around") and arg.args:
                            rounded = 0
                            if len(arg.args) > 1:
                                try:
                                    rounded = const_eval(arg.args[1])
                                except NotConst:
                                    rounded = None
                            for kw in arg.keywords:
                                if kw.arg == "decimals":
                                    rounded = const_eval(kw.value)
                            arg = arg.args[0]
                            changed = True
                    fld, sub_ok = self._field(arg, aparam)
                    if fld:
                        self.digits[fld] = {"K": k, "rounded": rounded, "abs": use_abs, "all_models": sub_ok, "node": e}
                        self.nodes[("digits", fld)] = st


# ---------------------------------------------------------------------------
# width evaluation of the writer


class Writer:
    def __init__(self, ctx, func, guards, consts, aparam, dtypes):
        self.ctx = ctx
        self.func = func
        self.g = guards
        self.consts = consts
        self.aparam = aparam
        self.dtypes = dtypes
        self.defs = {}
        self.notes = {}  # piece text -> reason for an unbounded side
        for st in stmts(func):
            if isinstance(st, ast.Assign):
                for t in st.targets:
                    if isinstance(t, ast.Name):
                        self.defs.setdefault(t.id, []).append(st.value)

    # -- integers -------------------------------------------------------
    def ival(self, e, bind):
        if isinstance(e, ast.Constant) and isinstance(e.value, int):
            return (e.value, e.value)
        if isinstance(e, ast.Name):
            if e.id in bind:
                k = bind[e.id]
                if k[0] == "int":
                    return k[1]
                raise Unknown(f"{e.id} is not an integer")
            if e.id in self.consts:
                return (self.consts[e.id], self.consts[e.id])
            if e.id in self.defs:
                lo, hi = INF, -INF
                for d in self.defs[e.id]:
                    a, b = self.ival(d, bind)
                    lo, hi = min(lo, a), max(hi, b)
                return (lo, hi)
            raise Unknown(f"integer name {e.id}")
        d = dotted(e)
        if d and d.startswith(self.aparam + "."):
            f = d[len(self.aparam) + 1:]
            return self.field_interval(f)
        if isinstance(e, ast.Call):
            cn = call_name(e) or ""
            if cn == f"{self.aparam}.get_annotation" and e.args and isinstance(e.args[0], ast.Constant):
                return self.field_interval(e.args[0].value)
            if cn.endswith("arange") and e.args:
                try:
                    lo = const_eval(e.args[0], self.consts, sym_attrs=False) if len(e.args) > 1 else 0
                except NotConst:
                    raise Unknown("arange start")
                return (lo, INF)
            if cn.split(".")[-1] in ("abs", "absolute") and e.args:
                inner = e.args[0]
                f = self.field_of(inner, bind)
                if f and f in self.g.digits and self.g.digits[f]["abs"]:
                    return (0, 10 ** self.g.digits[f]["K"] - 1)
                lo, hi = self.ival(inner, bind)
                m = max(abs(lo), abs(hi))
                return (0, m)
            if cn.endswith("where") and len(e.args) == 3:
                cond, a, b = e.args
                ia = self.ival(a, bind)
                ib = self.ival(b, bind)
                # refine the else-branch by the negated condition  X > c
                if isinstance(cond, ast.Compare) and len(cond.ops) == 1 and ast.dump(cond.left) == ast.dump(b):
                    try:
                        c = const_eval(cond.comparators[0], self.consts, sym_attrs=False)
                        if isinstance(cond.ops[0], ast.Gt):
                            ib = (ib[0], min(ib[1], c))
                        elif isinstance(cond.ops[0], ast.GtE):
                            ib = (ib[0], min(ib[1], c - 1))
                    except NotConst:
                        pass
                if ib[0] > ib[1]:
                    return ia
                return (min(ia[0], ib[0]), max(ia[1], ib[1]))
        if isinstance(e, ast.BinOp):
            if isinstance(e.op, ast.Mod):
                try:
                    m = const_eval(e.right, self.consts, sym_attrs=False)
                except NotConst:
                    raise Unknown("modulus")
                if m > 0:
                    return (0, m - 1)
            if isinstance(e.op, (ast.Add, ast.Sub)):
                a = self.ival(e.left, bind)
                b = self.ival(e.right, bind)
                if isinstance(e.op, ast.Add):
                    return (a[0] + b[0], a[1] + b[1])
                return (a[0] - b[1], a[1] - b[0])
        raise Unknown("integer expression " + ast.unparse(e)[:60])

    def field_interval(self, f):
        lo = self.g.lower.get(f, -INF)
        hi = INF
        if f in self.g.digits:
            K = self.g.digits[f]["K"]
            if self.g.digits[f]["abs"]:
                lo, hi = max(lo, -(10 ** K - 1)), 10 ** K - 1
            else:
                lo, hi = max(lo, -(10 ** (K - 1) - 1)), 10 ** K - 1
        return (lo, hi)

    def field_of(self, e, bind):
        if isinstance(e, ast.Name) and e.id in bind and bind[e.id][0] in ("intf", "float", "str"):
            return bind[e.id][1]
        if isinstance(e, ast.Name) and e.id in bind and bind[e.id][0] == "int" and len(bind[e.id]) > 2:
            return bind[e.id][2]
        d = dotted(e)
        if d and d.startswith(self.aparam + "."):
            return d[len(self.aparam) + 1:]
        return None

    # -- strings --------------------------------------------------------
    def width(self, e, bind=None):
        bind = bind or {}
        if isinstance(e, ast.Constant) and isinstance(e.value, str):
            return (len(e.value), len(e.value))
        if isinstance(e, ast.Name):
            if e.id in bind:
                k = bind[e.id]
                if k[0] == "str":
                    return (0, self.g.maxlen.get(k[1], INF)) if len(k) < 3 else k[2]
                if k[0] == "w":
                    return k[1]
                raise Unknown(f"{e.id} used as string")
            if e.id in self.defs:
                lo, hi = INF, -INF
                for d in self.defs[e.id]:
                    a, b = self.width(d, bind)
                    lo, hi = min(lo, a), max(hi, b)
                return (lo, hi)
            raise Unknown(f"string name {e.id}")
        d = dotted(e)
        if d and d.startswith(self.aparam + ".") and d[len(self.aparam) + 1:] in STR_ANNOTS:
            return (0, self.g.maxlen.get(d[len(self.aparam) + 1:], INF))
        if isinstance(e, ast.BinOp) and isinstance(e.op, ast.Add):
            a, b = self.width(e.left, bind), self.width(e.right, bind)
            return (a[0] + b[0], a[1] + b[1])
        if isinstance(e, ast.BinOp) and isinstance(e.op, ast.Mult):
            for n, s in ((e.left, e.right), (e.right, e.left)):
                if isinstance(n, ast.Constant) and isinstance(n.value, int):
                    a = self.width(s, bind)
                    return (a[0] * n.value, a[1] * n.value)
        if isinstance(e, ast.IfExp):
            b2 = dict(bind)
            # refine  len(v) < n  in the true branch
            for c in ast.walk(e.test):
                if (
                    isinstance(c, ast.Compare) and len(c.ops) == 1 and isinstance(c.ops[0], (ast.Lt, ast.LtE))
                    and isinstance(c.left, ast.Call) and call_name(c.left) == "len"
                    and isinstance(c.left.args[0], ast.Name) and c.left.args[0].id in bind
                    and isinstance(c.comparators[0], ast.Constant)
                ):
                    v = c.left.args[0].id
                    n = c.comparators[0].value - (1 if isinstance(c.ops[0], ast.Lt) else 0)
                    if bind[v][0] == "str":
                        cur = self.width(ast.Name(id=v, ctx=ast.Load()), bind)
                        b2[v] = ("str", bind[v][1], (cur[0], min(cur[1], n)))
            a = self.width(e.body, b2)
            b = self.width(e.orelse, bind)
            return (min(a[0], b[0]), max(a[1], b[1]))
        if isinstance(e, ast.JoinedStr):
            lo = hi = 0
            for p in e.values:
                a, b = self.width(p, bind)
                lo, hi = lo + a, hi + b
            return (lo, hi)
        if isinstance(e, ast.FormattedValue):
            spec = ""
            if e.format_spec is not None:
                spec = "".join(v.value for v in e.format_spec.values if isinstance(v, ast.Constant))
            sp = parse_spec(spec)
            v = e.value
            if sp["type"] == "f":
                f = self.field_of(v, bind)
                if f is None and isinstance(v, ast.Call) and (call_name(v) or "").endswith("rad2deg"):
                    w = 3 + 1 + sp["prec"]  # angles from arccos: 0..180
                    return (max(sp["width"], 1 + 1 + sp["prec"]), max(sp["width"], w))
                if f is None or f not in self.g.digits:
                    self.notes[ast.unparse(e)] = "no guard bounds the magnitude of this value"
                    return (sp["width"], INF)
                gd = self.g.digits[f]
                rounded = gd["rounded"] is not None and gd["rounded"] == sp["prec"]
                mw, wit = float_field_width(gd["K"], sp["prec"], self.dtypes.get(f, "float64"), rounded)
                if wit:
                    self.notes[ast.unparse(e)] = (
                        f"the guard admits values that round into the next column: {wit} "
                        f"({mw} characters for a {sp['width']}-character field)"
                    )
                if not gd["all_models"]:
                    self.notes[ast.unparse(e)] = "the guard does not cover every model/atom of the array"
                    return (sp["width"], INF)
                return (sp["width"], max(sp["width"], mw))
            # string / integer padded to a width
            try:
                a = self.width(v, bind)
            except Unknown:
                i = self.ival(v, bind)
                a = (1, int_digits(*i))
            return (max(sp["width"], a[0]), max(sp["width"], a[1]))
        if isinstance(e, ast.ListComp) and len(e.generators) == 1:
            g = e.generators[0]
            b2 = dict(bind)
            self.bind_gen(g, b2)
            return self.width(e.elt, b2)
        if isinstance(e, ast.Call):
            cn = call_name(e) or ""
            last = e.func.attr if isinstance(e.func, ast.Attribute) else cn.split(".")[-1]
            if cn in ("np.char.array", "np.array", "np.asarray") and e.args:
                return self.width(e.args[0], bind)
            if cn.endswith("where") and len(e.args) == 3:
                a, b = self.width(e.args[1], bind), self.width(e.args[2], bind)
                return (min(a[0], b[0]), max(a[1], b[1]))
            if cn.endswith("full") and len(e.args) >= 2:
                return self.width(e.args[1], bind)
            if last in ("ljust", "rjust", "center") and e.args and isinstance(e.func, ast.Attribute):
                n = const_eval(e.args[0], self.consts, sym_attrs=False)
                a = self.width(e.func.value, bind)
                return (max(n, a[0]), max(n, a[1]))
            if last == "astype" and e.args and isinstance(e.args[0], ast.Name) and e.args[0].id == "str":
                i = self.ival(e.func.value, bind)
                if i[0] == -INF:
                    self.notes[ast.unparse(e)[:80]] = "no lower bound: a negative ID needs a column for the sign"
                return (1, int_digits(*i))
            if cn == "str" and e.args:
                i = self.ival(e.args[0], bind)
                return (1, int_digits(*i))
            if last == "encode_hybrid36" and len(e.args) == 2:
                n = const_eval(e.args[1], self.consts, sym_attrs=False)
                return (1, n)
        raise Unknown("string expression " + ast.unparse(e)[:70])

    def bind_gen(self, g, b2):
        it = g.iter
        tg = g.target

        def kind_of(src):
            f = self.field_of(src, {})
            if isinstance(src, ast.Call) and call_name(src) == f"{self.aparam}.get_annotation":
                f = src.args[0].value
            if f in STR_ANNOTS:
                return ("str", f)
            if f in ("b_factor", "occupancy", "coord"):
                return ("float", f)
            if f is not None:
                return ("int", self.field_interval(f), f)
            if isinstance(src, ast.Name):
                # local: width if it is a string array, else integer
                try:
                    return ("w", self.width(src, {}))
                except Unknown:
                    return ("int", self.ival(src, {}))
            raise Unknown("generator source " + ast.unparse(src)[:50])

        if isinstance(it, ast.Call) and call_name(it) == "zip":
            elts = tg.elts if isinstance(tg, ast.Tuple) else [tg]
            for t, src in zip(elts, it.args):
                if isinstance(t, ast.Tuple):
                    k = kind_of(src)
                    for tt in t.elts:
                        b2[tt.id] = k
                else:
                    b2[t.id] = kind_of(src)
        else:
            b2[tg.id] = kind_of(it)


def flatten_add(e):
    if isinstance(e, ast.BinOp) and isinstance(e.op, ast.Add):
        return flatten_add(e.left) + flatten_add(e.right)
    return [e]


def piece_var(e):
    """name of the local variable a piece is built from"""
    if isinstance(e, ast.Call) and isinstance(e.func, ast.Attribute) and isinstance(e.func.value, ast.Name):
        return e.func.value.id
    if isinstance(e, ast.Name):
        return e.id
    if isinstance(e, ast.BinOp) and isinstance(e.op, ast.Mult):
        for s in (e.left, e.right):
            if isinstance(s, ast.Name):
                return s.id
    return None


FILT = "structure/filter.py"


def altloc_marker_rules(ctx):
    """a record written by this package carries a blank in the altloc column; every altloc policy the reader offers ('first',
    'occupancy') must take the blank - and '.', '?', '' - for 'no alternate location', and both policies must agree on the set"""
    f = ctx.src(FILT)
    sets = {}
    for q, fn in f.funcs.items():
        for c in ast.walk(fn):
            if isinstance(c, ast.Call) and (call_name(c) or "").endswith("isin") and len(c.args) >= 2 and isinstance(c.args[1], (ast.List, ast.Tuple, ast.Set)) \
                    and all(isinstance(e, ast.Constant) and isinstance(e.value, str) for e in c.args[1].elts) \
                    and "altloc" in ast.unparse(c.args[0]):
                sets[q] = frozenset(e.value for e in c.args[1].elts)
    # (one shared helper may serve both policies)
    ctx.need(len(sets) >= 1, "the 'no altloc' marker set of the altloc filters (np.isin(altloc_ids, [..]))")
    for q, st in sorted(sets.items()):
        ctx.ob("R5.altloc-markers", FILT, q, f"no altloc: {sorted(st)}", st >= {".", "?", " ", ""} and len(set(sets.values())) == 1,
               "the markers of 'no alternate location' must contain the blank of the PDB column (and '.', '?', '') in both policies: "
               "otherwise every atom of a file written by this package is dropped when it is read with that policy", f.func(q).lineno)


BOX = "structure/box.py"


def unitcell_noise_rule(ctx, rule):
    """CRYST1 gives the angles to 0.01 degree: what vectors_from_unitcell treats as numerical noise (and sets to 0) must stay below what
    such an angle contributes - a cut-off of at most 1e-4 of the summed lengths"""
    f = ctx.src(BOX).func("vectors_from_unitcell")
    tols = [st.value for st in ast.walk(f) if isinstance(st, ast.Assign) and isinstance(st.targets[0], ast.Name) and st.targets[0].id == "tol"]
    fac = None
    if len(tols) == 1 and isinstance(tols[0], ast.BinOp) and isinstance(tols[0].op, ast.Mult):
        for side, other in ((tols[0].left, tols[0].right), (tols[0].right, tols[0].left)):
            if isinstance(side, ast.Constant) and isinstance(side.value, (int, float)) and same_expr(other, "len_a + len_b + len_c"):
                fac = side.value
    ctx.ob(rule, BOX, "vectors_from_unitcell", f"box[np.abs(box) < {fac} * (len_a + len_b + len_c)] = 0",
           fac is not None and 0 <= fac <= 1e-4 and has_code(f, "box[np.abs(box) < tol] = 0"),
           "a cell angle that differs from 90 degrees by a tenth of a degree contributes about 1.7e-3 of a cell length: a larger cut-off reads "
           "such a cell back as exactly orthogonal", f.lineno)


def digits_helper_rule(ctx, rule):
    """the helper behind every column guard of the fixed-width writers (PDB, MOL / SDF): it measures the integer part of the smallest
    and of the largest of ALL values it is handed"""
    # number_of_integer_digits summary
    util = ctx.src(UTIL).func("number_of_integer_digits")
    # result = max over {len(str(min(int values))), len(str(max(int values)))} (a constant 0 among the candidates is harmless)
    from ..exprnorm import summarize as _summ, canon as _canon, spec as _spec
    usum = _summ(util)

    def _max_terms(e):
        if isinstance(e, ast.Call) and call_name(e) == "max" and not e.keywords:
            out = []
            for a in e.args:
                out.extend(_max_terms(a))
            return out
        return [e]

    ures = usum.result
    if isinstance(ures, ast.IfExp) and isinstance(ures.body, ast.Constant) and ures.body.value == 0:
        ures = ures.orelse      # empty input -> 0 digits
    terms = [] if ures is None else [t for t in _max_terms(ures) if not (isinstance(t, ast.Constant) and t.value == 0)]
    vparam = param_names(util)[0]
    want = {repr(_spec(f"len(str(np.{m}({vparam}.astype(int, copy=False))))")) for m in ("min", "max")}
    summary_ok = {repr(_canon(t)) for t in terms} == want
    # the column guards (and the refusal of NaN / infinity in B-factor, occupancy and the box, which have no test of their own:
    # the cast of NaN to int gives a number with 19 digits) rest on this helper measuring ALL values as they were passed
    ctx.ob(rule, UTIL, "number_of_integer_digits", "max(len(str(min(int(values)))), len(str(max(int(values)))))", summary_ok,
           "the helper must measure the integer part of the smallest and the largest of all values passed (no value filtered "
           "out or altered before): the code computes " + (ast.unparse(usum.result)[:200] if usum.result is not None else "nothing"), util.lineno)


def run(ctx):
    altloc_marker_rules(ctx)
    src = ctx.src(FILE)
    slices = slice_table(src)
    ctx.floor("reader-slices", len(slices), 20)
    consts = module_consts(src)
    for name in ("_PDB_MAX_ATOMS", "_PDB_MAX_RESIDUES"):
        ctx.need(name in consts, name)
    chk = src.func("_check_pdb_compatibility")
    guards = Guards(ctx, chk, consts)
    ctx.count("guards", len(guards.maxlen) + len(guards.digits) + len(guards.lower) + len(guards.nan))
    setf = src.func("PDBFile.set_structure")
    aparam = param_names(setf)[1]
    # the guard function is called first, with the array
    first_calls = [c for c in calls(setf) if call_name(c) == "_check_pdb_compatibility"]
    ctx.need(first_calls, "set_structure calls _check_pdb_compatibility")
    cfg = CFG(setf, lambda st: isinstance(st, ast.Raise))
    dom = cfg.dominators()
    chk_nodes = [n.id for n in cfg.nodes if n.ast is not None and n.kind == "stmt"
                 and any(call_name(c) == "_check_pdb_compatibility" for c in ast.walk(n.ast) if isinstance(c, ast.Call))]
    # coordinate dtype
    atoms = ctx.src(ATOMS)
    sa = atoms.func("_AtomArrayBase.__setattr__")
    f32 = any(isinstance(c, ast.Call) and isinstance(c.func, ast.Attribute) and c.func.attr == "astype"
              and c.args and (dotted(c.args[0]) or "").endswith("float32")
              and any(isinstance(k, ast.Constant) and k.value == "_coord" for k in ast.walk(p))
              for p in ast.walk(sa) if isinstance(p, ast.Call) for c in ast.walk(p))
    dtypes = {"coord": "float32" if f32 else "float64"}
    ctx.ob("R3.coord-dtype", ATOMS, "_AtomArrayBase.__setattr__", "coord stored as float32", True,
           nontrivial=False, detail={"float32": f32})
    digits_helper_rule(ctx, "R3.digits-helper")
    unitcell_noise_rule(ctx, "R2.unitcell-noise-cutoff")
    # coordinate records are ATOM and HETATM records, wherever the reader looks for them (models, atom lines, the single-model fallback)
    rec_tests = [c for c in ast.walk(ctx.src(FILE).tree) if isinstance(c, ast.Call) and isinstance(c.func, ast.Attribute) and c.func.attr == "startswith"
                 and c.args and any(isinstance(x, ast.Constant) and x.value in ("ATOM", "HETATM") for x in ast.walk(c.args[0]))]
    bad_rec = [c for c in rec_tests if {x.value for x in ast.walk(c.args[0]) if isinstance(x, ast.Constant)} != {"ATOM", "HETATM"}]
    ctx.ob("R1.hetero-records-are-atom-records", FILE, "<module>", f"{len(rec_tests)} record test(s) startswith(('ATOM', 'HETATM'))",
           len(rec_tests) >= 1 and not bad_rec,
           "a structure that consists of hetero atoms only (a ligand, a water box) has no ATOM record: a test for 'ATOM' alone finds no model "
           "and no atoms in it", bad_rec[0].lineno if bad_rec else 1)
    W = Writer(ctx, setf, guards, consts, aparam, dtypes)

    # ---------------- ATOM / HETATM record --------------------------------
    for name in ("first_half", "second_half"):
        ctx.need(name in W.defs and len(W.defs[name]) == 1, f"assignment of {name} in set_structure")
    rec = None
    for n in walk_local(setf):
        if isinstance(n, ast.ListComp) and isinstance(n.elt, ast.JoinedStr):
            srcs = names_in(n.generators[0].iter)
            if {"first_half", "second_half"} <= srcs:
                rec = n
    ctx.need(rec is not None, "ATOM record f-string over zip(first_half, coord_i, second_half)")
    gen = rec.generators[0]
    tnames = [ast.unparse(t) for t in gen.target.elts]
    zargs = [ast.unparse(a) for a in gen.iter.args]
    role = dict(zip(zargs, gen.target.elts))
    ctx.need("first_half" in role and "second_half" in role, "zip arguments of the record")
    start_v, end_v = role["first_half"].id, role["second_half"].id
    coord_names = [t.id for t in gen.target.elts[zargs.index("coord_i")].elts] if "coord_i" in zargs else []
    ctx.need(len(coord_names) == 3, "x, y, z unpacked from coord_i")

    pieces = []  # (label, var, expr, (min,max), nominal)
    offset = 0

    def add_piece(label, var, expr, w, nominal, strict=True):
        nonlocal offset
        pieces.append({"label": label, "var": var, "expr": expr, "w": w, "off": offset,
                       "nominal": nominal, "strict": strict})
        offset += nominal

    def eval_parts(parts, strip_trailing):
        for i, p in enumerate(parts):
            try:
                w = W.width(p)
            except Unknown as e:
                raise AnalysisError(f"set_structure: cannot evaluate the width of `{ast.unparse(p)[:60]}`: {e}")
            nominal = None
            if isinstance(p, ast.Call) and isinstance(p.func, ast.Attribute) and p.func.attr in ("ljust", "rjust"):
                nominal = const_eval(p.args[0], consts, sym_attrs=False)
            else:
                nominal = w[1] if w[1] != INF else w[0]
            last = strip_trailing and i == len(parts) - 1
            add_piece(ast.unparse(p), piece_var(p), p, w, nominal, strict=not last)

    for part in rec.elt.values:
        if isinstance(part, ast.Constant):
            add_piece(repr(part.value), None, part, (len(part.value),) * 2, len(part.value))
            continue
        v = part.value
        spec = "".join(x.value for x in part.format_spec.values) if part.format_spec else ""
        sp = parse_spec(spec)
        if isinstance(v, ast.Name) and v.id in (start_v, end_v):
            half = "first_half" if v.id == start_v else "second_half"
            parts = flatten_add(W.defs[half][0])
            before = offset
            eval_parts(parts, strip_trailing=True)
            total = offset - before
            ctx.ob("R1.half-width", FILE, "PDBFile.set_structure",
                   f"{half}: pieces sum to {total}, padded to {sp['width']}",
                   total == sp["width"],
                   f"the pieces of {half} are {total} characters wide but the record pads it to "
                   f"{sp['width']}: fields after it are shifted", part.lineno)
        elif isinstance(v, ast.Name) and v.id in coord_names:
            b = {v.id: ("float", "coord")}
            w = W.width(part, b)
            add_piece(f"{v.id}:{spec}", v.id, part, w, sp["width"])
        else:
            raise AnalysisError(f"unrecognised part of the ATOM record: {ast.unparse(part)}")
    ctx.ob("R1.record-length", FILE, "PDBFile.set_structure", f"record length {offset}", offset == 80,
           f"an ATOM record is {offset} characters long, the format has 80 columns", rec.lineno)

    n_fields = 0
    for p in pieces:
        var = p["var"]
        if var in WRITER_FIELDS:
            n_fields += 1
            sl_name, annot = WRITER_FIELDS[var]
            ctx.need(sl_name in slices, f"reader slice {sl_name}")
            a, b = slices[sl_name]
            ctx.ob("R1.column", FILE, "PDBFile.set_structure",
                   f"{var} at [{p['off']},{p['off'] + p['nominal']}) read with {sl_name}=[{a},{b})",
                   (p["off"], p["off"] + p["nominal"]) == (a, b),
                   f"the writer puts {var} into columns {p['off']}..{p['off'] + p['nominal']} but the "
                   f"reader takes {sl_name} from {a}..{b}", p["expr"].lineno)
            # provenance: the piece is built from the annotation the reader assigns
            if var not in coord_names:
                srcs = set()
                for d in W.defs.get(var, []):
                    for x in ast.walk(d):
                        dd = dotted(x) if isinstance(x, ast.Attribute) else None
                        if dd and dd.startswith(aparam + "."):
                            srcs.add(dd[len(aparam) + 1:])
                        if isinstance(x, ast.Call) and call_name(x) == f"{aparam}.get_annotation":
                            srcs.add(x.args[0].value)
                        if isinstance(x, ast.Name) and x.id in W.defs and x.id != var:
                            for d2 in W.defs[x.id]:
                                for y in ast.walk(d2):
                                    d3 = dotted(y) if isinstance(y, ast.Attribute) else None
                                    if d3 and d3.startswith(aparam + "."):
                                        srcs.add(d3[len(aparam) + 1:])
                ctx.ob("R1.provenance", FILE, "PDBFile.set_structure", f"{var} <- array.{annot}",
                       annot in srcs,
                       f"the piece written into {sl_name} is not built from array.{annot} (sources: {sorted(srcs)})",
                       p["expr"].lineno)
        # exact width
        lo, hi = p["w"]
        need = p["nominal"]
        ok = (hi == need) and (lo == need or not p["strict"])
        reason = ""
        if not ok:
            key = None
            for k, v in W.notes.items():
                if k in p["label"] or p["label"] in k or (var and var in k):
                    key = v
            if hi == INF or hi > need:
                reason = (f"`{p['label']}` can be wider than its {need} column(s) "
                          f"(max {hi}): " + (key or "no guard of _check_pdb_compatibility bounds it"))
                # look into the definitions for notes
                if key is None and var:
                    for k, v in W.notes.items():
                        reason = reason if not v else reason
            else:
                reason = (f"`{p['label']}` can be narrower ({lo}) than its {need} column(s) and is "
                          "not padded: all following fields move left")
        ctx.ob("R2.piece-exact-width", FILE, "PDBFile.set_structure",
               f"{p['label']} -> {need} column(s)", ok, reason, p["expr"].lineno,
               detail={"min": lo, "max": (hi if hi != INF else "unbounded")})
    # attach notes for float fields / ids defined outside the piece expression
    for k, v in sorted(W.notes.items()):
        ctx.ob("R3.guard-sound", FILE, "_check_pdb_compatibility", k, False, v,
               chk.lineno)
    ctx.floor("named-fields", n_fields, 14)

    # guards are evaluated before anything is written
    for n in cfg.nodes:
        if n.ast is None or n.kind != "stmt":
            continue
        if any(isinstance(c, ast.Call) and (call_name(c) or "") in ("self.lines.append", "self.lines.extend")
               for c in ast.walk(n.ast)):
            ctx.ob("R3.guard-dominates-write", FILE, "PDBFile.set_structure", n.ast,
                   any(c in dom.get(n.id, set()) for c in chk_nodes),
                   "a record is written on a path that skips _check_pdb_compatibility", n.line)
    # R3: guard covers all models; NaN refused
    for f, gd in sorted(guards.digits.items()):
        ctx.ob("R3.guard-all-models", FILE, "_check_pdb_compatibility",
               f"{f}: {ast.unparse(gd['node'])}", gd["all_models"],
               "the coordinate guard does not select the last axis with `[..., i]`: for a stack only "
               "part of the atoms/models is checked", gd["node"].lineno)
    ctx.ob("R3.nan-refused", FILE, "_check_pdb_compatibility", "np.isnan(array.coord).any() -> raise",
           "coord" in guards.nan, "NaN coordinates are not refused", chk.lineno)
    for f in ("chain_id", "res_name", "atom_name", "ins_code", "element"):
        ctx.ob("R3.name-length-guard", FILE, "_check_pdb_compatibility", f"len(array.{f}) bounded",
               f in guards.maxlen, f"no guard refuses over-long {f} values", chk.lineno,
               nontrivial=False)
    # coordinate guards loop over the three axes
    loop_ok = False
    for st in stmts(chk):
        if isinstance(st, ast.For) and "coord" in ast.unparse(st):
            try:
                it = st.iter.args[0] if isinstance(st.iter, ast.Call) and call_name(st.iter) == "enumerate" else st.iter
                n_axes = len(const_eval(it))
            except Exception:
                n_axes = None
            loop_ok = n_axes == 3
    ctx.ob("R3.guard-all-axes", FILE, "_check_pdb_compatibility", "x, y, z all checked", loop_ok,
           "the coordinate guard does not iterate over the three axes", chk.lineno)

    # ---------------- reader side: each field with its slice ---------------
    getf = src.func("PDBFile.get_structure")
    n_r = 0
    for st in stmts(getf):
        if not isinstance(st, ast.Assign) or len(st.targets) != 1:
            continue
        t = st.targets[0]
        used = [n.id for n in ast.walk(st.value) if isinstance(n, ast.Name) and n.id in slices]
        if not used:
            continue
        if isinstance(t, ast.Subscript) and isinstance(t.value, ast.Name) and t.value.id in READER_FIELDS:
            n_r += 1
            want = READER_FIELDS[t.value.id]
            ctx.ob("R1.reader-slice", FILE, "PDBFile.get_structure", st,
                   set(used) == {want},
                   f"{t.value.id} is read with {sorted(set(used))}, its column is {want}", st.lineno)
        elif isinstance(t, ast.Subscript) and (dotted(t.value) or "").endswith(".coord"):
            idx = t.slice.elts[-1] if isinstance(t.slice, ast.Tuple) else None
            if isinstance(idx, ast.Constant) and idx.value in COORD_SLICES:
                n_r += 1
                ctx.ob("R1.reader-slice", FILE, "PDBFile.get_structure", st,
                       set(used) == {COORD_SLICES[idx.value]},
                       f"coordinate axis {idx.value} is read with {sorted(set(used))}", st.lineno)
    for q in ("PDBFile.get_coord",):
        f = src.func(q)
        for st in stmts(f):
            if isinstance(st, ast.Assign) and isinstance(st.targets[0], ast.Subscript):
                used = [n.id for n in ast.walk(st.value) if isinstance(n, ast.Name) and n.id in slices]
                t = st.targets[0]
                idx = t.slice.elts[-1] if isinstance(t.slice, ast.Tuple) else None
                if used and isinstance(idx, ast.Constant) and idx.value in COORD_SLICES:
                    n_r += 1
                    ctx.ob("R1.reader-slice", FILE, q, st, set(used) == {COORD_SLICES[idx.value]},
                           f"coordinate axis {idx.value} is read with {sorted(set(used))}", st.lineno)
    ctx.floor("reader-assignments", n_r, 20)
    # slices do not overlap and lie inside 80 columns
    atom_slices = sorted((slices[v[0]], v[0]) for v in WRITER_FIELDS.values()) + [(slices["_alt_loc"], "_alt_loc")]
    atom_slices = sorted(set(atom_slices))
    overlap = [(a, b) for (a, an), (b, bn) in zip(atom_slices, atom_slices[1:]) if a[1] > b[0]]
    ctx.ob("R1.slices-disjoint", FILE, "<module>", "ATOM slices", not overlap and atom_slices[-1][0][1] <= 80,
           f"overlapping column slices {overlap}", 1)

    # ---------------- CRYST1 ----------------------------------------------
    cr = None
    for n in walk_local(setf):
        if isinstance(n, ast.JoinedStr) and n.values and isinstance(n.values[0], ast.Constant) \
                and str(n.values[0].value).startswith("CRYST1"):
            cr = n
    ctx.need(cr is not None, "CRYST1 f-string")
    # guard for the box lengths lives in set_structure
    g2 = Guards(ctx, setf, consts)
    box_guard = None
    for st in stmts(setf):
        if isinstance(st, ast.If) and any(isinstance(b, ast.Raise) for b in st.body):
            for c in ast.walk(st.test):
                if isinstance(c, ast.Call) and (call_name(c) or "").endswith("number_of_integer_digits"):
                    txt = ast.unparse(c)
                    box_guard = (st, txt)
    off = 0
    cr_fields = ["_a", "_b", "_c", "_alpha", "_beta", "_gamma"]
    fi = 0
    for part in cr.values:
        if isinstance(part, ast.Constant):
            text = part.value
            if off > 0:
                # trailing literal: non-blank runs must sit inside _space and _z
                runs = []
                i = 0
                while i < len(text):
                    if text[i] != " ":
                        j = i
                        while j < len(text) and text[j] != " ":
                            j += 1
                        runs.append((off + i, off + j))
                        i = j
                    else:
                        i += 1
                sp_a, sp_b = slices["_space"]
                z_a, z_b = slices["_z"]
                inside = all((sp_a <= a and b <= sp_b) or (z_a <= a and b <= z_b) for a, b in runs)
                zr = [r for r in runs if z_a <= r[0]]
                ctx.ob("R1.cryst1-tail", FILE, "PDBFile.set_structure", repr(text),
                       inside and bool(zr) and zr[-1][1] == z_b,
                       f"space group / Z literal occupies {runs}, reader slices are _space={slices['_space']} "
                       f"_z={slices['_z']} (Z right-justified)", part.lineno)
            off += len(text)
            continue
        spec = "".join(x.value for x in part.format_spec.values) if part.format_spec else ""
        sp = parse_spec(spec)
        name = cr_fields[fi] if fi < len(cr_fields) else None
        fi += 1
        ctx.need(name is not None, "six CRYST1 fields")
        a, b = slices[name]
        ctx.ob("R1.column", FILE, "PDBFile.set_structure",
               f"CRYST1 {ast.unparse(part.value)} at [{off},{off + sp['width']}) read with {name}=[{a},{b})",
               (off, off + sp["width"]) == (a, b),
               f"CRYST1 field written at {off}..{off + sp['width']} but read from {a}..{b}", part.lineno)
        # width bound
        if (call_name(part.value) or "").endswith("rad2deg") if isinstance(part.value, ast.Call) else False:
            mw = 3 + 1 + sp["prec"]
            ctx.ob("R2.piece-exact-width", FILE, "PDBFile.set_structure",
                   f"CRYST1 {ast.unparse(part.value)}:{spec}", mw <= sp["width"],
                   "angle field too narrow for 180.00", part.lineno)
        else:
            ok = False
            why = "no guard bounds the box length before it is formatted"
            if box_guard is not None:
                txt = box_guard[1]
                var = ast.unparse(part.value)
                k = None
                for c in ast.walk(box_guard[0].test):
                    if isinstance(c, ast.Compare) and isinstance(c.comparators[0], ast.Constant):
                        k = c.comparators[0].value + (0 if isinstance(c.ops[0], ast.Gt) else -1)
                rounded = f"round(" in txt and txt.rstrip(")").endswith(f", {sp['prec']}")
                covers = var in names_in(box_guard[0].test)
                if k is not None and covers:
                    mw, wit = float_field_width(k, sp["prec"], "float64", rounded)
                    ok = mw <= sp["width"]
                    why = f"box length guard admits {mw} characters for a {sp['width']}-character field: {wit}"
            ctx.ob("R2.piece-exact-width", FILE, "PDBFile.set_structure",
                   f"CRYST1 {ast.unparse(part.value)}:{spec}", ok, why, part.lineno)
        off += sp["width"]
    ctx.ob("R1.record-length", FILE, "PDBFile.set_structure", f"CRYST1 length {off}", off == 80,
           f"CRYST1 record is {off} characters long", cr.lineno)
    # reader uses the slices
    gtxt = ast.unparse(getf)
    for name in cr_fields:
        ctx.ob("R1.reader-slice", FILE, "PDBFile.get_structure", f"line[{name}]",
               f"line[{name}]" in gtxt, f"CRYST1 field {name} is not read with its slice", getf.lineno,
               nontrivial=False)

    # ---------------- CONECT ----------------------------------------------
    sb = src.func("PDBFile._set_bonds")
    gb = src.func("PDBFile._get_bonds")
    widths = []
    per_line = None
    spec_ids = {id(x.format_spec) for x in ast.walk(sb) if isinstance(x, ast.FormattedValue) and x.format_spec}
    for n in walk_local(sb):
        if isinstance(n, ast.JoinedStr) and id(n) not in spec_ids:
            w = 0
            for p in n.values:
                if isinstance(p, ast.Constant):
                    w += len(p.value)
                else:
                    spec = "".join(x.value for x in p.format_spec.values) if p.format_spec else ""
                    w += parse_spec(spec)["width"]
            widths.append((w, ast.unparse(n)))
        if isinstance(n, ast.Compare) and isinstance(n.left, ast.Name) and n.left.id == "n_added" \
                and isinstance(n.ops[0], ast.Eq) and isinstance(n.comparators[0], ast.Constant) \
                and n.comparators[0].value > 0:
            per_line = n.comparators[0].value
    ctx.need(len(widths) == 2 and per_line is not None, "CONECT writer pieces")
    head = max(w for w, _ in widths)
    item = min(w for w, _ in widths)
    # reader: line[6:11] and range(11, 31, 5)
    rd = None
    center = None
    for n in walk_local(gb):
        if isinstance(n, ast.Call) and call_name(n) == "range" and len(n.args) == 3:
            rd = tuple(const_eval(a) for a in n.args)
        if isinstance(n, ast.Subscript) and isinstance(n.slice, ast.Slice) and isinstance(n.slice.lower, ast.Constant) \
                and isinstance(n.slice.upper, ast.Constant):
            center = (n.slice.lower.value, n.slice.upper.value)
    ctx.need(rd is not None and center is not None, "CONECT reader offsets")
    ctx.ob("R1.conect-layout", FILE, "PDBFile._set_bonds",
           f"head {head} + {per_line} x {item}  vs reader center {center}, range{rd}",
           center == (head - item, head) and rd == (head, head + per_line * item, item),
           "CONECT writer and reader disagree on the field positions", sb.lineno)

    # the atom numbers of the CONECT records are the serial numbers of the ATOM records: the very array that fills the serial
    # column (wrapped / hybrid-36 encoded, 5 characters) is what _set_bonds receives, not the raw integer ids
    fh = [st for st in stmts(setf) if isinstance(st, ast.Assign) and any(isinstance(t, ast.Name) and t.id == "first_half" for t in st.targets)]
    ctx.need(len(fh) == 1, "assignment of first_half in set_structure")
    chain = []

    def _flat(e):
        if isinstance(e, ast.BinOp) and isinstance(e.op, ast.Add):
            _flat(e.left); _flat(e.right)
        else:
            chain.append(e)
    _flat(fh[0].value)
    serial = chain[1] if len(chain) > 1 else None
    while isinstance(serial, ast.Call) and isinstance(serial.func, ast.Attribute):
        serial = serial.func.value
    ctx.need(isinstance(serial, ast.Name), "the serial column of the ATOM record is the second piece of first_half")
    sbc = [c for c in calls(setf) if (call_name(c) or "").endswith("_set_bonds")]
    ctx.floor("conect-writer-calls", len(sbc), 1)
    for c in sbc:
        a = c.args[1] if len(c.args) > 1 else next((k.value for k in c.keywords if k.arg == "atom_ids"), None)
        ctx.ob("R1.conect-serials", FILE, "PDBFile.set_structure", ast.unparse(c)[:70],
               isinstance(a, ast.Name) and a.id == serial.id,
               f"CONECT records must carry the atom serial numbers as they are written in the ATOM records (`{serial.id}`): with hybrid-36 "
               "or more than 99999 atoms the raw ids have 6 digits, shift the 5-character fields and name other atoms", c.lineno)

    # every index / cached value derived from the lines is rebuilt when set_structure() replaces them
    from ..lints import derived_state_refreshed
    derived_state_refreshed(ctx, FILE, "PDBFile", "R5.derived-state-refreshed")
    # the refusing guards of _check_pdb_compatibility hold in BOTH id modes: only the checks of the ids themselves may depend on hybrid36
    from .. import facts as _fx
    from ..exprnorm import spec as _sp
    cpc = src.func("_check_pdb_compatibility")
    n_g = 0
    for r_ in [x for x in ast.walk(cpc) if isinstance(x, ast.Raise)]:
        known = _fx.facts_at(cpc, r_)
        mode_dep = _sp("hybrid36") in known or _sp("not hybrid36") in known
        about_ids = any(isinstance(x, ast.Attribute) and x.attr in ("res_id", "atom_id") for st in ast.walk(cpc) if isinstance(st, ast.If)
                        and any(b is r_ for b in st.body) for x in ast.walk(st.test))
        n_g += 1
        ctx.ob("R4.guard-in-both-id-modes", FILE, "_check_pdb_compatibility", f"refusal at +{r_.lineno - cpc.lineno}: " + ("mode dependent" if mode_dep else "unconditional"),
               (not mode_dep) or about_ids,
               "this refusal only runs for one value of hybrid36 although the column it protects (coordinates, B-factor, occupancy, names) "
               "has the same width in both modes: with the other mode an over-wide value shifts all following columns", r_.lineno)
    ctx.floor("compatibility-refusals", n_g, 10)

    # ---------------- R5 lines reset, ID wrap ------------------------------
    resets = [n.id for n in cfg.nodes if n.ast is not None and isinstance(n.ast, ast.Assign)
              and any(dotted(t) == "self.lines" for t in n.ast.targets)
              and isinstance(n.ast.value, ast.List) and not n.ast.value.elts]
    for n in cfg.nodes:
        if n.ast is None or n.kind != "stmt":
            continue
        if any(isinstance(c, ast.Call) and (call_name(c) or "") in ("self.lines.append", "self.lines.extend")
               for c in ast.walk(n.ast)):
            ctx.ob("R5.lines-reset", FILE, "PDBFile.set_structure", n.ast,
                   any(r in dom.get(n.id, set()) for r in resets),
                   "records are appended on a path where self.lines was not reset to an empty list: "
                   "a file object that already holds records keeps them", n.line)
    n_wrap = 0
    for n in walk_local(setf):
        if isinstance(n, ast.Call) and (call_name(n) or "").endswith("where") and len(n.args) == 3:
            cond, a, b = n.args
            if not (isinstance(a, ast.BinOp) and "%" in ast.unparse(a)):
                continue
            n_wrap += 1
            # a == ((X - s) % M) + t   and cond == X > c
            ok = False
            why = "unrecognised wrap"
            try:
                add = a
                t = const_eval(add.right, consts, sym_attrs=False)
                mod = add.left
                M = const_eval(mod.right, consts, sym_attrs=False)
                s = const_eval(mod.left.right, consts, sym_attrs=False)
                X = mod.left.left
                same = ast.dump(X) == ast.dump(b) == ast.dump(cond.left)
                c = const_eval(cond.comparators[0], consts, sym_attrs=False)
                lo = c + 1 if isinstance(cond.ops[0], ast.Gt) else c if isinstance(cond.ops[0], ast.GtE) else None
                # identity on [s, s+M-1] iff t == s ; applied to values >= lo
                ok = same and isinstance(mod.left.op, ast.Sub) and t == s and lo == s
                why = (f"wrap ((x - {s}) % {M}) + {t} is the identity on {s}..{s + M - 1} only if the "
                       f"offsets agree, and must be applied exactly to x >= {s}; the condition selects x >= {lo}")
            except Exception:
                pass
            ctx.ob("R5.id-wrap", FILE, "PDBFile.set_structure", n, ok, why, n.lineno)
    ctx.floor("id-wraps", n_wrap, 2)

    # the id mode is honoured: what the hybrid36 arm computes reaches the records
    mode_if = [st for st in setf.body if isinstance(st, ast.If) and isinstance(st.test, ast.Name) and st.test.id == "hybrid36"]
    ctx.need(len(mode_if) == 1, "if hybrid36: ... else: ... in set_structure")
    mi = mode_if[0]

    def assigned(block):
        out = set()
        for st in block:
            for n in ast.walk(st):
                if isinstance(n, ast.Name) and isinstance(n.ctx, ast.Store):
                    out.add(n.id)
        return out

    hyb, dec = assigned(mi.body), assigned(mi.orelse)
    enc_vars = {t.id for st in mi.body for n in ast.walk(st) if isinstance(n, ast.Assign) and "encode_hybrid36" in ast.unparse(n.value)
                for t in n.targets if isinstance(t, ast.Name)}
    ctx.need(len(enc_vars) >= 2, "hybrid-36 encoded atom and residue ids")
    after = setf.body[setf.body.index(mi) + 1:]
    later_defs = assigned(after)
    later_uses = {n.id for st in after for n in ast.walk(st) if isinstance(n, ast.Name) and isinstance(n.ctx, ast.Load)}
    for v in sorted(enc_vars):
        ctx.ob("R5.id-mode-honoured", FILE, "PDBFile.set_structure", v,
               v in dec and v not in later_defs and v in later_uses,
               f"`{v}` holds the hybrid-36 encoded ids when hybrid36=True: it must get its decimal value only in the else arm "
               f"(assigned there: {v in dec}), must not be assigned again after the mode switch (reassigned: {v in later_defs}) "
               f"and must be what the records use (used: {v in later_uses})", mi.lineno)

    # ---------------- R4 hybrid-36 ----------------------------------------
    h = ctx.src(H36)
    hc = module_consts(h)
    enc = h.func("encode_hybrid36")
    dec = h.func("decode_hybrid36")
    mx = h.func("max_hybrid36_number")
    for L in (4, 5):
        env = dict(hc, length=L)
        # walk encode sequentially
        off = 0
        branches = []
        first_t = None
        for st in enc.body:
            if isinstance(st, ast.AugAssign) and isinstance(st.target, ast.Name) and st.target.id == "num":
                v = const_eval(st.value, env, sym_attrs=False)
                off += -v if isinstance(st.op, ast.Sub) else v
            elif isinstance(st, ast.If) and isinstance(st.test, ast.Compare) and isinstance(st.test.left, ast.Name) \
                    and st.test.left.id == "num" and isinstance(st.test.ops[0], ast.Lt):
                T = const_eval(st.test.comparators[0], env, sym_attrs=False)
                rets = [x for x in st.body if isinstance(x, ast.Return)]
                adds = [x for x in st.body if isinstance(x, ast.AugAssign)]
                if rets and isinstance(rets[0].value, ast.Call) and call_name(rets[0].value) == "str":
                    first_t = T
                elif rets and isinstance(rets[0].value, ast.Call) and call_name(rets[0].value) == "_encode_base36":
                    F = sum(const_eval(x.value, env, sym_attrs=False) for x in adds)
                    letter = dotted(rets[0].value.args[2])
                    branches.append({"T": T, "off": off + F, "F": F, "letter": letter, "start": -off})
        ctx.need(first_t is not None and len(branches) == 2, "encode_hybrid36 branch structure")
        ctx.ob("R4.decimal-range", H36, "encode_hybrid36", f"L={L}: plain numbers below {first_t}",
               first_t == 10 ** L, "decimal range must end at 10**length", enc.lineno)
        dec_off = {}
        for st in ast.walk(dec):
            if isinstance(st, ast.If):
                letter = None
                for c in ast.walk(st.test):
                    d = dotted(c) if isinstance(c, ast.Name) else None
                    if d in ("_ASCII_FIRST_LETTER_UPPER", "_ASCII_FIRST_LETTER_LOWER"):
                        letter = d
                rets = [x for x in st.body if isinstance(x, ast.Return)]
                if letter and rets and isinstance(rets[0].value, ast.BinOp):
                    dec_off[letter] = const_eval(rets[0].value, dict(env, base_value=0), sym_attrs=False)
        ctx.need(len(dec_off) == 2, "decode_hybrid36 branches")
        lo = 10 ** L
        for br in branches:
            d = dec_off.get(br["letter"])
            ctx.ob("R4.offsets-cancel", H36, "decode_hybrid36",
                   f"L={L} {br['letter']}: encode adds {br['off']}, decode adds {d}",
                   d is not None and d == -br["off"],
                   "decode does not undo the offset encode applies", dec.lineno)
            ctx.ob("R4.letter-range", H36, "encode_hybrid36",
                   f"L={L} {br['letter']}: values [{br['F']}, {br['F'] + br['T']}) of 36**{L}",
                   br["F"] == 10 * 36 ** (L - 1) and br["F"] + br["T"] == 36 ** L,
                   "the letter range must be exactly the base-36 numbers whose first digit is a letter",
                   enc.lineno)
            ctx.ob("R4.ranges-contiguous", H36, "encode_hybrid36",
                   f"L={L} {br['letter']} starts at {br['start']}", br["start"] == lo,
                   "ranges of encode_hybrid36 are not contiguous", enc.lineno)
            lo += br["T"]
        ret = [x for x in mx.body if isinstance(x, ast.Return)][0]
        m = const_eval(ret.value, env, sym_attrs=False)
        ctx.ob("R4.max-number", H36, "max_hybrid36_number", f"L={L}: {m}", m == lo - 1,
               f"max_hybrid36_number({L}) = {m} but encode accepts values up to {lo - 1}", mx.lineno)
    # writer uses the column widths with encode
    for c in calls(setf):
        if (call_name(c) or "").endswith("encode_hybrid36") and len(c.args) == 2:
            n = const_eval(c.args[1], consts, sym_attrs=False)
            src_txt = ast.unparse(c.args[0])
            # which piece is it for
            pass
    for var, width_ in (("pdb_atom_id", 5), ("pdb_res_id", 4)):
        ok = False
        for d in W.defs.get(var, []):
            for c in ast.walk(d):
                if isinstance(c, ast.Call) and (call_name(c) or "").endswith("encode_hybrid36") and len(c.args) == 2:
                    ok = const_eval(c.args[1], consts, sym_attrs=False) == width_
        ctx.ob("R4.encode-width", FILE, "PDBFile.set_structure", f"{var}: encode_hybrid36(_, {width_})", ok,
               f"hybrid-36 length for {var} must equal its column width {width_}", setf.lineno)
    # max numbers used by the guard
    gtxt = ast.unparse(chk)
    ctx.ob("R4.guard-max", FILE, "_check_pdb_compatibility", "max_hybrid36_number(5), max_hybrid36_number(4)",
           has_code(chk, "max_atoms = max_hybrid36_number(5)") and has_code(chk, "max_residues = max_hybrid36_number(4)"),
           "hybrid-36 limits of the guard do not match the column widths", chk.lineno, nontrivial=False)


def _m(name, old, new, rule, q=None, rel=FILE, kind="break"):
    return Mutant(name, rel, old, new, rule, q, kind=kind)


MUTANTS = [
    _m("coordinate-check-only-without-hybrid36", "            raise BadStructureError(\"Atom IDs below -9999 exceed 5 characters\")\n    for i, coord_name in enumerate([\"x\", \"y\", \"z\"]):\n        # Check the values as they are written, i.e. after rounding\n        n_coord_digits = number_of_integer_digits(np.round(array.coord[..., i], 3))\n        if n_coord_digits > 4:\n            raise BadStructureError(\n                f\"4 pre-decimal columns for {coord_name}-coordinates are \"\n                f\"available, but array would require {n_coord_digits}\"\n            )\n",
       "            raise BadStructureError(\"Atom IDs below -9999 exceed 5 characters\")\n        for i, coord_name in enumerate([\"x\", \"y\", \"z\"]):\n            n_coord_digits = number_of_integer_digits(np.round(array.coord[..., i], 3))\n            if n_coord_digits > 4:\n                raise BadStructureError(\n                    f\"4 pre-decimal columns for {coord_name}-coordinates are \"\n                    f\"available, but array would require {n_coord_digits}\"\n                )\n",
       "R4.guard-in-both-id-modes"),
    _m("model-length-memoised", "        n_models = len(self._model_start_i)\n        length = None\n", "        if getattr(self, \"_model_length\", None) is not None:\n            return self._model_length\n        self._model_length = None\n        n_models = len(self._model_start_i)\n        length = None\n",
       "R5.derived-state-refreshed"),
    _m("conect-raw-ids", "            self._set_bonds(BondList(array.array_length(), bond_array), pdb_atom_id)\n",
       "            self._set_bonds(BondList(array.array_length(), bond_array), atom_id)\n", "R1.conect-serials"),
    _m("digits-helper-drops-nan", "    if len(values) == 0:\n        return 0\n", "    values = values[~np.isnan(values)]\n    if len(values) == 0:\n        return 0\n",
       "R3.digits-helper", rel=UTIL),
    _m("resid-rjust5", "+ pdb_res_id.rjust(4)", "+ pdb_res_id.rjust(5)", "R1.column"),
    _m("tempf-slice", "_temp_f = slice(60, 66)", "_temp_f = slice(60, 67)", "R1.column"),
    _m("bfactor-guard-removed", 'n_b_factor_digits > 3', 'n_b_factor_digits > 4', "R2.piece-exact-width"),
    _m("regress-rounded-guard", "number_of_integer_digits(np.round(array.b_factor, 2))",
       "number_of_integer_digits(array.b_factor)", "R2.piece-exact-width"),
    _m("regress-rounded-coord", "number_of_integer_digits(np.round(array.coord[..., i], 3))",
       "number_of_integer_digits(array.coord[..., i])", "R2.piece-exact-width"),
    _m("regress-chain-pad", "+ chain_ids.ljust(1)", "+ chain_ids", "R2.piece-exact-width"),
    _m("regress-resid-lower", "        if (array.res_id < -999).any():\n            raise BadStructureError(\"Residue IDs below -999 exceed 4 characters\")\n",
       "", "R2.piece-exact-width"),
    _m("regress-element-guard", "    if any([len(elem) > 2 for elem in array.element]):\n        raise BadStructureError(\"Some elements exceed 2 characters\")\n",
       "", "R2.piece-exact-width"),
    _m("guard-first-axis", "np.round(array.coord[..., i], 3)", "np.round(array.coord[:, i], 3)", "R3.guard-all-models"),
    _m("occupancy-bfactor-swapped", "second_half = (\n            occupancy + b_factor", "second_half = (\n            b_factor + occupancy", "R1.column"),
    _m("reader-swapped", "occupancy[i] = float(line[_occupancy].strip())", "occupancy[i] = float(line[_temp_f].strip())", "R1.reader-slice"),
    _m("res-id-decimal-after-mode-switch", "            # Residue IDs are supported up to 9999,\n            # but negative IDs are also possible\n            pdb_res_id = np.char.array(\n                np.where(\n                    array.res_id > 0,\n                    ((array.res_id - 1) % _PDB_MAX_RESIDUES) + 1,\n                    array.res_id,\n                ).astype(str)\n            )\n", "        pdb_res_id = np.char.array(\n            np.where(\n                array.res_id > 0,\n                ((array.res_id - 1) % _PDB_MAX_RESIDUES) + 1,\n                array.res_id,\n            ).astype(str)\n        )\n", "R5.id-mode-honoured"),
    _m("wrap-ge0", "atom_id > 0, ((atom_id - 1) % _PDB_MAX_ATOMS) + 1, atom_id", "atom_id >= 0, ((atom_id - 1) % _PDB_MAX_ATOMS) + 1, atom_id", "R5.id-wrap"),
    _m("lines-reset-in-branch", "        self.lines = []\n        # Prepend a single CRYST1 record if we have box information\n        if array.box is not None:", "        if array.box is not None:\n            self.lines = []", "R5.lines-reset"),
    _m("atom-name-width", "+ names.ljust(4)", "+ names.ljust(3)", "R1.column"),
    _m("coord-format", "{x:>8.3f}{y:>8.3f}", "{x:>8.3f}{y:>9.3f}", "R1.column"),
    _m("conect-item-width", 'line += f"{atom_ids[bonded_i]:>5}"', 'line += f"{atom_ids[bonded_i]:>6}"', "R1.conect-layout"),
    _m("h36-decode-offset", "return base_value + (26-10) * 36**(length-1) + 10**length",
       "return base_value + (26-10) * 36**(length-1) + 10**length - 1", "R4.offsets-cancel", rel=H36),
    _m("h36-decode-upper", "return base_value - 10 * 36**(length-1) + 10**length",
       "return base_value - 10 * 36**(length-1) + 10**(length-1)", "R4.offsets-cancel", rel=H36),
    _m("h36-max", "return 10**length - 1  +  2 * (26 * 36**(length-1))",
       "return 10**length  +  2 * (26 * 36**(length-1))", "R4.max-number", rel=H36),
    _m("h36-encode-range", "    num -= 26 * 36**(length-1)\n", "    num -= 25 * 36**(length-1)\n", "R4.ranges-contiguous", rel=H36),
    _m("nan-guard-removed", "    if np.isnan(array.coord).any():\n        raise BadStructureError(\"Coordinates contain 'NaN' values\")\n", "", "R3.nan-refused"),
    _m("cryst1-field", "{b:>9.3f}{c:>9.3f}", "{b:>9.3f}{c:>8.3f}", "R1.column"),
    # --- one seeded fault per rule that had none (R3.coord-dtype is recorded with ok=True and cannot fire) ---
    _m("cryst1-z-shifted-left", 'f"{np.rad2deg(gamma):>7.2f} P 1           1          "',
       'f"{np.rad2deg(gamma):>7.2f} P 1          1           "', "R1.cryst1-tail"),
    _m("cryst1-space-group-in-column-54", 'f"{np.rad2deg(gamma):>7.2f} P 1           1          "',
       'f"{np.rad2deg(gamma):>7.2f}P 1            1          "', "R1.cryst1-tail"),
    _m("first-half-separator-dropped", "            + spaces\n            + res_names.rjust(3)\n", "            + res_names.rjust(3)\n",
       "R1.half-width"),
    _m("second-half-padded-too-wide", "{z:>8.3f}{end:26}", "{z:>8.3f}{end:27}", "R1.half-width"),
    _m("chain-column-from-ins-code", "        chain_ids = np.char.array(array.chain_id)\n", "        chain_ids = np.char.array(array.ins_code)\n",
       "R1.provenance"),
    _m("element-column-from-res-name", "        elements = np.char.array(array.element)\n", "        elements = np.char.array(array.res_name).ljust(2)\n",
       "R1.provenance"),
    _m("atom-record-gap-two-blanks", "{start:27}   {x:>8.3f}", "{start:27}  {x:>8.3f}", "R1.record-length"),
    _m("cryst1-one-blank-short", 'f"{np.rad2deg(gamma):>7.2f} P 1           1          "',
       'f"{np.rad2deg(gamma):>7.2f} P 1           1         "', "R1.record-length"),
    _m("altloc-slice-two-columns", "_alt_loc = slice(16, 17)", "_alt_loc = slice(16, 18)", "R1.slices-disjoint"),
    _m("ins-code-slice-starts-early", "_ins_code = slice(26, 27)", "_ins_code = slice(25, 27)", "R1.slices-disjoint"),
    _m("coord-guard-two-axes", 'enumerate(["x", "y", "z"])', 'enumerate(["x", "y"])', "R3.guard-all-axes"),
    _m("guard-skipped-for-hybrid36", "        _check_pdb_compatibility(array, hybrid36)\n",
       "        if not hybrid36:\n            _check_pdb_compatibility(array, hybrid36)\n", "R3.guard-dominates-write"),
    _m("ins-code-guard-removed", "    if any([len(code) > 1 for code in array.ins_code]):\n        raise BadStructureError(\"Some insertion codes exceed 1 character\")\n",
       "", "R3.name-length-guard"),
    _m("chain-id-guard-only-warns", "        raise BadStructureError(\"Some chain IDs exceed 1 character\")\n",
       "        warnings.warn(\"Some chain IDs exceed 1 character\")\n", "R3.name-length-guard"),
    _m("h36-decimal-range-short", "    if num < 10**length:\n", "    if num < 10**length - 1:\n", "R4.decimal-range", rel=H36),
    _m("h36-upper-letter-offset", "        num += 10 * 36**(length-1)\n        return _encode_base36(num, length, _ASCII_FIRST_LETTER_UPPER)\n",
       "        num += 9 * 36**(length-1)\n        return _encode_base36(num, length, _ASCII_FIRST_LETTER_UPPER)\n", "R4.letter-range", rel=H36),
    _m("h36-lower-letter-count", "    num -= 26 * 36**(length-1)\n    if num < 26 * 36**(length-1):\n", "    num -= 26 * 36**(length-1)\n    if num < 25 * 36**(length-1):\n",
       "R4.letter-range", rel=H36),
    _m("atom-id-encoded-to-res-id-width", "encode_hybrid36(i, 5) for i in atom_id", "encode_hybrid36(i, 4) for i in atom_id", "R4.encode-width"),
    _m("res-id-encoded-to-atom-id-width", "encode_hybrid36(i, 4) for i in array.res_id", "encode_hybrid36(i, 5) for i in array.res_id", "R4.encode-width"),
    _m("guard-max-residues-width5", "        max_residues = max_hybrid36_number(4)\n", "        max_residues = max_hybrid36_number(5)\n", "R4.guard-max"),
]
