"""
C14 - cell-list neighbour search: guard/axis agreement of unchecked cell
accesses and allocation bounds.

R1  each cells[a,b,c] / cell_length[a,b,c] access under boundscheck(False)
    whose index does not come from the constructor invariant is enclosed by
    `0 <= idx < cells.shape[d]` with d = the axis the index is used on.
R2  the size that bounds unchecked writes into the result buffer is not a
    power/product of caller-supplied radii computed in a 32-bit C int.
R3  shape checks precede the buffers they guard; the periodic modulo precedes
    the mask construction; non-finite query points are skipped.
"""

import ast

from ..astutil import call_name, calls, dotted, names_in, param_names, stmts, walk_local
from ..cfg import CFG
from ..core import AnalysisError, Mutant
from .. import facts
from ..exprnorm import same_expr, spec
from ..exprnorm import has_code

EXPLANATION = (
    "For every subscript of the cell arrays in celllist.pyx (lowered, with C declarations): the "
    "enclosing range guards per axis; C type and arithmetic of allocation sizes; dominance of "
    "shape/selection/finite checks over the unchecked accesses."
)
ASSUMPTIONS = [
    "constructor invariant: the cell index of a stored atom lies inside the grid because the grid "
    "origin is the minimum of the (finite, checked) coordinates",
]
MIN_OBLIGATIONS = 18

CL = "structure/celllist.pyx"
NARROW_INT = {"int", "int32", "np.int32_t", "long"}


def post_process_returns_rule(ctx, rule):
    """what `_post_process` hands back for ONE query position is row 0 of what it hands back for several: with `as_mask` that is row 0 of
    the mask matrix, without it row 0 of the index matrix.  By ways through the function: the returned expression descends from
    `_as_mask(..)` exactly on the ways where `as_mask` holds"""
    from .. import machine
    from ..exprnorm import canon as _canon
    f = ctx.src(CL).func("CellList._post_process")
    k_mask = repr(_canon(ast.parse("as_mask", mode="eval").body))
    k_nomask = repr(_canon(ast.parse("not as_mask", mode="eval").body))
    bad, n_ret = [], 0
    for w in machine.ways(f.body, machine.assigned_names(f)):
        if not (w.exit or "").startswith("return "):
            continue
        expr = ast.parse(w.exit[len("return "):], mode="eval").body
        root = next((x.id for x in ast.walk(expr) if isinstance(x, ast.Name)), None)
        if k_mask not in w.conds and k_nomask not in w.conds:
            continue
        n_ret += 1
        from_mask = "_as_mask(" in w.exit or any(u.startswith(f"{root} = ") and "_as_mask(" in u for u in w.updates)
        if (k_mask in w.conds) != from_mask:
            bad.append(f"`{w.exit}` under {'as_mask' if k_mask in w.conds else 'not as_mask'}")
    ctx.need(n_ret >= 4, "the four returns of CellList._post_process (mask / indices x one / several positions)")
    ctx.ob(rule, CL, "CellList._post_process", f"{n_ret} returns: a mask where as_mask holds, indices where it does not", not bad,
           "; ".join(bad) + ": a single query position gets the other kind of result than several positions do", f.lineno)


def run(ctx):
    post_process_returns_rule(ctx, "R3.single-position-same-kind")
    s = ctx.src(CL)
    low = s.low
    fa = s.func("CellList._find_adjacent_atoms")
    cell_views = {"cells", "cell_length"}
    # ---------------- R1 guarded cell accesses --------------------------------
    n_acc = 0
    for n in walk_local(fa):
        if isinstance(n, ast.Subscript) and isinstance(n.value, ast.Name) and n.value.id in cell_views \
                and isinstance(n.slice, ast.Tuple):
            n_acc += 1
            known = facts.facts_at(fa, n)
            for axis, ix in enumerate(n.slice.elts):
                ctx.need(isinstance(ix, ast.Name), "cell index is a plain variable")
                lo = spec(f"{ix.id} >= 0") in known
                hi = any(spec(f"{ix.id} < {v}.shape[{axis}]") in known for v in sorted(cell_views))
                ctx.ob("R1.cell-access-guarded", CL, "CellList._find_adjacent_atoms",
                       f"{n.value.id}[...] axis {axis}: 0 <= {ix.id} < cells.shape[{axis}]", lo and hi,
                       f"`{ix.id}` indexes axis {axis} of `{n.value.id}` under boundscheck(False) but is not guarded by "
                       f"`{ix.id} >= 0 and {ix.id} < cells.shape[{axis}]` (wrong axis or missing bound): a query near "
                       "the border of the grid reads outside the cell array", n.lineno)
    ctx.floor("cell-accesses", n_acc, 2)
    # cells and cell_length have the same shape (one guard serves both)
    ci = s.func("CellList.__cinit__")
    t = ast.unparse(ci)
    ctx.ob("R1.same-grid-shape", CL, "CellList.__cinit__", "np.zeros(cell_count) for _cells and _cell_length",
           has_code(ci, "self._cells = np.zeros(cell_count, dtype=np.uint64)") and has_code(ci, "self._cell_length = np.zeros(cell_count, dtype=np.int32)"),
           "the pointer grid and the length grid must be allocated with the same shape", ci.lineno)
    # constructor invariant: stored atoms are inside the grid
    ctx.ob("R1.constructor-invariant", CL, "CellList.__cinit__", "grid origin = nanmin(coord), count = (max - min) / size + 1",
           "min_coord = np.nanmin(coord, axis=0)" in t and "cell_count = ((max_coord - min_coord) / cell_size + 1).astype(int)" in t
           and has_code(ci, "self._min_coord = min_coord"),
           "the grid must span minimum to maximum of the stored coordinates", ci.lineno)
    g = CFG(ci, lambda st: isinstance(st, ast.Raise))
    dom = g.dominators()
    chk = [n.id for n in g.nodes if n.ast is not None and n.kind == "stmt" and "_check_coord(" in ast.unparse(n.ast)
           and isinstance(n.ast, ast.Expr)]
    loops = [n for n in g.nodes if n.kind == "loop" and "atom_array_i" in ast.unparse(n.ast.target)]
    ctx.need(chk and loops, "coordinate check and fill loop of __cinit__")
    # one of the two check calls (if/else) dominates: use the enclosing test node
    sel_test = [n.id for n in g.nodes if n.kind == "test" and ast.unparse(n.ast.test) == "selection is None"]
    ctx.ob("R1.finite-before-fill", CL, "CellList.__cinit__", "_check_coord(...) before the cells are filled",
           bool(sel_test) and sel_test[0] in dom.get(loops[0].id, set())
           and all(any(isinstance(b, ast.Expr) and "_check_coord(" in ast.unparse(b) for b in br)
                   for br in (g.nodes[sel_test[0]].ast.body, g.nodes[sel_test[0]].ast.orelse)),
           "coordinates must be checked (finite, shape) on both selection branches before cell indices are computed",
           ci.lineno)
    cc = s.func("_check_coord")
    ctx.ob("R1.finite-before-fill", CL, "_check_coord", "np.isfinite(coord).all() -> raise",
           "if not np.isfinite(coord).all():" in ast.unparse(cc), "non-finite coordinates give an undefined cell index", cc.lineno)
    # selection length: from the statement that stores the caller's mask, every path to the fill loop passes a refusing
    # length comparison with the atom count
    stores = [n for n in g.nodes if n.kind == "stmt" and isinstance(n.ast, ast.Assign)
              and any(isinstance(t_, ast.Attribute) and t_.attr == "_selection" for t_ in n.ast.targets)]
    ctx.need(stores, "assignment of self._selection")
    sel_chk = [n for n in g.nodes if n.kind == "test" and any(isinstance(b, ast.Raise) for b in n.ast.body)
               and any(same_expr(c_, "self._selection.shape[0] != self._orig_length") or same_expr(c_, "len(self._selection) != self._orig_length")
                       for c_ in ast.walk(n.ast.test) if isinstance(c_, ast.Compare))]
    ctx.ob("R3.selection-length", CL, "CellList.__cinit__", "selection.shape[0] != orig_length -> raise before the fill loop",
           bool(sel_chk) and all(g.path(st_.id, loops[0].id, blocked={c_.id for c_ in sel_chk}) is None for st_ in stores),
           "the selection mask is read under boundscheck(False): its length must be compared with the atom count first",
           ci.lineno)
    # query points
    ctx.ob("R3.nonfinite-queries-skipped", CL, "CellList._find_adjacent_atoms", "if not finite_mask[pos_i]: continue",
           "if not finite_mask[pos_i]:\n        continue" in ast.unparse(fa).replace("            ", "    ").replace("        continue", "        continue")
           or any(isinstance(st, ast.If) and has_code(st.test, "finite_mask[pos_i]") and any(isinstance(b, ast.Continue) for b in st.body)
                  for st in ast.walk(fa)),
           "a NaN query point has an undefined cell index and must be skipped", fa.lineno)

    # ---------------- R2 allocation size ---------------------------------------
    ga = s.func("CellList._get_atoms_in_cells")
    decl = low.decls.get("CellList._get_atoms_in_cells", {})
    full = [c for c in calls(ga) if call_name(c) == "np.full"]
    ctx.need(full, "result buffer allocation in _get_atoms_in_cells")
    dim = full[0].args[0].elts[1]
    ctx.need(isinstance(dim, ast.Name), "second dimension of the buffer is a variable")
    defn = [st.value for st in stmts(ga) if isinstance(st, ast.Assign) and isinstance(st.targets[0], ast.Name) and st.targets[0].id == dim.id]
    ctx.need(defn, "definition of the buffer size")
    ctype = decl.get(dim.id, "")
    has_pow = any(isinstance(x, ast.BinOp) and isinstance(x.op, (ast.Pow, ast.Mult)) for x in ast.walk(defn[0]))
    caller = "max_cell_radius" in names_in(defn[0])
    ctx.ob("R2.allocation-size-width", CL, "CellList._get_atoms_in_cells", f"{ctype} {dim.id} = {ast.unparse(defn[0])}",
           not (ctype in NARROW_INT and has_pow and caller),
           f"the buffer size `{ast.unparse(defn[0])}` is a power/product of the caller's radius computed in a C `{ctype}`: "
           "radius 700 with cell size 1 overflows to a negative length ('negative dimensions'), other radii wrap to an "
           "arbitrary length that no longer bounds the unchecked writes of _find_adjacent_atoms", defn[0].lineno)
    # the size covers the cells visited: (2r+1)^3 cells times the longest cell, r = the maximum radius
    txt = ast.unparse(defn[0])
    ctx.ob("R2.allocation-covers-visits", CL, "CellList._get_atoms_in_cells", txt,
           txt == "(2 * max_cell_radius + 1) ** 3 * self._max_cell_length"
           and has_code(ga, "max_cell_radius = np.max(cell_radii)"),
           "the buffer must hold (2r+1)^3 cells of the maximal cell length for the largest radius", defn[0].lineno)
    ctx.ob("R2.max-cell-length-maintained", CL, "CellList.__cinit__", "if length > self._max_cell_length: update",
           "if length > self._max_cell_length:" in t and has_code(ci, "self._max_cell_length = length"),
           "the maximal cell length bounds the unchecked writes and must follow every insertion", ci.lineno)
    # loop bounds of the visit use the per-query radius, which is <= the maximum
    # on each axis the loop runs over [c - r, c + r], possibly clipped to the grid [0, shape) by max/min in the range itself
    def _parts(e, fname):
        if isinstance(e, ast.Call) and isinstance(e.func, ast.Name) and e.func.id == fname and not e.keywords and len(e.args) >= 2:
            return [p_ for a in e.args for p_ in _parts(a, fname)]
        return [e]
    axes_ok = []
    for d, (c_, v_) in enumerate((("i", "adj_i"), ("j", "adj_j"), ("k", "adj_k"))):
        lps = [lp for lp in walk_local(fa) if isinstance(lp, ast.For) and isinstance(lp.target, ast.Name) and lp.target.id == v_
               and isinstance(lp.iter, ast.Call) and call_name(lp.iter) == "range" and len(lp.iter.args) == 2]
        ok_d = False
        if len(lps) == 1:
            lo, hi = (_parts(lps[0].iter.args[0], "max"), _parts(lps[0].iter.args[1], "min"))
            ok_d = any(same_expr(x, f"{c_} - cell_r") for x in lo) and all(same_expr(x, f"{c_} - cell_r") or same_expr(x, "0") for x in lo) \
                and any(same_expr(x, f"{c_} + cell_r + 1") for x in hi) \
                and all(same_expr(x, f"{c_} + cell_r + 1") or any(same_expr(x, f"{cv}.shape[{d}]") for cv in sorted(cell_views)) for x in hi)
        axes_ok.append(ok_d)
    cr = [st for st in walk_local(fa) if isinstance(st, ast.Assign) and same_expr(st.targets[0], "cell_r")]
    ctx.ob("R2.visit-range", CL, "CellList._find_adjacent_atoms", "range(c - cell_r, c + cell_r + 1) on all three axes (clipping to the grid allowed)",
           all(axes_ok) and len(cr) == 1 and same_expr(cr[0].value, "cell_radius[pos_i]"),
           "the visited cube must be symmetric around the query cell with the query's own radius", fa.lineno)

    # ---------------- R3 post processing ------------------------------------------
    pp = s.func("CellList._post_process")
    g2 = CFG(pp, lambda st: isinstance(st, ast.Raise))
    mod = [n for n in g2.nodes if n.ast is not None and n.kind == "stmt" and "%= self._orig_length" in ast.unparse(n.ast)]
    msk = [n for n in g2.nodes if n.ast is not None and n.kind == "stmt" and "self._as_mask(" in ast.unparse(n.ast)]
    per = [n for n in g2.nodes if n.kind == "test" and ast.unparse(n.ast.test) == "self._periodic"]
    ok = bool(mod and msk and per)
    if ok:
        # with periodicity, every path to the mask passes the modulo
        t_succ = [b for b in g2.succ[per[0].id] if g2.ekind[(per[0].id, b)] == "t"]
        ok = all(g2.path(b, msk[0].id, blocked={mod[0].id}) is None or b == mod[0].id for b in t_succ)
    ctx.ob("R3.periodic-modulo-before-mask", CL, "CellList._post_process", "indices %= orig_length before _as_mask", ok,
           "image atoms have indices >= the atom count; they must be folded back before the mask of width atom count "
           "is written under boundscheck(False)", pp.lineno)
    # ... and the index arrays that are handed out hold atom indices as well: with periodicity NO result leaves _post_process without
    # having passed the periodicity test (and, on its true side, the modulo)
    ok_all = bool(mod and per)
    if ok_all:
        ok_all = g2.path(g2.entry.id, g2.exit.id, blocked={per[0].id}) is None \
            and all(g2.path(b, g2.exit.id, blocked={mod[0].id}) is None or b == mod[0].id
                    for b in g2.succ[per[0].id] if g2.ekind[(per[0].id, b)] == "t")
    # which entries are folded back: every index that is one (all but the -1 padding), by the number of original atoms - a selection
    # by magnitude (`> n`, `>= n`) can be right, but then it has to include n itself
    mod_stmt = mod[0].ast if mod else None
    sel_ok = False
    if isinstance(mod_stmt, ast.AugAssign) and isinstance(mod_stmt.op, ast.Mod) and same_expr(mod_stmt.value, "self._orig_length") \
            and isinstance(mod_stmt.target, ast.Subscript) and same_expr(mod_stmt.target.value, "indices"):
        sel_ok = any(same_expr(mod_stmt.target.slice, t_) for t_ in ("indices != -1", "indices >= self._orig_length", "indices >= 0", "indices > -1"))
    ctx.ob("R3.periodic-modulo-selection", CL, "CellList._post_process", "indices[indices != -1] %= self._orig_length", sel_ok,
           "atom i has the images i + k * n: the image with index exactly n (the first copy of atom 0) must be folded back as well, only the "
           "padding -1 is left alone", pp.lineno)
    ctx.ob("R3.periodic-modulo-every-result", CL, "CellList._post_process", "every result passes `if self._periodic: indices %= orig_length`", ok_all,
           "a periodic cell list holds 27 images of every atom: index arrays that are returned without the modulo name image atoms "
           "(indices >= the atom count), while the mask form of the same query is right", pp.lineno)
    am = s.func("CellList._as_mask")
    ctx.ob("R3.mask-width", CL, "CellList._as_mask", "np.zeros((indices.shape[0], self._orig_length))",
           has_code(am, "np.zeros((indices.shape[0], self._orig_length), dtype=np.uint8)")
           and "if index == -1:" in ast.unparse(am),
           "the mask has one column per original atom and stops at the -1 padding", am.lineno)
    pv = s.func("_prepare_vectorization")
    # what is known to hold at each refusal (its own test and the enclosing ones)
    refusals = [facts.facts_at(pv, r) | {c_ for st in ast.walk(pv) if isinstance(st, ast.If) and any(b is r for b in st.body)
                                         for c_ in facts.facts_at(pv, st.body[0])}
                for r in ast.walk(pv) if isinstance(r, ast.Raise)]
    need = ["radius.shape[0] != coord.shape[0]", "(radius < 0).any()", "radius < 0"]
    miss = [n_ for n_ in need if not any(spec(n_) in k for k in refusals)]
    ctx.ob("R3.radius-shape", CL, "_prepare_vectorization", "radius.shape[0] != coord.shape[0] -> raise; negative -> raise", not miss,
           "per-query radii must match the number of queries and be non-negative" + (f" (no refusal under `{miss[0]}`)" if miss else ""), pv.lineno)

    query_rules(ctx, s)


def query_rules(ctx, s):
    """R4: the query itself - which atoms are returned (beyond memory safety)"""
    from ..exprnorm import check_spec, summarize
    fa = s.func("CellList._find_adjacent_atoms")
    ga = s.func("CellList.get_atoms")
    # ---- the distance filter keeps an atom iff its squared distance does not exceed the squared radius
    keep = [st for st in walk_local(ga) if isinstance(st, ast.Assign) and isinstance(st.targets[0], ast.Subscript)
            and same_expr(st.targets[0].value, "indices") and same_expr(st.value, "coord_index")]
    ctx.need(len(keep) == 1, "store of a kept atom index in get_atoms")
    known = facts.facts_at(ga, keep[0])
    defs = {}
    for st in walk_local(ga):
        if isinstance(st, ast.Assign) and len(st.targets) == 1 and isinstance(st.targets[0], ast.Name):
            defs.setdefault(st.targets[0].id, []).append(st.value)
    one = lambda n_: defs[n_][0] if len(defs.get(n_, [])) == 1 else None
    geometry = same_expr(one("sq_dist"), "squared_distance(x1, y1, z1, x2, y2, z2)") \
        and all(same_expr(one(f"{ax}1"), f"coord_v[i, {k}]") and same_expr(one(f"{ax}2"), f"self._coord[coord_index, {k}]") for k, ax in enumerate("xyz")) \
        and same_expr(one("sq_radius"), "sq_radii[i]") and same_expr(one("coord_index"), "all_indices[i, j]") and same_expr(one("coord_v"), "coord")
    ctx.ob("R4.distance-filter", CL, "CellList.get_atoms", "kept iff squared_distance(query i, atom) <= sq_radii[i]",
           spec("sq_dist <= sq_radius") in known and spec("coord_index != -1") in known and geometry,
           "an atom is returned exactly when its distance to the query point does not exceed the radius (<=, measured between query i "
           "and the stored coordinates of the candidate)", keep[0].lineno)
    from ..exprnorm import local_value
    sqv = local_value(ga, "sq_radii")
    _pv = lambda k: f"__item__(_prepare_vectorization(move_inside_box(coord, self._box) if self._periodic else coord, radius, np.float32), {k})"
    # the cell radius that covers a distance: the distance in units of the cell size, rounded UP (array form and scalar form alike)
    crv = local_value(ga, "cell_radii")
    ctx.ob("R4.cell-radius-covers-distance", CL, "CellList.get_atoms", "cell_radii = ceil(radius / cellsize)",
           crv is not None and any(same_expr(crv, f"np.ceil({_pv(1)} / self._cellsize).astype(np.int32) if {_pv(3)} else "
                                                  f"np.full(len({n_}), int(np.ceil({_pv(1)}[0] / self._cellsize)), dtype=np.int32)")
                                   for n_ in (_pv(0), _pv(1))),
           "the number of cells to visit around a query is the radius divided by the cell size, rounded up: rounding the radius first (or "
           "down) leaves cells unvisited that hold atoms within the radius", ga.lineno)
    ctx.ob("R4.distance-filter", CL, "CellList.get_atoms", "sq_radii = radius * radius (per query, or the one radius for all)",
           # local_value composes the value from the function's inputs: coord / radius / is_multi_radius are items 0 / 1 / 3 of
           # _prepare_vectorization(<wrapped query>, radius, np.float32) (its contract: len(radius) == len(coord))
           sqv is not None and any(same_expr(sqv, f"{_pv(1)} * {_pv(1)} if {_pv(3)} else np.full(len({n_}), {_pv(1)}[0] * {_pv(1)}[0], dtype=np.float32)")
                                   for n_ in (_pv(0), _pv(1))),
           "the threshold compared with the squared distance is the square of the query's radius", ga.lineno)
    # ---- periodic lists: each public query wraps ITS coordinates into the box first, so that the cell search and the distance
    # measurement see the same point
    from ..exprnorm import local_value as _lv
    for q, rdt in (("CellList.get_atoms", "np.float32"), ("CellList.get_atoms_in_cells", "np.int32")):
        f = s.func(q)
        cpar, rpar = param_names(f)[1], param_names(f)[2]
        cv = _lv(f, cpar)
        # the coordinates everything below works with: the vectorised form of the WRAPPED query (if periodic), whichever way it is written
        ok_w = cv is not None and same_expr(cv, f"__item__(_prepare_vectorization(move_inside_box({cpar}, self._box) if self._periodic else {cpar}, {rpar}, {rdt}), 0)")
        ctx.ob("R4.periodic-query-wrapped", CL, q, f"{cpar} = _prepare_vectorization(move_inside_box({cpar}, self._box) if self._periodic else {cpar}, ..)[0]", ok_w,
               "with periodicity the query point is moved into the box in the public method itself, before it is vectorised: the cell search "
               "and the distance filter must work on the same (wrapped) coordinates; the code computes " + (ast.unparse(cv)[:150] if cv is not None else "nothing"), f.lineno)
    # ---- candidate buffer: sized by the largest radius of the call, never capped
    gc = s.func("CellList._get_atoms_in_cells")
    check_spec(ctx, "R4.candidate-buffer", CL, "CellList._get_atoms_in_cells",
               "(2 * (np.max(cell_radii) if is_multi_radius else cell_radii[0]) + 1) ** 3 * self._max_cell_length",
               "the candidate buffer holds (2 r + 1)^3 cells of at most _max_cell_length atoms with r the LARGEST radius of the call "
               "(per-query radii: the maximum; one radius: that radius); _find_adjacent_atoms writes into it unchecked", var="length")
    # ---- every finite query position is searched
    pos_loops = [lp for lp in walk_local(fa) if isinstance(lp, ast.For) and same_expr(lp.iter, "range(coord.shape[0])")]
    ctx.need(len(pos_loops) == 1, "position loop of _find_adjacent_atoms")
    pl = pos_loops[0]
    inner = {id(x) for lp in ast.walk(pl) if isinstance(lp, (ast.For, ast.While)) and lp is not pl for x in ast.walk(lp)}
    skips = [st for st in ast.walk(pl) if isinstance(st, ast.If) and id(st) not in inner
             and any(isinstance(b, (ast.Continue, ast.Break, ast.Return)) for b in ast.walk(st) if id(b) not in inner)]
    ctx.ob("R4.every-position-searched", CL, "CellList._find_adjacent_atoms", f"{len(skips)} early way(s) out of the position loop",
           len(skips) == 1 and same_expr(skips[0].test, f"not finite_mask[{pl.target.id}]"),
           "only non-finite query points are skipped: a point outside the grid (or outside the bounding box of the atoms) still has "
           "neighbours within its radius", pl.lineno)


MUTANTS = [
    Mutant("distance-filter-strict", CL, "                    if sq_dist <= sq_radius:\n", "                    if sq_dist < sq_radius:\n", "R4.distance-filter"),
    Mutant("distance-to-first-query", CL, "            x1 = coord_v[i,0]\n", "            x1 = coord_v[0,0]\n", "R4.distance-filter"),
    Mutant("buffer-radius-branches-swapped", CL, "        if is_multi_radius:\n            max_cell_radius = np.max(cell_radii)\n        else:\n            # All radii are equal\n            max_cell_radius = cell_radii[0]\n",
           "        if is_multi_radius:\n            max_cell_radius = cell_radii[0]\n        else:\n            max_cell_radius = np.max(cell_radii)\n", "R4.candidate-buffer"),
    Mutant("buffer-capped-at-atom-count", CL, "        array_indices = np.full((len(coord), length), -1, dtype=np.int32)\n",
           "        if length > self._orig_length:\n            length = self._orig_length\n        array_indices = np.full((len(coord), length), -1, dtype=np.int32)\n", "R4.candidate-buffer"),
    Mutant("outside-grid-skipped", CL, "            z = coord[pos_i, 2]\n            self._get_cell_index(x, y, z, &i, &j, &k)\n",
           "            z = coord[pos_i, 2]\n            self._get_cell_index(x, y, z, &i, &j, &k)\n            if i < 0 or i >= cells.shape[0]:\n                continue\n", "R4.every-position-searched"),
    Mutant("get-atoms-wrap-dropped", CL, "        # Handle periodicity for the input coordinates\n        if self._periodic:\n            coord = move_inside_box(coord, self._box)\n        # Convert input parameters into a uniform format\n        coord, radius,",
           "        # Convert input parameters into a uniform format\n        coord, radius,", "R4.periodic-query-wrapped", "CellList.get_atoms"),
    Mutant("wrong-axis", CL, "if (adj_j >= 0 and adj_j < cells.shape[1]):", "if (adj_j >= 0 and adj_j < cells.shape[0]):", "R1.cell-access-guarded"),
    Mutant("lower-bound-dropped", CL, "if (adj_k >= 0 and adj_k < cells.shape[2]):", "if (adj_k < cells.shape[2]):", "R1.cell-access-guarded"),
    Mutant("modulo-after-mask", CL, "            indices[indices != -1] %= self._orig_length\n", "            pass\n", "R3.periodic-modulo-before-mask"),
    Mutant("repair-length-type", CL, "        cdef int length = (2*max_cell_radius + 1)**3 * self._max_cell_length", "        cdef int64 length = (2*max_cell_radius + 1)**3 * self._max_cell_length",
           "R2.allocation-size-width", kind="repair"),
    Mutant("selection-check-removed", CL, "            if self._selection.shape[0] != self._orig_length:", "            if False:", "R3.selection-length"),
    # ---- one seeded fault per remaining rule ----
    Mutant("cell-count-no-plus-one", CL, "        cell_count = (((max_coord - min_coord) / cell_size) +1).astype(int)",
           "        cell_count = ((max_coord - min_coord) / cell_size).astype(int)", "R1.constructor-invariant"),
    Mutant("grid-origin-without-images", CL, "        min_coord = np.nanmin(coord, axis=0).astype(np.float32)",
           "        min_coord = np.nanmin(coord[:self._orig_length], axis=0).astype(np.float32)", "R1.constructor-invariant"),
    Mutant("selected-coord-unchecked", CL, "        else:\n            _check_coord(coord[selection])\n", "        else:\n            pass\n",
           "R1.finite-before-fill", "CellList.__cinit__"),
    Mutant("check-coord-finite-dropped", CL,
           "    if not np.isfinite(coord).all():\n        raise ValueError(\"Coordinates contain non-finite values\")\n", "",
           "R1.finite-before-fill", "_check_coord"),
    Mutant("length-grid-smaller", CL, "        self._cell_length = np.zeros(cell_count, dtype=np.int32)",
           "        self._cell_length = np.zeros(cell_count - 1, dtype=np.int32)", "R1.same-grid-shape"),
    Mutant("buffer-cube-off-by-one", CL, "        cdef int length = (2*max_cell_radius + 1)**3 * self._max_cell_length",
           "        cdef int length = (2*max_cell_radius)**3 * self._max_cell_length", "R2.allocation-covers-visits"),
    Mutant("buffer-min-radius", CL, "            max_cell_radius = np.max(cell_radii)", "            max_cell_radius = np.min(cell_radii)",
           "R2.allocation-covers-visits"),
    Mutant("max-cell-length-not-updated", CL,
           "                    if length > self._max_cell_length:\n                        self._max_cell_length = length\n", "",
           "R2.max-cell-length-maintained"),
    Mutant("visit-range-one-more", CL, "            for adj_i in range(i-cell_r, i+cell_r+1):", "            for adj_i in range(i-cell_r, i+cell_r+2):",
           "R2.visit-range"),
    Mutant("visit-radius-doubled", CL, "            cell_r = cell_radius[pos_i]\n", "            cell_r = 2 * cell_radius[pos_i]\n", "R2.visit-range"),
    Mutant("mask-padding-not-skipped", CL,
           "                if index == -1:\n                    # End of list -> jump to next position\n                    break\n", "",
           "R3.mask-width"),
    Mutant("mask-width-from-indices", CL, "            (indices.shape[0], self._orig_length), dtype=np.uint8",
           "            (indices.shape[0], indices.shape[1]), dtype=np.uint8", "R3.mask-width"),
    Mutant("nan-query-not-skipped", CL,
           "            if not finite_mask[pos_i]:\n                # For non-finite coordinates, there are no adjacent atoms\n                continue\n", "",
           "R3.nonfinite-queries-skipped"),
    Mutant("radii-count-unchecked", CL,
           "        if radius.shape[0] != coord.shape[0]:\n            raise ValueError(\n                f\"Amount of radii ({radius.shape[0]}) \"\n"
           "                f\"and coordinates ({coord.shape[0]}) are not equal\"\n            )\n", "",
           "R3.radius-shape"),
    Mutant("negative-radius-accepted", CL,
           "        if radius < 0:\n            raise ValueError(\"Radius must be a positive value\")\n", "", "R3.radius-shape"),
]
