"""
C01 - atom arrays and stacks stay coherent.

Decided: structural coherence - every operation that creates or resizes a
container touches all coupled state on the right axis -, copy independence
and the negative-integer clause of two-dimensional stack indices.

R1  coupled fields.  Atom axis: coord[-2], every annotation[0], bonds,
    array length.  Model axis: coord[0], box[0].
    R1.constructor  a function that creates a new container populates coord,
                    annotations, bonds and box of it.
    R1.model-axis   an index applied to the model axis of coord is applied to
                    the box as well (same index expression).
    R1.atom-axis    an index applied to the atom axis of coord is applied to
                    the annotations and the bond list.
    R1.axis         np.delete/concatenate/stack on coord use axis -2 (atoms) or
                    0 (models), on annotations and boxes axis 0.
    R1.reshape      a reshape that merges two axes merges *adjacent* axes in
                    order (else a transpose has to precede it).
R2  copy contract of Atom, AtomArray, AtomArrayStack, BondList.
R3  slice(i, i + 1) built from a caller's integer handles i = -1.
"""

import ast
import re

from .. import copycontract
from ..astutil import call_name, calls, dotted, names_in, param_names, stmts, walk_local
from ..core import AnalysisError, Mutant
from ..exprnorm import same_expr
from ..program import ClassIndex
from ..exprnorm import has_code

EXPLANATION = (
    "Coupled-state analysis of structure/atoms.py: which function writes which of coord/"
    "annotations/bonds/box on which axis with which index expression; Copyable contract over "
    "the resolved hierarchy (atoms.py, bonds.pyx lowered); symbolic shape check of reshapes "
    "against the documented shapes."
)
ASSUMPTIONS = [
    "numpy-like view sharing of slices/get_array is by design and not a violation",
    "documented shapes (docstring 'shape=(k,m,n,3)') are the intended ones",
]
MIN_OBLIGATIONS = 60

ATOMS = "structure/atoms.py"
BONDS = "structure/bonds.pyx"
COPYABLE = "copyable.py"

CONTAINER_CTORS = {"AtomArray", "AtomArrayStack"}
# functions that create a container but legitimately leave a field unset
CTOR_EXEMPT = {
    ("array", "bonds"): "built from Atom objects, which carry no bonds",
    ("array", "box"): "built from Atom objects, which carry no box",
    ("AtomArray.__copy_create__", "*"): "filled by __copy_fill__",
    ("AtomArrayStack.__copy_create__", "*"): "filled by __copy_fill__",
    ("_AtomArrayBase._subarray", "box"): None,  # not exempt: must carry the box (value None = check)
}
IMMUTABLE = {
    ("BondList", "_max_bonds_per_atom"): "an integer",
    ("BondList", "_atom_count"): "an integer",
}


def field_of_attr(name):
    return {"_coord": "coord", "coord": "coord", "_box": "box", "box": "box",
            "_bonds": "bonds", "bonds": "bonds", "_annot": "annot"}.get(name)


def container_writes(func, var):
    """which coupled fields of object `var` does `func` write (directly or through helpers)"""
    out = {}
    for st in stmts(func):
        targets = []
        if isinstance(st, ast.Assign):
            targets = st.targets
        elif isinstance(st, ast.AugAssign):
            targets = [st.target]
        for t in targets:
            root = t
            while isinstance(root, ast.Subscript):
                root = root.value
            if isinstance(root, ast.Attribute) and isinstance(root.value, ast.Name) and root.value.id == var:
                f = field_of_attr(root.attr)
                if f:
                    out.setdefault(f, []).append(st)
        if isinstance(st, ast.Expr) and isinstance(st.value, ast.Call):
            c = st.value
            cn = call_name(c) or ""
            if cn in (f"{var}.set_annotation", f"{var}.add_annotation", f"{var}._annot.update", f"{var}._annot.setdefault", f"{var}._annot.__setitem__"):
                out.setdefault("annot", []).append(st)
            if cn.endswith("._copy_annotations") and c.args and dotted(c.args[0]) == var:
                for f in ("annot", "box", "bonds"):
                    out.setdefault(f, []).append(st)
    return out


def index_text(e):
    return ast.unparse(e)


def axis_accesses(func):
    """[(field, axis, index_text, node)] for indexed/deleted coupled fields"""
    out = []
    # names that stand for one annotation array: `for name, arr in X._annot.items()`, `for arr in X._annot.values()`,
    # comprehension generators of the same form, `arr = X._annot[name]`
    annot_vars = set()

    def _bind_iter(target, it):
        if isinstance(it, ast.Call) and isinstance(it.func, ast.Attribute) and isinstance(it.func.value, ast.Attribute) \
                and it.func.value.attr == "_annot":
            if it.func.attr == "items" and isinstance(target, ast.Tuple) and len(target.elts) == 2 and isinstance(target.elts[1], ast.Name):
                annot_vars.add(target.elts[1].id)
            elif it.func.attr == "values" and isinstance(target, ast.Name):
                annot_vars.add(target.id)

    for n in walk_local(func):
        if isinstance(n, ast.For):
            _bind_iter(n.target, n.iter)
        elif isinstance(n, ast.comprehension):
            _bind_iter(n.target, n.iter)
        elif isinstance(n, ast.Assign) and len(n.targets) == 1 and isinstance(n.targets[0], ast.Name) \
                and isinstance(n.value, ast.Subscript) and isinstance(n.value.value, ast.Attribute) and n.value.value.attr == "_annot":
            annot_vars.add(n.targets[0].id)
    for n in walk_local(func):
        if isinstance(n, ast.Subscript) and isinstance(n.value, ast.Name) and n.value.id in annot_vars:
            out.append(("annot", 0, index_text(n.slice), n, "index"))
        if isinstance(n, ast.Call) and isinstance(n.func, ast.Attribute) and n.func.attr == "__getitem__" \
                and isinstance(n.func.value, ast.Name) and n.func.value.id in annot_vars and n.args:
            out.append(("annot", 0, index_text(n.args[0]), n, "index"))
        if isinstance(n, ast.Call) and (call_name(n) or "").endswith("delete") and len(n.args) >= 2 \
                and isinstance(n.args[0], ast.Name) and n.args[0].id in annot_vars:
            axis = None
            for k in n.keywords:
                if k.arg == "axis":
                    try:
                        axis = ast.literal_eval(k.value)
                    except Exception:
                        axis = "?"
            out.append(("annot", axis, index_text(n.args[1]), n, "delete"))
    for n in walk_local(func):
        # np.delete(X.F, I, axis=A)
        if isinstance(n, ast.Call) and (call_name(n) or "").endswith("delete") and len(n.args) >= 2:
            tgt = n.args[0]
            axis = None
            for k in n.keywords:
                if k.arg == "axis":
                    try:
                        axis = ast.literal_eval(k.value)
                    except Exception:
                        axis = "?"
            if len(n.args) > 2:
                try:
                    axis = ast.literal_eval(n.args[2])
                except Exception:
                    axis = "?"
            root = tgt
            while isinstance(root, ast.Subscript):
                root = root.value
            if isinstance(root, ast.Attribute):
                f = field_of_attr(root.attr)
                if f:
                    out.append((f, axis, index_text(n.args[1]), n, "delete"))
        # X.F[...]   (Load or Store)
        if isinstance(n, ast.Subscript) and isinstance(n.value, ast.Attribute):
            f = field_of_attr(n.value.attr)
            if f in ("coord", "box", "bonds"):
                sl = n.slice
                if isinstance(sl, ast.Tuple):
                    elts = sl.elts
                    if (len(elts) == 3 and isinstance(elts[0], ast.Constant) and elts[0].value is Ellipsis
                            and isinstance(elts[2], ast.Slice)):
                        out.append((f, -2, index_text(elts[1]), n, "index"))
                    else:
                        out.append((f, "tuple", index_text(sl), n, "index"))
                else:
                    out.append((f, 0, index_text(sl), n, "index"))
        # annotations:  X._annot[name][I]  /  X._annot[name].__getitem__(I)
        if isinstance(n, ast.Subscript) and isinstance(n.value, ast.Subscript) \
                and isinstance(n.value.value, ast.Attribute) and n.value.value.attr == "_annot":
            out.append(("annot", 0, index_text(n.slice), n, "index"))
        if isinstance(n, ast.Call) and isinstance(n.func, ast.Attribute) and n.func.attr == "__getitem__" \
                and isinstance(n.func.value, ast.Subscript) and isinstance(n.func.value.value, ast.Attribute) \
                and n.func.value.value.attr == "_annot" and n.args:
            out.append(("annot", 0, index_text(n.args[0]), n, "index"))
    return out


def derived_from(func, var, src):
    """is local `var` computed from `src` (e.g. mask[index] = False)"""
    for st in stmts(func):
        if isinstance(st, ast.Assign):
            for t in st.targets:
                root = t
                while isinstance(root, ast.Subscript):
                    root = root.value
                if isinstance(root, ast.Name) and root.id == var:
                    # the index itself (not an expression of it) selects the entry:  var[src] = ...  /  var = f(..., src, ...)
                    direct = isinstance(t, ast.Subscript) and isinstance(t.slice, ast.Name) and t.slice.id == src
                    as_arg = isinstance(st.value, ast.Call) and any(isinstance(a, ast.Name) and a.id == src for a in st.value.args)
                    if direct or as_arg:
                        return True
    return False


# ---------------------------------------------------------------------------
# symbolic shapes


def doc_shapes(func, pname):
    """shapes documented for parameter `pname`: list of lists of symbols"""
    doc = ast.get_docstring(func) or ""
    m = re.search(rf"^\s*{re.escape(pname)}\s*:\s*(.+)$", doc, re.M)
    if not m:
        return []
    return [[x.strip() for x in s.split(",") if x.strip()] for s in re.findall(r"shape=\(([^)]*)\)", m.group(1))]


def sym_dims(e, env):
    """a dimension expression -> sorted tuple of symbols (product)"""
    if isinstance(e, ast.Constant):
        return (str(e.value),)
    if isinstance(e, ast.Name):
        if e.id in env:
            return env[e.id]
        raise KeyError(e.id)
    if isinstance(e, ast.Call):
        cn = call_name(e) or ""
        if cn.endswith(".stack_depth"):
            return ("m",)
        if cn.endswith(".array_length"):
            return ("n",)
        if cn == "len" and e.args and isinstance(e.args[0], ast.Name):
            return ("k",)
    if isinstance(e, ast.BinOp) and isinstance(e.op, ast.Mult):
        return tuple(sorted(sym_dims(e.left, env) + sym_dims(e.right, env)))
    raise KeyError(ast.unparse(e))


def reshape_consistent(src, tgt):
    """src: list of symbols; tgt: list of symbol tuples (products).  Row-major
    reshape regroups *consecutive* source axes."""
    i = 0
    for t in tgt:
        need = sorted(t)
        got = []
        while i < len(src) and len(got) < len(need):
            got.append(src[i])
            i += 1
        if sorted(got) != need:
            return False
    return i == len(src)


_SET_ANNOTATION_REFERENCE = """
def set_annotation(self, category, array):
    array = np.asarray(array)
    if len(array) != self._array_length:
        raise IndexError('x')
    if category in self._annot:
        self._annot[category] = array.astype(dtype=np.promote_types(self._annot[category].dtype, array.dtype), copy=False)
    else:
        self._annot[category] = array
"""


def annotation_value_rules(ctx, R="R1"):
    """what an annotation holds after it is assigned / built from atoms (shared with C17: residue and chain boundaries are read off
    these arrays): an assigned array is brought to the type that holds both the old and the new values (an unsigned res_id would
    make `np.diff(res_id) < 0` wrap around); text annotations built from atoms are as wide as the LONGEST value"""
    from ..equiv import same_function
    s = ctx.src(ATOMS)
    sa_ = s.func("_AtomArrayBase.set_annotation")
    ok, shown = same_function(sa_, _SET_ANNOTATION_REFERENCE)
    ctx.ob(R + ".assigned-annotation-promoted", ATOMS, "_AtomArrayBase.set_annotation", "existing category: astype(promote_types(old dtype, new dtype))", ok,
           "an array assigned to an existing annotation is converted to the common type of the old and the new values, a new "
           "category takes the array as it is; the code computes " + shown, sa_.lineno)
    ar = s.func("array")
    from ..exprnorm import has_code as _hc
    widths = [n_ for n_ in ast.walk(ar) if isinstance(n_, ast.Call) and isinstance(n_.func, ast.Name) and n_.func.id == "max"]
    ok_w = bool(widths) and all(
        (len(c.args) == 1 and isinstance(c.args[0], (ast.GeneratorExp, ast.ListComp)) and isinstance(c.args[0].elt, ast.Call)
         and isinstance(c.args[0].elt.func, ast.Name) and c.args[0].elt.func.id == "len")
        or any(k.arg == "key" and isinstance(k.value, ast.Name) and k.value.id == "len" for k in c.keywords)
        for c in widths)
    # ... and EVERY category of the atoms is (re)declared with that type: add_annotation is called for each name of the loop over the
    # categories, under no condition (skipping the mandatory ones keeps their default width U4 / U5 / int)
    adds = []
    for lp in ast.walk(ar):
        if isinstance(lp, ast.For) and isinstance(lp.target, ast.Name):
            for st_ in lp.body:         # statements of the loop body itself: they run in every iteration
                if isinstance(st_, ast.Expr) and isinstance(st_.value, ast.Call) and call_name(st_.value) == "array.add_annotation":
                    adds.append((lp, st_.value))
    nested_adds = [c for c in ast.walk(ar) if isinstance(c, ast.Call) and call_name(c) == "array.add_annotation"]
    ok_a = bool(adds) and len(nested_adds) == len(adds) and all(c.args and isinstance(c.args[0], ast.Name) and c.args[0].id == lp.target.id for lp, c in adds) \
        and not any(isinstance(x, (ast.Continue, ast.Break)) for lp, _ in adds for x in ast.walk(lp))
    ctx.ob(R + ".every-category-declared", ATOMS, "array", "array.add_annotation(name, dtype) for every name, unconditionally", ok_a,
           "an array built from atoms declares every annotation category with the type found in the atoms (the mandatory ones too: "
           "their default width would cut longer values)", ar.lineno)
    ctx.ob(R + ".text-annotation-width", ATOMS, "array", "width = max(len(str(value)) for every atom)", ok_w,
           "the width of a text annotation built from atoms is the maximum of the LENGTHS (max over the strings themselves is the "
           "alphabetically last one: longer names are cut)", ar.lineno)


def length_rules(ctx, R="R1"):
    """the cached atom count and the atom count of the bond list agree with the arrays (shared with C17: every residue / chain /
    molecule view is laid over array_length() atoms and bonds.get_atom_count() atoms)"""
    from ..facts import disjuncts
    from ..exprnorm import canon, spec
    s = ctx.src(ATOMS)
    # in-place resize keeps the cached length
    de = s.func("_AtomArrayBase._del_element")
    # ... with the new atom count: the atom axis of the resized coordinates, set after the resize (a decrement before the
    # np.delete calls is left behind when the deletion is refused)
    al = [st for st in stmts(de) if isinstance(st, (ast.Assign, ast.AugAssign)) and any(
        dotted(t) == "self._array_length" for t in (st.targets if isinstance(st, ast.Assign) else [st.target]))]
    resize = [st for st in stmts(de) if isinstance(st, ast.Assign) and any(dotted(t) == "self._coord" for t in st.targets)]
    ok_len = bool(al) and bool(resize) and all(
        isinstance(st, ast.Assign) and st.lineno > resize[0].lineno and (same_expr(st.value, "self._coord.shape[-2]") or same_expr(st.value, "self._array_length - 1"))
        for st in al)
    ctx.ob(f"{R}.array-length", ATOMS, "_AtomArrayBase._del_element", "self._array_length = self._coord.shape[-2] (after the resize)", ok_len,
           "atom deletion must set the cached array length to the new atom count, after the arrays were resized (np.delete refuses an index "
           "out of range: a length changed before that stays wrong)", de.lineno)
    # a bond list is accepted only if it describes exactly array_length() atoms
    sa = s.func("_AtomArrayBase.__setattr__")
    stores = [c for c in ast.walk(sa) if isinstance(c, ast.Call) and (call_name(c) or "").endswith("__setattr__") and c.args
              and isinstance(c.args[0], ast.Constant) and c.args[0].value == "_bonds" and len(c.args) == 2 and not (isinstance(c.args[1], ast.Constant))]
    ctx.need(len(stores) == 1, "store of a bond list in _AtomArrayBase.__setattr__")
    val = ast.unparse(stores[0].args[1])
    refusals = [canon(d) for st in ast.walk(sa) if isinstance(st, ast.If) and st.body and isinstance(st.body[-1], ast.Raise) for d in disjuncts(st.test)]
    ctx.ob(f"{R}.bonds-length-checked", ATOMS, "_AtomArrayBase.__setattr__", f"{val}.get_atom_count() != self._array_length -> ValueError",
           spec(f"{val}.get_atom_count() != self._array_length") in refusals,
           "a bond list with another atom count than the array (larger OR smaller) must be refused: masks and molecule tables built from "
           "it have the bond list's width", sa.lineno)


def subarray_keeps_bonds_rule(ctx, rule):
    """a sub-array has a bond list exactly when the array has one - also an empty one (a structure whose bonds were looked for and
    not found is not a structure without bond information)"""
    f = ctx.src(ATOMS).func("_AtomArrayBase._subarray")
    ifs = [st for st in ast.walk(f) if isinstance(st, ast.If) and any(isinstance(b, ast.Assign) and any(dotted(t) == "new_object._bonds" for t in b.targets)
                                                                      for b in st.body)]
    from ..exprnorm import same_expr as _same
    ctx.ob(rule, ATOMS, "_AtomArrayBase._subarray", "if self._bonds is not None: new_object._bonds = self._bonds[index]",
           len(ifs) == 1 and _same(ifs[0].test, "self._bonds is not None") and not ifs[0].orelse
           and any(isinstance(b, ast.Assign) and _same(b.value, "self._bonds[index]") for b in ifs[0].body),
           "whether the pieces of an array (residues, chains, molecules, slices) carry a bond list must not depend on how many bonds "
           "there are", f.lineno)


def model_table_rule(ctx, rule):
    """the array handed out for one model of a stack has an annotation TABLE of its own (the arrays in it may be shared like numpy
    views; the dict that maps names to arrays is the model's: `del model[0]` rebinds its entries)"""
    ga = ctx.src(ATOMS).func("AtomArrayStack.get_array")
    whole = [st for st in ast.walk(ga) if isinstance(st, ast.Assign) and any(dotted(t) == "array._annot" for t in st.targets)]
    ctx.ob(rule, ATOMS, "AtomArrayStack.get_array", "array._annot is a table of its own",
           all(copycontract.is_fresh(st.value) is True or isinstance(st.value, (ast.Dict, ast.DictComp)) for st in whole),
           "the array returned for one model shares the stack's annotation dict: deleting atoms from the model rebinds the entries of the "
           "stack's own table (annotations shorter than the coordinates)", ga.lineno)


_ARRAY_GETITEM = '''
def __getitem__(self, index):
    if isinstance(index, numbers.Integral):
        return self.get_atom(index)
    elif isinstance(index, tuple):
        if len(index) == 2 and index[0] is Ellipsis:
            return self.__getitem__(index[1])
        else:
            raise IndexError("'AtomArray' does not accept multidimensional indices")
    else:
        return self._subarray(index)
'''


def array_index_rules(ctx, prefix="R1"):
    """which kind of index of an AtomArray goes where: an integer gives the atom, `(..., i)` is `i` (so `array[..., 2]` is an atom
    as well), any other tuple is refused, everything else is a sub-array"""
    from ..equiv import same_function
    s = ctx.src(ATOMS)
    f = s.func("AtomArray.__getitem__")
    ok, shown = same_function(f, _ARRAY_GETITEM)
    ctx.ob(f"{prefix}.array-index-dispatch", ATOMS, "AtomArray.__getitem__", "integer -> atom; (..., i) -> self[i]; other tuple refused; else sub-array", ok,
           "the index dispatch of AtomArray computes " + shown, f.lineno)
    # element assignment writes EVERY annotation category of the array (a category the atom does not have is a KeyError): the loop is over
    # the array's table, not over the atom's
    se = s.func("_AtomArrayBase._set_element")
    atom_p = param_names(se)[2]
    loops = [lp for lp in ast.walk(se) if isinstance(lp, ast.For) and any(
        isinstance(t, ast.Subscript) and isinstance(t.ctx, ast.Store) and "_annot" in ast.unparse(t.value) for b in lp.body for t in ast.walk(b))]
    ctx.need(len(loops) == 1, "the annotation loop of _set_element")
    it = loops[0].iter
    roots = {x.id for x in ast.walk(it) if isinstance(x, ast.Name)}
    ctx.ob(f"{prefix}.element-assignment-covers-array-categories", ATOMS, "_AtomArrayBase._set_element", f"for .. in {ast.unparse(it)}",
           "self" in roots and atom_p not in roots,
           "the categories that are written are those of the ATOM: a category the array has and the atom lacks keeps the value of the atom "
           "that was replaced (and no KeyError tells), so array[i] != atom after array[i] = atom", loops[0].lineno)


def setter_and_equality_rules(ctx, prefix="R1"):
    """(1) the coordinates and the bond list that are assigned to a container have its number of atoms, whatever the kind of container: every
    way through `__setattr__` that stores `_coord` has passed `value.shape[-2] == self._array_length` (and three columns), every way that
    stores a BondList has passed the atom-count test; (2) two containers are equal only if BOTH have no box or the boxes are equal:
    every way through `__eq__` that is not `return False` has one of the two"""
    from .. import machine
    from ..exprnorm import canon as _canon

    def key(text):
        return repr(_canon(ast.parse(text, mode="eval").body))
    s = ctx.src(ATOMS)
    sa_ = s.func("_AtomArrayBase.__setattr__")
    bad, n_st = [], 0
    for w in machine.ways(sa_.body, set(), ("__setattr__",)):
        if w.exit is not None:
            continue
        for u in w.updates:
            if "'_coord'" in u or '"_coord"' in u:
                n_st += 1
                # (the test may be written on `value.shape[-2]`, on a local that holds it, on `len(..)`: what counts is an EQUALITY with the
                # array length that holds on this way)
                if not any(c_.startswith("('==',") and "_array_length" in c_ for c_ in w.conds):
                    bad.append("coordinates are stored on a way that has not compared their atom axis with the array length")
                if not any(c_.startswith("('==',") and "('const', 3)" in c_ for c_ in w.conds):
                    bad.append("coordinates are stored on a way that has not asked for three columns")
            if ("'_bonds', value" in u or '"_bonds", value' in u):
                n_st += 1
                if not any(c_.startswith("('==',") and "_array_length" in c_ for c_ in w.conds):
                    bad.append("a bond list is stored on a way that has not compared its atom count with the array length")
    ctx.need(n_st >= 2, "the stores of _coord and _bonds in _AtomArrayBase.__setattr__")
    ctx.ob(f"{prefix}.assigned-parts-have-the-array-length", ATOMS, "_AtomArrayBase.__setattr__", f"{n_st} storing way(s)", not bad,
           "; ".join(sorted(set(bad))) + ": coordinates / bonds, annotations and the array length disagree afterwards (for an AtomArray or for a stack)",
           sa_.lineno)
    eq = s.func("_AtomArrayBase.__eq__")
    other = param_names(eq)[1]
    k_self, k_item = key("self._box is None"), key(f"{other}._box is None")
    k_same = {key(f"np.array_equal(self._box, {other}._box)"), key(f"np.array_equal({other}._box, self._box)")}
    bad_eq, n_eq = [], 0
    import itertools as _it

    def alternatives(conds):
        """a condition that is a disjunction holds because ONE of its parts holds: every choice of parts is a way of its own"""
        opts = []
        for c_ in conds:
            try:
                t_ = ast.literal_eval(c_)
            except (ValueError, SyntaxError):
                t_ = None
            opts.append([repr(x) for x in t_[1:]] if isinstance(t_, tuple) and t_ and t_[0] == "or" else [c_])
        for combo in _it.islice(_it.product(*opts), 64):
            yield frozenset(combo)
    expanded = [(w.exit, cs) for w in machine.ways(eq.body, machine.assigned_names(eq)) for cs in alternatives(w.conds)]
    for exit_, conds_ in expanded:
        class w:            # noqa: N801  (the loop below reads .exit / .conds)
            exit = exit_
            conds = conds_
        if w.exit == "return False":
            continue
        n_eq += 1
        if (k_self in w.conds and k_item in w.conds) or (k_same & w.conds):
            continue
        box_conds = sorted(c_ for c_ in w.conds if "box" in c_)
        if not box_conds or all(f"'{other}'" not in c_ for c_ in box_conds):
            bad_eq.append(box_conds)        # the way knows nothing about the OTHER container's box
        else:
            ctx.cannot_decide(False, f"_AtomArrayBase.__eq__ compares the boxes in a form this rule does not read: {box_conds}")
    ctx.need(n_eq >= 1, "the ways of _AtomArrayBase.__eq__ that can answer True")
    ctx.ob(f"{prefix}.equality-compares-boxes-both-ways", ATOMS, "_AtomArrayBase.__eq__", f"{n_eq} way(s) that are not `return False`", not bad_eq,
           f"a way to `True` knows about the boxes only {bad_eq[:1]}: a container without a box equals one that has a box (and not the other way round)",
           eq.lineno)


def run(ctx):
    array_index_rules(ctx, "R1")
    setter_and_equality_rules(ctx, "R1")
    s = ctx.src(ATOMS)
    idx = ClassIndex(ctx, [ATOMS, BONDS, COPYABLE])

    # ---------------- R1.constructor --------------------------------------
    n_ctor = 0
    for qual, f in s.funcs.items():
        created = {}
        for st in stmts(f):
            if isinstance(st, ast.Assign) and isinstance(st.value, ast.Call) \
                    and (call_name(st.value) or "") in CONTAINER_CTORS:
                for t in st.targets:
                    if isinstance(t, ast.Name):
                        created[t.id] = st
        rets = [r for r in walk_local(f) if isinstance(r, ast.Return) and isinstance(r.value, ast.Name)]
        for var, st in created.items():
            if not any(r.value.id == var for r in rets):
                continue
            n_ctor += 1
            w = container_writes(f, var)
            for field in ("coord", "annot", "bonds", "box"):
                ex = CTOR_EXEMPT.get((qual, field)) or CTOR_EXEMPT.get((qual, "*"))
                ok = field in w
                ctx.ob(
                    "R1.constructor", ATOMS, qual, f"{var}: {field}",
                    ok or ex is not None,
                    f"{qual} returns a new container `{var}` whose {field} is never set: "
                    + {"coord": "coordinates stay NaN", "annot": "annotations stay empty",
                       "bonds": "the bond list is lost", "box": "the box is lost"}[field],
                    st.lineno, detail={"exempt": ex} if ex and not ok else None,
                )
    ctx.floor("constructors", n_ctor, 8)

    # ---------------- R1 axis pairing -------------------------------------
    n_pair = 0
    for qual, f in s.funcs.items():
        acc = axis_accesses(f)
        if not acc:
            continue
        # axis discipline of deletes
        for field, axis, itxt, node, kind in acc:
            if kind == "delete":
                want = {"coord": (-2, 0), "annot": (0,), "box": (0,), "bonds": ()}[field]
                ctx.ob("R1.axis", ATOMS, qual, node, axis in want,
                       f"np.delete on {field} along axis {axis}; atoms are axis -2 of coord and "
                       "axis 0 of annotations, models axis 0 of coord and box", node.lineno)
        is_stack_method = qual.startswith("AtomArrayStack.")
        coord_model = {i for fld, ax, i, n, k in acc if fld == "coord" and ax == 0 and is_stack_method}
        box_model = {i for fld, ax, i, n, k in acc if fld == "box" and ax == 0}
        if is_stack_method and (coord_model or box_model):
            for i in sorted(coord_model | box_model):
                n_pair += 1
                ctx.ob(
                    "R1.model-axis", ATOMS, qual, f"model index `{i}`",
                    i in coord_model and i in box_model,
                    f"{qual} applies `{i}` to the model axis of "
                    + ("coord but not of box" if i in coord_model else "box but not of coord")
                    + ": coordinates and per-model boxes no longer have the same depth",
                    min(n.lineno for fld, ax, ii, n, k in acc if ii == i),
                )
        coord_atom = {i for fld, ax, i, n, k in acc if fld == "coord" and ax == -2}
        annot_atom = {i for fld, ax, i, n, k in acc if fld == "annot"}
        bonds_atom = {i for fld, ax, i, n, k in acc if fld == "bonds" and ax == 0}
        if coord_atom and qual.startswith("_AtomArrayBase."):
            for i in sorted(coord_atom):
                n_pair += 1
                ctx.ob("R1.atom-axis", ATOMS, qual, f"atom index `{i}` -> annotations",
                       i in annot_atom,
                       f"{qual} applies `{i}` to the atom axis of coord but not to the annotations",
                       f.lineno)
                if qual.endswith("_set_element"):
                    continue  # element assignment does not change connectivity
                ok = i in bonds_atom or any(derived_from(f, b, i) for b in bonds_atom)
                ctx.ob("R1.atom-axis", ATOMS, qual, f"atom index `{i}` -> bonds", ok,
                       f"{qual} applies `{i}` to the atom axis of coord but not to the bond list: "
                       "bonds no longer connect the same atoms / atom counts diverge", f.lineno)
    ctx.floor("axis-pairs", n_pair, 8)
    length_rules(ctx, "R1")
    annotation_value_rules(ctx, "R1")
    # concatenate / stack axes
    for qual, fname, field, want in (
        ("concatenate", "np.concatenate", "coord", -2),
        ("concatenate", "np.concatenate", "get_annotation", 0),
        ("stack", "np.stack", "coord", 0),
    ):
        f = s.func(qual)
        found = False
        for c in calls(f):
            if call_name(c) == fname and field in ast.unparse(c):
                axis = [ast.literal_eval(k.value) for k in c.keywords if k.arg == "axis"]
                found = True
                ctx.ob("R1.axis", ATOMS, qual, c, axis == [want],
                       f"{fname} of {field} must use axis {want}", c.lineno)
        ctx.need(found, f"{fname} over {field} in {qual}")
    # stack(): depth of the new stack = number of arrays; concatenate: offsets via BondList.concatenate
    cc = s.func("concatenate")
    ctx.ob("R1.bond-offsets", ATOMS, "concatenate", "BondList.concatenate([...])",
           any(call_name(c) == "BondList.concatenate" for c in calls(cc)),
           "bond lists must be joined with index offsets (BondList.concatenate)", cc.lineno)
    # placeholder bond lists of elements without bonds keep the atom count
    ph = [c for c in calls(cc) if call_name(c) == "BondList" and c.args]
    ctx.ob("R1.bond-offsets", ATOMS, "concatenate", "BondList(element.array_length())",
           any("array_length" in ast.unparse(c.args[0]) for c in ph),
           "an element without bonds must contribute an empty bond list of its own length, "
           "otherwise later indices are not offset", cc.lineno)
    # the box of the first element that has one
    first_box = False
    from ..facts import conjuncts as _cj
    from ..exprnorm import canon as _cn, spec as _sp
    seq_par = param_names(cc)[0]
    for lp in walk_local(cc):
        # (a) for element in atoms: if element.box is not None and box is None: box = element.box
        if isinstance(lp, ast.For) and isinstance(lp.target, ast.Name) and same_expr(lp.iter, seq_par):
            ev = lp.target.id
            for st in ast.walk(lp):
                if isinstance(st, ast.If) and not st.orelse and len(st.body) == 1 and isinstance(st.body[0], ast.Assign) \
                        and isinstance(st.body[0].targets[0], ast.Name) and same_expr(st.body[0].value, f"{ev}.box"):
                    bv = st.body[0].targets[0].id
                    if {repr(_cn(c_)) for c_ in _cj(st.test)} == {repr(_sp(f"{ev}.box is not None")), repr(_sp(f"{bv} is None"))}:
                        first_box = True
    for st in stmts(cc):
        # (b) box = next((element.box for element in atoms if element.box is not None), None)
        if isinstance(st, ast.Assign) and isinstance(st.value, ast.Call) and call_name(st.value) == "next" and len(st.value.args) == 2 \
                and same_expr(st.value.args[1], "None") and isinstance(st.value.args[0], ast.GeneratorExp) and len(st.value.args[0].generators) == 1:
            g_ = st.value.args[0].generators[0]
            if isinstance(g_.target, ast.Name) and same_expr(g_.iter, seq_par) and len(g_.ifs) == 1 \
                    and same_expr(g_.ifs[0], f"{g_.target.id}.box is not None") and same_expr(st.value.args[0].elt, f"{g_.target.id}.box"):
                first_box = True
    ctx.ob("R1.concatenate-box", ATOMS, "concatenate", "box of the first element that has one", first_box,
           "concatenate must transfer the box of the *first* element with a box (documented)", cc.lineno)

    # BondList.concatenate: offsets by cumulated atom count, applied to the index columns only
    b = ctx.src(BONDS)
    bc = b.func("BondList.concatenate")
    txt = ast.unparse(bc)
    ctx.ob("R1.bond-offsets", BONDS, "BondList.concatenate", "merged_bonds[start:stop, :2] += cum_atom_count",
           has_code(bc, "merged_bonds[start:stop, :2] += cum_atom_count")
           and txt.index("merged_bonds[start:stop, :2] += cum_atom_count") < txt.index("cum_atom_count += bond_list._atom_count"),
           "index offset must be added to the two index columns before the atom count is cumulated",
           bc.lineno)

    # ---------------- R1.reshape ------------------------------------------
    rp = s.func("repeat")
    shapes = doc_shapes(rp, "coord")
    ctx.need(len(shapes) == 2, "documented shapes of repeat(coord)")
    env = {}
    for st in stmts(rp):
        if isinstance(st, ast.Assign) and len(st.targets) == 1 and isinstance(st.targets[0], ast.Name):
            try:
                env[st.targets[0].id] = sym_dims(st.value, env)
            except KeyError:
                pass
    n_rs = 0
    for c in calls(rp):
        if not (isinstance(c.func, ast.Attribute) and c.func.attr == "reshape" and c.args):
            continue
        tgt_e = c.args[0].elts if isinstance(c.args[0], ast.Tuple) else c.args
        try:
            tgt = [sym_dims(e, env) for e in tgt_e]
        except KeyError as e:
            raise AnalysisError(f"repeat: cannot resolve reshape dimension {e}")
        src_e = c.func.value
        nd = sum(len(t) for t in tgt)
        src = next((sh for sh in shapes if len(sh) == nd), None)
        ctx.need(src is not None, "documented shape matching the reshape")
        src = list(src)
        # transposes applied before the reshape
        while isinstance(src_e, ast.Call):
            cn = call_name(src_e) or ""
            if cn.endswith("swapaxes") and len(src_e.args) == 3:
                a, b_ = ast.literal_eval(src_e.args[1]), ast.literal_eval(src_e.args[2])
                src[a], src[b_] = src[b_], src[a]
                src_e = src_e.args[0]
            elif cn.endswith("moveaxis") and len(src_e.args) == 3:
                a, b_ = ast.literal_eval(src_e.args[1]), ast.literal_eval(src_e.args[2])
                x = src.pop(a)
                src.insert(b_, x)
                src_e = src_e.args[0]
            elif isinstance(src_e.func, ast.Attribute) and src_e.func.attr == "transpose":
                perm = [ast.literal_eval(a) for a in src_e.args]
                if len(perm) == 1 and isinstance(perm[0], tuple):
                    perm = list(perm[0])
                src = [src[p] for p in perm]
                src_e = src_e.func.value
            elif isinstance(src_e.func, ast.Attribute) and src_e.func.attr == "swapaxes":
                a, b_ = [ast.literal_eval(a) for a in src_e.args]
                src[a], src[b_] = src[b_], src[a]
                src_e = src_e.func.value
            else:
                break
        n_rs += 1
        ctx.ob("R1.reshape", ATOMS, "repeat", c,
               reshape_consistent(src, tgt),
               f"reshape of axes ({','.join(src)}) to ({','.join('*'.join(t) for t in tgt)}) merges "
               "axes that are not adjacent: a row-major reshape then mixes models and repeats "
               "(a transpose must come first)", c.lineno)
    ctx.floor("reshapes", n_rs, 2)

    # ---------------- R2 copy contract ------------------------------------
    copycontract.check(ctx, idx, ["Atom", "AtomArray", "AtomArrayStack", "_AtomArrayBase", "BondList"],
                       "R2", immutable=IMMUTABLE, helper_methods=("_copy_annotations",))
    # get_array must not hand out the stack's bond list itself
    ga = s.func("AtomArrayStack.get_array")
    for st in stmts(ga):
        if isinstance(st, ast.Assign) and any(dotted(t) == "array._bonds" for t in st.targets):
            ctx.ob("R2.fresh", ATOMS, "AtomArrayStack.get_array", st,
                   copycontract.is_fresh(st.value) is not False,
                   "the array returned for one model shares the stack's BondList object", st.lineno)

    model_table_rule(ctx, "R2.fresh")
    subarray_keeps_bonds_rule(ctx, "R1.subarray-keeps-bond-list")
    # the constructor that Atom.copy() and every `array[i]` / get_atom() go through takes the caller's coordinates over:
    # they must be copied there (np.array copies; np.asarray / copy=False hand out a view of the array's row)
    from ..exprnorm import summarize
    ai = s.func("Atom.__init__")
    sm_ai = summarize(ai)
    stored = [c.args[2] for c in ast.walk(sm_ai.env.get("self", ast.Constant(None))) if isinstance(c, ast.Call) and call_name(c) == "__setattr__"
              and isinstance(c.args[1], ast.Constant) and c.args[1].value == "coord"]
    ctx.need(len(stored) == 1, "Atom.__init__ stores self.coord once")
    cpar = param_names(ai)[1]

    def copies(v):
        if not isinstance(v, ast.Call):
            return False
        fn = call_name(v) or ""
        kw = {k.arg: k.value for k in v.keywords}
        no_copy_off = "copy" not in kw or (isinstance(kw["copy"], ast.Constant) and kw["copy"].value is True)
        if fn in ("np.array", "numpy.array") and v.args and isinstance(v.args[0], ast.Name) and v.args[0].id == cpar:
            return no_copy_off and "subok" not in kw
        if fn in ("np.copy", "numpy.copy") and v.args and isinstance(v.args[0], ast.Name) and v.args[0].id == cpar:
            return True
        if isinstance(v.func, ast.Attribute) and v.func.attr == "copy" and not v.args:
            return True
        if isinstance(v.func, ast.Attribute) and v.func.attr == "astype":
            return no_copy_off and copies_or_param(v.func.value)
        return False

    def copies_or_param(v):
        return copies(v) or isinstance(v, ast.Name) and v.id == cpar or \
            isinstance(v, ast.Call) and (call_name(v) or "") in ("np.asarray", "np.asanyarray") and bool(v.args) and copies_or_param(v.args[0])
    ctx.ob("R2.atom-owns-coord", ATOMS, "Atom.__init__", "self.coord = " + ast.unparse(stored[0])[:60], copies(stored[0]),
           "an Atom must own its coordinates: built from a row of an array (array[i], get_atom, iteration) or from another atom "
           "(copy) it would otherwise be a view, and editing one changes the other", ai.lineno)

    # equal_annotations (behind stack(), stack[i] = array, ==) compares float annotations NaN-tolerantly: all float widths
    from ..lints import dtype_family_tests
    dtype_family_tests(ctx, ATOMS, "R2.dtype-family-test")

    # flags and tables that a loop over the elements builds up are accumulated, not overwritten by the last element
    from ..lints import loop_updates_kept
    loop_updates_kept(ctx, ATOMS, "R1.loop-updates-kept", 5)
    # an existing annotation category is only ever widened: it is cast to the requested dtype when every stored value fits into it
    # (can_cast(existing, requested)) and left alone when the requested one fits into the existing one
    from .. import facts as _facts
    from ..exprnorm import spec as _spec
    aa = s.func("_AtomArrayBase.add_annotation")
    casts = [st for st in walk_local(aa) if isinstance(st, ast.Assign) and isinstance(st.value, ast.Call) and isinstance(st.value.func, ast.Attribute)
             and st.value.func.attr == "astype"]
    ctx.need(len(casts) == 1, "cast of an existing category in add_annotation")
    ex = ast.unparse(casts[0].value.func.value)
    known = _facts.facts_at(aa, casts[0])
    keeps = [st for st in walk_local(aa) if isinstance(st, ast.Pass)]
    ctx.ob("R1.annotation-dtype-widening", ATOMS, "_AtomArrayBase.add_annotation", f"{ex}.astype(dtype) only under np.can_cast({ex}.dtype, dtype)",
           _spec(f"np.can_cast({ex}.dtype, dtype)") in known
           and all(_spec(f"np.can_cast(dtype, {ex}.dtype)") in _facts.facts_at(aa, k) for k in keeps) and len(keeps) == 1,
           "re-declaring a category must never narrow the stored values: cast when the existing dtype can be cast safely to the requested "
           "one, keep the existing (more general) dtype when it is the other way round", casts[0].lineno)

    # ---------------- R3 slice(i, i + 1) ----------------------------------
    n_sl = 0
    for qual, f in s.funcs.items():
        for c in calls(f):
            if call_name(c) == "slice" and len(c.args) == 2:
                a, b_ = c.args
                plus1 = (isinstance(b_, ast.BinOp) and isinstance(b_.op, ast.Add)
                         and ast.dump(b_.left) == ast.dump(a)
                         and isinstance(b_.right, ast.Constant) and b_.right.value == 1)
                guarded = (isinstance(b_, ast.BoolOp) and isinstance(b_.op, ast.Or)
                           and isinstance(b_.values[-1], ast.Constant) and b_.values[-1].value is None)
                if plus1 or guarded:
                    n_sl += 1
                    ctx.ob("R3.slice-of-negative-index", ATOMS, qual, c, guarded,
                           f"`{ast.unparse(c)}` is empty for the index -1 (slice(-1, 0)): the last "
                           "atom cannot be selected with a negative integer", c.lineno)
    ctx.floor("index-slices", n_sl, 1)
    # a caller's integer index is used as a subscript (numpy resolves negative
    # values); comparing it with positions (np.arange(n) != index) does not
    n_cmp = 0
    for qual, f in s.funcs.items():
        params = set(param_names(f))
        for n in walk_local(f):
            if not isinstance(n, ast.Compare):
                continue
            sides = [n.left] + list(n.comparators)
            has_positions = any(isinstance(x, ast.Call) and (call_name(x) or "").split(".")[-1] in ("arange", "range", "indices")
                                for sd in sides for x in ast.walk(sd))
            raw = [sd for sd in sides if isinstance(sd, ast.Name) and sd.id in params]
            if has_positions and raw:
                n_cmp += 1
                normalised = any(
                    isinstance(st, (ast.Assign, ast.AugAssign)) and raw[0].id in
                    {t.id for t in ([st.target] if isinstance(st, ast.AugAssign) else st.targets) if isinstance(t, ast.Name)}
                    for st in stmts(f) if st.lineno < n.lineno)
                ctx.ob("R3.index-compared-to-positions", ATOMS, qual, n, normalised,
                       f"the caller's index `{raw[0].id}` is compared with positions; a negative index "
                       "matches no position, so the operation silently does nothing for it", n.lineno)
    ctx.count("index-position-compares", n_cmp)
    probe = ast.parse("def f(self, index):\n    m = np.arange(3) != index\n").body[0]
    ctx.need(any(isinstance(x, ast.Compare) for x in ast.walk(probe)), "positive control of R3.index-compared-to-positions")


MUTANTS = [
    Mutant("eq-box-one-sided", ATOMS, "        if self._box is None:\n            if item._box is not None:\n                return False\n        else:\n            if not np.array_equal(self._box, item._box):\n                return False\n",
           "        if self._box is not None and not np.array_equal(self._box, item._box):\n            return False\n", "R1.equality-compares-boxes-both-ways"),
    Mutant("ellipsis-index-to-subarray", ATOMS, "                return self.__getitem__(index[1])\n            else:\n                raise IndexError(\"'AtomArray' does not accept multidimensional indices\")",
           "                return self._subarray(index[1])\n            else:\n                raise IndexError(\"'AtomArray' does not accept multidimensional indices\")", "R1.array-index-dispatch"),
    Mutant("set-element-over-atom-categories", ATOMS, "                for name in self._annot:\n                    self._annot[name][index] = atom._annot[name]",
           "                for name in atom._annot:\n                    self._annot[name][index] = atom._annot[name]", "R1.element-assignment-covers-array-categories"),
    Mutant("bonds-shorter-accepted", ATOMS, "                if value.get_atom_count() != self._array_length:\n", "                if value.get_atom_count() > self._array_length:\n", "R1.bonds-length-checked"),
    Mutant("length-decremented-before-delete", ATOMS, "            self._coord = np.delete(self._coord, index, axis=-2)\n            self._array_length = self._coord.shape[-2]\n",
           "            self._array_length -= 1\n            self._coord = np.delete(self._coord, index, axis=-2)\n", "R1.array-length"),
    Mutant("concat-bonds-flag-overwritten", ATOMS, "        if element.bonds is not None:\n            has_bonds = True\n", "        has_bonds = element.bonds is not None\n", "R1.loop-updates-kept", "concatenate"),
    Mutant("add-annotation-cast-direction", ATOMS, "        elif np.can_cast(self._annot[str(category)].dtype, dtype):\n", "        elif np.can_cast(dtype, self._annot[str(category)].dtype):\n",
           "R1.annotation-dtype-widening"),
    Mutant("nan-tolerance-float64-only", ATOMS, "                if np.issubdtype(self._annot[name].dtype, np.floating)\n",
           "                if np.issubdtype(self._annot[name].dtype, float)\n", "R2.dtype-family-test"),
    Mutant("atom-coord-asarray", ATOMS, "        coord = np.array(coord, dtype=np.float32)\n", "        coord = np.asarray(coord, dtype=np.float32)\n", "R2.atom-owns-coord"),
    Mutant("atom-coord-no-copy", ATOMS, "        coord = np.array(coord, dtype=np.float32)\n", "        coord = np.array(coord, dtype=np.float32, copy=False)\n", "R2.atom-owns-coord"),
    Mutant("subarray-drops-bonds", ATOMS,
           "        if self._bonds is not None:\n            new_object._bonds = self._bonds[index]\n", "",
           "R1.constructor"),
    Mutant("subarray-drops-box", ATOMS,
           "        if self._box is not None:\n            new_object._box = self._box\n", "",
           "R1.constructor"),
    Mutant("copy-no-npcopy", ATOMS, "        clone._coord = np.copy(self._coord)", "        clone._coord = self._coord", "R2.fresh"),
    Mutant("copy-box-shared", ATOMS, "            clone._box = np.copy(self._box)", "            clone.box = self._box", "R2.fresh"),
    Mutant("del-element-axis", ATOMS, "            self._coord = np.delete(self._coord, index, axis=-2)",
           "            self._coord = np.delete(self._coord, index, axis=1)", "R1.axis"),
    Mutant("getitem-box-not-indexed", ATOMS,
           "                    if new_stack._box is not None:\n                        new_stack._box = new_stack._box[index[0]]\n", "",
           "R1.model-axis"),
    Mutant("regress-delitem-box", ATOMS,
           "            if self._box is not None:\n                self._box = np.delete(self._box, index, axis=0)\n", "",
           "R1.model-axis"),
    Mutant("regress-slice", ATOMS, "slice(index[1], index[1] + 1 or None)", "slice(index[1], index[1] + 1)",
           "R3.slice-of-negative-index"),
    Mutant("regress-repeat", ATOMS, "np.swapaxes(coord, 0, 1).reshape(", "coord.reshape(", "R1.reshape"),
    Mutant("get-array-box", ATOMS, "            array._box = self._box[index]\n", "            array._box = self._box\n", "R1.model-axis"),
    Mutant("setitem-box-dropped", ATOMS,
           "            if self.box is not None:\n                self.box[index] = array.box\n", "", "R1.model-axis"),
    Mutant("concat-last-box", ATOMS, "if element.box is not None and box is None:", "if element.box is not None:",
           "R1.concatenate-box"),
    Mutant("del-element-bonds", ATOMS, "                mask[index] = False\n", "                mask[index - 1] = False\n", "R1.atom-axis"),
    Mutant("del-element-length-off-by-one", ATOMS, "            self._array_length = self._coord.shape[-2]\n", "            self._array_length = self._coord.shape[-2] - 1\n", "R1.array-length"),
    Mutant("from-template-bonds", ATOMS,
           "    if template.bonds is not None:\n        new_stack.bonds = template.bonds.copy()\n", "", "R1.constructor"),
    Mutant("del-element-mask-compare", ATOMS,
           "                mask = np.ones(self._bonds.get_atom_count(), dtype=bool)\n                mask[index] = False\n",
           "                mask = np.arange(self._bonds.get_atom_count()) != index\n",
           "R3.index-compared-to-positions"),
    Mutant("bondlist-copy-shared", BONDS, "clone._bonds = self._bonds.copy()", "clone._bonds = self._bonds", "R2.fresh"),
    Mutant("concat-placeholder", ATOMS, "else BondList(element.array_length())", "else BondList(0)", "R1.bond-offsets"),
    Mutant("del-element-length-stale", ATOMS,
           "            self._array_length = self._coord.shape[-2]\n", "", "R1.array-length", "_AtomArrayBase._del_element"),
    Mutant("subarray-annotations-not-indexed", ATOMS,
           "            new_object._annot[annotation] = self._annot[annotation].__getitem__(index)\n",
           "            new_object._annot[annotation] = self._annot[annotation]\n",
           "R1.atom-axis", "_AtomArrayBase._subarray"),
    Mutant("subarray-bonds-not-indexed", ATOMS,
           "            new_object._bonds = self._bonds[index]\n",
           "            new_object._bonds = self._bonds.copy()\n",
           "R1.atom-axis", "_AtomArrayBase._subarray"),
    Mutant("del-element-keeps-bonds", ATOMS,
           "            if self._bonds is not None:\n                mask = np.ones(self._bonds.get_atom_count(), dtype=bool)\n                mask[index] = False\n                self._bonds = self._bonds[mask]\n",
           "", "R1.atom-axis", "_AtomArrayBase._del_element"),
    Mutant("set-element-annotations-skipped", ATOMS,
           "                for name in self._annot:\n                    self._annot[name][index] = atom._annot[name]\n",
           "", "R1.atom-axis", "_AtomArrayBase._set_element"),
    Mutant("stack-copy-create-one-arg", ATOMS,
           "        return AtomArrayStack(self.stack_depth(), self.array_length())\n",
           "        return AtomArrayStack(self.array_length())\n",
           "R2.create-arity", "AtomArrayStack.__copy_create__"),
    Mutant("array-copy-create-two-args", ATOMS,
           "        return AtomArray(self.array_length())\n",
           "        return AtomArray(1, self.array_length())\n",
           "R2.create-arity", "AtomArray.__copy_create__"),
    Mutant("array-fill-override-no-super", ATOMS,
           "        return AtomArray(self.array_length())\n",
           "        return AtomArray(self.array_length())\n\n    def __copy_fill__(self, clone):\n        clone._coord = np.copy(self._coord)\n",
           "R2.fill-super", "AtomArray.__copy_fill__"),
    Mutant("stack-fill-override-super-wrong-arg", ATOMS,
           "        return AtomArrayStack(self.stack_depth(), self.array_length())\n",
           "        return AtomArrayStack(self.stack_depth(), self.array_length())\n\n    def __copy_fill__(self, clone):\n        super().__copy_fill__(self)\n",
           "R2.fill-super", "AtomArrayStack.__copy_fill__"),
]
