"""
C13 - slicing annotations and annotated sequences.

R1  units: a small provenance type system over AnnotatedSequence -
    POS (base position), IDX (0-based sequence index).  pos - seqstart -> idx,
    idx + seqstart -> pos; the sequence is subscripted by IDX only, the
    annotation sliced / Locations built / sequence_start passed with POS only.
R2  defect tables: reverse_complement mirrors every Location.Defect member and
    the map is an involution; strands are swapped; Annotation.__getitem__
    sets MISS_LEFT/MISS_RIGHT exactly under `loc.first < i_first` /
    `loc.last > i_last` and clips to those bounds.
R3  Copyable contract for Feature, Annotation, AnnotatedSequence.
R4  sibling agreement: indexing with a Feature reads and writes the locations
    in the same order and both reverse-complement reverse-strand parts.
"""

import ast

from .. import copycontract
from ..astutil import call_name, calls, dotted, names_in, param_names, stmts, walk_local
from ..core import AnalysisError, Mutant
from ..exprnorm import same_expr, summarize_block
from ..program import ClassIndex
from ..exprnorm import has_code

EXPLANATION = (
    "Position/index unit inference over the methods of AnnotatedSequence, evaluation of the "
    "defect mirror table of reverse_complement, clip conditions of Annotation.__getitem__, "
    "Copyable contract, getitem/setitem sibling comparison - all from the AST of annotation.py."
)
ASSUMPTIONS = ["slice bounds and Location.first/last are base positions; len(sequence) is an index bound"]
MIN_OBLIGATIONS = 35

ANN = "sequence/annotation.py"
COPYABLE = "copyable.py"
SEQ = "sequence/sequence.py"

POS, IDX, INT, UNK = "POS", "IDX", "INT", "?"


class Units:
    """unit inference for one method; env: name -> unit, slices: name -> (start, stop)"""

    def __init__(self, ctx, qual, func):
        self.ctx = ctx
        self.qual = qual
        self.func = func
        # the bare index parameter, when used arithmetically, is an integer base position
        self.env = {p: POS for p in param_names(func)[1:2]}
        self.slices = {}
        self.n_sinks = 0

    def unit(self, e):
        if e is None:
            return None
        if isinstance(e, ast.Constant):
            return None if e.value is None else INT
        if isinstance(e, ast.Name):
            return self.env.get(e.id, UNK)
        d = dotted(e)
        if d in ("self._seqstart", "rev_seqstart_"):
            return POS
        if isinstance(e, ast.Attribute):
            if e.attr in ("start", "stop") and isinstance(e.value, ast.Name):
                if e.value.id in self.slices:
                    return self.slices[e.value.id][0 if e.attr == "start" else 1]
                return POS  # bounds of the caller's slice
            if e.attr in ("first", "last"):
                return POS
            if e.attr == "step":
                return None
        if isinstance(e, ast.Call):
            cn = call_name(e) or ""
            if cn == "len":
                return IDX
        if isinstance(e, ast.BinOp) and isinstance(e.op, (ast.Add, ast.Sub)):
            l, r = self.unit(e.left), self.unit(e.right)
            if isinstance(e.op, ast.Sub):
                if l == POS and r == POS:
                    return IDX
                if l == IDX and r == IDX:
                    return IDX
                if r == INT:
                    return l
                if l == INT and r in (IDX,):
                    return IDX
                if l == IDX and r == POS:
                    return "IDX-POS"
                if l == POS and r == IDX:
                    return POS
            else:
                if {l, r} == {IDX, POS}:
                    return POS
                if r == INT:
                    return l
                if l == INT:
                    return r
                if l == IDX and r == IDX:
                    return IDX
                if l == POS and r == POS:
                    return "POS+POS"
        return UNK

    def run(self):
        for st in stmts(self.func):
            if isinstance(st, ast.Assign) and len(st.targets) == 1 and isinstance(st.targets[0], ast.Name):
                name = st.targets[0].id
                v = st.value
                if isinstance(v, ast.Call) and call_name(v) == "slice" and len(v.args) >= 2:
                    self.slices[name] = (self.unit(v.args[0]), self.unit(v.args[1]))
                else:
                    u = self.unit(v)
                    old = self.env.get(name)
                    if old is None or old == u or old == INT:
                        self.env[name] = u
                    elif u == INT:
                        pass  # a literal is compatible with the unit already seen
                    else:
                        self.env[name] = f"{old}|{u}"
            for n in ast.walk(st) if not isinstance(st, (ast.If, ast.For, ast.While, ast.With, ast.Try)) else \
                    (x for e in _heads(st) for x in ast.walk(e)):
                self.sink(n)

    def sink(self, n):
        ctx = self.ctx
        if isinstance(n, ast.Subscript):
            base = dotted(n.value)
            if base == "self._sequence":
                sl = n.slice
                parts = [sl.lower, sl.upper] if isinstance(sl, ast.Slice) else [sl]
                for p in parts:
                    if p is None:
                        continue
                    u = self.unit(p)
                    self.n_sinks += 1
                    ctx.ob("R1.sequence-subscripted-by-index", ANN, self.qual,
                           f"self._sequence[... {ast.unparse(p)} ...] : {u}", u in (IDX, INT),
                           f"the sequence is subscripted with `{ast.unparse(p)}`, which is a base "
                           f"position ({u}), not an index: the sequence start is not subtracted",
                           n.lineno)
            if base == "self._annotation":
                sl = n.slice
                if isinstance(sl, ast.Name) and sl.id in self.slices:
                    st_u, sp_u = self.slices[sl.id]
                elif isinstance(sl, ast.Name):
                    st_u, sp_u = POS, POS  # the caller's own slice object
                elif isinstance(sl, ast.Slice):
                    st_u, sp_u = self.unit(sl.lower), self.unit(sl.upper)
                else:
                    return
                for what, u in (("start", st_u), ("stop", sp_u)):
                    if u is None:
                        continue
                    self.n_sinks += 1
                    ctx.ob("R1.annotation-sliced-by-position", ANN, self.qual,
                           f"self._annotation[{ast.unparse(sl)}] {what}: {u}", u == POS,
                           f"the annotation is sliced with a {what} that is a sequence index ({u}), not a "
                           "base position: features near the end lose bases or are dropped when the "
                           "sequence start is not 1 (and the last base even when it is)", n.lineno)
        if isinstance(n, ast.Call):
            cn = call_name(n) or ""
            if cn == "Location" and len(n.args) >= 2:
                for a in n.args[:2]:
                    u = self.unit(a)
                    self.n_sinks += 1
                    ctx.ob("R1.location-from-position", ANN, self.qual, f"Location(... {ast.unparse(a)} ...) : {u}",
                           u == POS, f"a Location bound is built from {u}, not a base position", n.lineno)
            if cn == "AnnotatedSequence" and len(n.args) >= 3:
                u = self.unit(n.args[2])
                self.n_sinks += 1
                ctx.ob("R1.sequence-start-is-position", ANN, self.qual,
                       f"AnnotatedSequence(..., {ast.unparse(n.args[2])}) : {u}", u == POS,
                       f"the new sequence start is {u}, not a base position", n.lineno)


def _heads(st):
    from ..cfg import head_exprs
    return head_exprs(st)


def defect(e):
    d = dotted(e)
    if d and d.startswith("Location.Defect."):
        return d.split(".")[-1]
    return None


def run(ctx):
    from ..lints import enum_members_distinct
    enum_members_distinct(ctx, ANN, "R1.enum-members-distinct")
    # which alphabet a sequence has is decided by value (an unpickled / deep-copied sequence carries its own copy of the alphabet):
    # slicing, feature indexing and reverse_complement clone through NucleotideSequence.__copy_create__
    from ..lints import alphabets_compared_by_value
    alphabets_compared_by_value(ctx, "sequence/seqtypes.py", "R3.alphabet-compared-by-value", 1)
    from .C03 import sequence_add_rule
    sequence_add_rule(ctx, "R1")
    # reverse-strand parts of a feature are read and written through complement(): the table behind it (seqtypes.py)
    from .C03 import complement_table_rules
    complement_table_rules(ctx, "R2")
    s = ctx.src(ANN)
    idx = ClassIndex(ctx, [ANN, COPYABLE])
    members = [m for m in _enum_members(s.cls("Location.Defect")) if m != "NONE"]
    ctx.need(len(members) >= 6, "Location.Defect members")

    # ---------------- R1 units ---------------------------------------------
    total = 0
    for m in ("__getitem__", "__setitem__", "reverse_complement"):
        f = s.func(f"AnnotatedSequence.{m}")
        u = Units(ctx, f"AnnotatedSequence.{m}", f)
        if m == "reverse_complement":
            u.env["sequence_start"] = POS
            u.env["rev_seqstart"] = POS
        u.run()
        total += u.n_sinks
    ctx.floor("unit-sinks", total, 14)

    # ---------------- R2 mirror table --------------------------------------
    # The mirrored defect is a function of the set of defect flags of the location.  The loop body is composed into one
    # expression and evaluated over all 2^6 flag sets (an exact finite abstraction: the code tests the flags with `&` only).
    import itertools
    rc = s.func("AnnotatedSequence.reverse_complement")
    loc_loops = [lp for lp in ast.walk(rc) if isinstance(lp, ast.For) and isinstance(lp.target, ast.Name)
                 and any(isinstance(c, ast.Call) and call_name(c) == "Location" for c in ast.walk(lp))
                 and not any(isinstance(x, ast.For) for b in lp.body for x in ast.walk(b))]
    ctx.need(len(loc_loops) == 1, "location loop of reverse_complement")
    lv = loc_loops[0].target.id
    loc_call = next(c for c in ast.walk(loc_loops[0]) if isinstance(c, ast.Call) and call_name(c) == "Location")
    # only what is computed BEFORE the mirrored Location is built counts
    k_loc = next(k for k, st in enumerate(loc_loops[0].body) if any(n is loc_call for n in ast.walk(st)))
    ctx.need(isinstance(loc_loops[0].body[k_loc], (ast.Expr, ast.Assign)), "the mirrored Location is built by a plain statement of the loop body")
    benv = summarize_block(loc_loops[0].body[:k_loc]).env
    darg = loc_call.args[3] if len(loc_call.args) > 3 else next((k.value for k in loc_call.keywords if k.arg == "defect"), None)
    ctx.need(darg is not None, "defect argument of the mirrored Location")
    from ..exprnorm import subst
    dexpr = subst(darg, benv)

    class _Unknown(Exception):
        pass

    def ev(e, flags):
        if isinstance(e, ast.IfExp):
            return ev(e.body, flags) if truth(e.test, flags) else ev(e.orelse, flags)
        if isinstance(e, ast.BinOp) and isinstance(e.op, ast.BitOr):
            return ev(e.left, flags) | ev(e.right, flags)
        d = defect(e)
        if d is not None:
            return frozenset() if d == "NONE" else frozenset([d])
        if isinstance(e, ast.Attribute) and e.attr == "defect" and isinstance(e.value, ast.Name) and e.value.id == lv:
            return frozenset(flags)
        raise _Unknown(ast.unparse(e)[:60])

    def truth(t, flags):
        if isinstance(t, ast.BinOp) and isinstance(t.op, ast.BitAnd):
            parts = [t.left, t.right]
            d = [defect(p_) for p_ in parts if defect(p_)]
            if len(d) == 1 and any(isinstance(p_, ast.Attribute) and p_.attr == "defect" and isinstance(p_.value, ast.Name)
                                   and p_.value.id == lv for p_ in parts):
                return d[0] in flags
        if isinstance(t, ast.UnaryOp) and isinstance(t.op, ast.Not):
            return not truth(t.operand, flags)
        if isinstance(t, ast.BoolOp):
            vs = [truth(v, flags) for v in t.values]
            return all(vs) if isinstance(t.op, ast.And) else any(vs)
        raise _Unknown(ast.unparse(t)[:60])

    expect = {"MISS_LEFT": "MISS_RIGHT", "MISS_RIGHT": "MISS_LEFT", "BEYOND_LEFT": "BEYOND_RIGHT", "BEYOND_RIGHT": "BEYOND_LEFT"}
    table = {}
    try:
        for r_ in range(len(members) + 1):
            for combo in itertools.combinations(sorted(members), r_):
                table[frozenset(combo)] = ev(dexpr, frozenset(combo))
    except _Unknown as ex:
        if isinstance(darg, ast.Name) and str(ex) == darg.id:
            # the accumulator is not bound inside the iteration: it carries the flags of the previous location over
            ctx.ob("R2.mirror-starts-empty", ANN, "AnnotatedSequence.reverse_complement", f"{darg.id} starts from NONE for every location", False,
                   f"`{darg.id}` is not reset inside the loop over the locations: the mirrored defects of one location are carried into the "
                   "next one of the same feature", rc.lineno)
            table = None
        else:
            raise AnalysisError(f"anchor vanished: mirrored defect is not a flag-wise function of loc.defect ({ex})")
    if table is None:
        members = []
        table = {frozenset(): frozenset()}
        expect = {}
    ctx.count("mirror-flag-sets", len(table))
    carried = sorted(m for m in expect if m in table[frozenset([m])])
    ctx.ob("R2.mirror-starts-empty", ANN, "AnnotatedSequence.reverse_complement", "no defect -> no defect; sided defects are not carried over",
           table[frozenset()] == frozenset() and not carried,
           f"the mirrored defect must start from NONE: no defect gives {sorted(table[frozenset()])}, and {carried} survive unmirrored", rc.lineno)
    single_ok = True
    for m in members:
        got = table[frozenset([m])] - table[frozenset()] - (frozenset([m]) if m in expect else frozenset())
        want = frozenset([expect.get(m, m)])
        ctx.ob("R2.defect-mirrored", ANN, "AnnotatedSequence.reverse_complement", f"{m} -> {sorted(got)}", bool(got),
               f"defect {m} is dropped by reverse_complement", rc.lineno)
        ok1 = got == want
        single_ok = single_ok and ok1
        ctx.ob("R2.mirror-involution", ANN, "AnnotatedSequence.reverse_complement", f"{m} -> {sorted(table[frozenset([m])])}", table[frozenset([m])] - table[frozenset()] == want,
               f"{m} is mapped to {sorted(got)}; a left/right defect must map to its mirror image ({sorted(want)}) so that the map undoes itself", rc.lineno)
    bad = [fs for fs, out in table.items() if out != frozenset(expect.get(x, x) for x in fs)]
    ctx.ob("R2.mirror-tests-independent", ANN, "AnnotatedSequence.reverse_complement", f"{len(table)} flag sets mirrored flag by flag",
           not (single_ok and bad),
           f"single defects are mirrored correctly but the combination {sorted(bad[0]) if bad else ''} becomes "
           f"{sorted(table[bad[0]]) if bad else ''}: the tests are not independent (reverse complement twice no longer restores the original)",
           rc.lineno)
    # strands swapped: the strand handed to the new Location, as a function of the old location's strand - one loop iteration is
    # composed (summarize_block), `loc.strand` is set to each member in turn and the expression is folded (if statement,
    # conditional expression or lookup table alike)
    import copy as _copy
    from ..exprnorm import subst as _subst, fold as _fold, _symconst
    swap = {}
    loops_ = [lp for lp in ast.walk(rc) if isinstance(lp, ast.For) and isinstance(lp.target, ast.Name)
              and any(isinstance(c, ast.Call) and call_name(c) == "Location" for b_ in lp.body for c in ast.walk(b_))]
    if loops_:
        lp = loops_[-1]
        lv = lp.target.id
        sm_it = summarize_block(lp.body)
        lc = next(c for b_ in lp.body for c in ast.walk(b_) if isinstance(c, ast.Call) and call_name(c) == "Location")
        strand_arg = lc.args[2] if len(lc.args) > 2 else next((k.value for k in lc.keywords if k.arg == "strand"), None)
        if strand_arg is not None and not sm_it.unsupported:
            e0 = _subst(strand_arg, sm_it.env)
            for member in ("FORWARD", "REVERSE"):
                e = _copy.deepcopy(e0)

                class _Set(ast.NodeTransformer):
                    def visit_Attribute(self, n):
                        if n.attr == "strand" and isinstance(n.value, ast.Name) and n.value.id == lv:
                            return ast.parse(f"Location.Strand.{member}", mode="eval").body
                        return self.generic_visit(n)
                e = _fold(_Set().visit(e))
                sc = _symconst(e)
                if sc is not None and sc[0] == "member":
                    swap[member] = sc[1].split(".")[-1]
    ctx.ob("R2.strand-swapped", ANN, "AnnotatedSequence.reverse_complement", str(sorted(swap.items())),
           swap == {"FORWARD": "REVERSE", "REVERSE": "FORWARD"}, "strands must be exchanged", rc.lineno)
    # first/last exchange: rev first from loc.last, rev last from loc.first
    fl = {}
    for st in stmts(rc):
        if isinstance(st, ast.Assign) and isinstance(st.targets[0], ast.Name) and st.targets[0].id in ("rev_loc_first", "rev_loc_last"):
            attrs = {x.attr for x in ast.walk(st.value) if isinstance(x, ast.Attribute) and x.attr in ("first", "last")}
            fl[st.targets[0].id] = attrs
    ctx.ob("R2.bounds-exchanged", ANN, "AnnotatedSequence.reverse_complement", str(sorted((k, sorted(v)) for k, v in fl.items())),
           fl == {"rev_loc_first": {"last"}, "rev_loc_last": {"first"}},
           "the new first position derives from the old last position and vice versa", rc.lineno)

    # ---------------- R2 clipping in Annotation.__getitem__ ------------------
    ag = s.func("Annotation.__getitem__")
    # every way a location of the sliced annotation is built: the conditions it is built under and the four arguments of
    # Location(..), with temporaries substituted (calls_under_paths) and conditional expressions decided both ways
    # (split_conditionals) - if-statements with updates, conditional expressions, a local helper or a filtered comprehension
    # give the same set of paths
    from ..exprnorm import calls_under_paths, split_conditionals, canon as _canon, spec as _spec
    from ..facts import conjuncts as _conj
    feat_loops = [lp for lp in ast.walk(ag) if isinstance(lp, ast.For) and any(isinstance(c, ast.Call) and call_name(c) == "Location" for c in ast.walk(lp))]
    ctx.need(bool(feat_loops), "loop over the features in Annotation.__getitem__")
    paths = []
    for conds, c in calls_under_paths(feat_loops[0].body, {"Location"}):
        for conds2, c2 in split_conditionals(conds, c):
            cs = set()
            for t in conds2:
                for part in _conj(t):
                    try:
                        cs.add(repr(_canon(part)))
                    except Exception:
                        cs.add("?")
            args = list(c2.args) + [None] * 4
            kw = {k.arg: k.value for k in c2.keywords}
            a_first, a_last = args[0] or kw.get("first"), args[1] or kw.get("last")
            a_strand, a_defect = args[2] or kw.get("strand"), args[3] or kw.get("defect")
            def cn(e):
                try:
                    return _canon(e) if e is not None else None
                except Exception:
                    return "?"
            paths.append((cs, cn(a_first), cn(a_last), cn(a_strand), cn(a_defect)))
    def K(t):
        parts = _conj(ast.parse(t, mode="eval").body)      # the same normal form the path conditions went through
        assert len(parts) == 1
        return repr(_canon(parts[0]))
    V = _spec
    def flags(d):
        return set(d[1:]) if isinstance(d, tuple) and d and d[0] == "|" else {d}
    ML, MR = V("Location.Defect.MISS_LEFT"), V("Location.Defect.MISS_RIGHT")
    left_yes = [p_ for p_ in paths if K("loc.first < i_first") in p_[0]]
    left_no = [p_ for p_ in paths if K("not loc.first < i_first") in p_[0]]
    right_yes = [p_ for p_ in paths if K("loc.last > i_last") in p_[0]]
    right_no = [p_ for p_ in paths if K("not loc.last > i_last") in p_[0]]
    ctx.ob("R2.clip-left", ANN, "Annotation.__getitem__", f"{len(left_yes)} clipped / {len(left_no)} unclipped paths",
           bool(left_yes) and bool(left_no) and len(left_yes) + len(left_no) == len(paths)
           and all(p_[1] == V("i_first") and ML in flags(p_[4]) for p_ in left_yes)
           and all(p_[1] == V("loc.first") and ML not in flags(p_[4]) for p_ in left_no),
           "MISS_LEFT must be set exactly when loc.first < i_first, clipping first to i_first", ag.lineno)
    ctx.ob("R2.clip-right", ANN, "Annotation.__getitem__", f"{len(right_yes)} clipped / {len(right_no)} unclipped paths",
           bool(right_yes) and bool(right_no) and len(right_yes) + len(right_no) == len(paths)
           and all(p_[2] == V("i_last") and MR in flags(p_[4]) for p_ in right_yes)
           and all(p_[2] == V("loc.last") and MR not in flags(p_[4]) for p_ in right_no),
           "MISS_RIGHT must be set exactly when loc.last > i_last, clipping last to i_last", ag.lineno)
    # i_last = index.stop - 1 (exclusive stop), i_first = index.start
    bounds = {}
    for st in stmts(ag):
        if isinstance(st, ast.Assign) and isinstance(st.targets[0], ast.Name) and st.targets[0].id in ("i_first", "i_last"):
            bounds.setdefault(st.targets[0].id, []).append(ast.unparse(st.value))
    # composed: i_first / i_last as conditional expressions over the slice (if/else statements or conditional expressions)
    sl_branch = next((st for st in ag.body if isinstance(st, ast.If) and "slice" in ast.unparse(st.test)), None)
    ctx.need(sl_branch is not None, "slice branch of Annotation.__getitem__")
    pre = []
    for st in sl_branch.body:
        if isinstance(st, (ast.For, ast.While)):
            break
        pre.append(st)
    benv = summarize_block(pre).env
    ctx.ob("R2.slice-bounds", ANN, "Annotation.__getitem__", str(sorted(bounds.items())),
           same_expr(benv.get("i_first"), "-sys.maxsize if index.start is None else index.start")
           and same_expr(benv.get("i_last"), "sys.maxsize if index.stop is None else index.stop - 1"),
           "inclusive bounds of the slice must be start and stop - 1", ag.lineno)
    # scope test: every location that is built is built under both overlap conditions
    ctx.ob("R2.overlap-test", ANN, "Annotation.__getitem__", "loc.first <= i_last and loc.last >= i_first",
           bool(paths) and all(K("loc.first <= i_last") in p_[0] and K("loc.last >= i_first") in p_[0] and "?" not in p_[0] for p_ in paths)
           and all(len(p_[0]) == 4 for p_ in paths),
           "a location is in scope iff it overlaps the inclusive slice bounds", ag.lineno)
    # the defect accumulates on the original one; strand kept
    ctx.ob("R2.clip-keeps-strand-and-defect", ANN, "Annotation.__getitem__", f"{len(paths)} paths build Location(first, last, loc.strand, loc.defect | ..)",
           bool(paths) and all(p_[3] == V("loc.strand") and V("loc.defect") in flags(p_[4]) and flags(p_[4]) <= {V("loc.defect"), ML, MR} for p_ in paths),
           "the clipped location keeps strand and accumulates on the original defect", ag.lineno)

    # ---------------- R3 copy contract --------------------------------------
    copycontract.check(ctx, idx, ["Feature", "Annotation", "AnnotatedSequence"], "R3", immutable={
        ("AnnotatedSequence", "_seqstart"): "an integer", ("Feature", "_key"): "a string"})
    # locations are kept in frozensets and features in sets: two that differ (in a defect, a strand, a qualifier) must not be equal, or
    # one of them silently vanishes from its container
    from ..lints import equality_covers_state
    equality_covers_state(ctx, ANN, "R3.equality-covers-state", ("Location", "Feature", "Annotation", "AnnotatedSequence"))
    # Feature hands out copies of its mutable parts
    for prop in ("locs", "qual"):
        f = s.func(f"Feature.{prop}")
        r = [x for x in walk_local(f) if isinstance(x, ast.Return)]
        ctx.ob("R3.fresh", ANN, f"Feature.{prop}", ast.unparse(r[0]) if r else "-",
               bool(r) and copycontract.is_fresh(r[0].value) is not False,
               f"Feature.{prop} returns the internal object itself", f.lineno)

    # ---------------- R4 getitem / setitem siblings -------------------------
    gi = s.func("AnnotatedSequence.__getitem__")
    si = s.func("AnnotatedSequence.__setitem__")

    def feature_branch(f):
        for st in f.body:
            if isinstance(st, ast.If) and "Feature" in ast.unparse(st.test):
                return st.body
        raise AnalysisError(f"Feature branch of {f.name}")

    def order_spec(body):
        spec = set()
        for st in body:
            for c in ast.walk(st):
                if isinstance(c, ast.Call) and call_name(c) == "sorted":
                    key = [k.value for k in c.keywords if k.arg == "key"]
                    rev = [k.value for k in c.keywords if k.arg == "reverse"]
                    attr = None
                    if key:
                        # key=lambda loc: loc.first  /  key=attrgetter("first")
                        k0 = key[0]
                        if isinstance(k0, ast.Call) and (call_name(k0) or "").split(".")[-1] == "attrgetter" and len(k0.args) == 1 and isinstance(k0.args[0], ast.Constant):
                            attr = k0.args[0].value
                        else:
                            attrs_ = [x.attr for x in ast.walk(k0) if isinstance(x, ast.Attribute)]
                            ctx.need(len(attrs_) == 1, f"the sort key `{ast.unparse(k0)}` of the location order")
                            attr = attrs_[0]
                    spec.add((attr, bool(rev and getattr(rev[0], "value", False))))
        return spec

    def revcomp_under_reverse(body):
        for st in body:
            for n in ast.walk(st):
                if isinstance(n, ast.If) and "Location.Strand.REVERSE" in ast.unparse(n.test):
                    if any(isinstance(c, ast.Call) and isinstance(c.func, ast.Attribute) and c.func.attr == "complement"
                           and "reverse()" in ast.unparse(c) for b in n.body for c in ast.walk(b)):
                        return True
        return False

    gb, sb = feature_branch(gi), feature_branch(si)
    ctx.ob("R4.same-location-order", ANN, "AnnotatedSequence.__setitem__",
           f"read order {sorted(order_spec(gb))} / write order {sorted(order_spec(sb))}",
           order_spec(gb) == order_spec(sb) and len(order_spec(gb)) == 2,
           "assigning through a Feature walks the locations in a different order than reading through "
           "it: aseq[f] = s followed by aseq[f] does not return s for multi-location features",
           si.lineno)
    ctx.ob("R4.same-strand-handling", ANN, "AnnotatedSequence.__setitem__",
           "reverse-strand parts reverse-complemented when read and when written",
           revcomp_under_reverse(gb) and revcomp_under_reverse(sb),
           "reverse-strand locations are reverse-complemented on reading but written forward", si.lineno)
    # both use the same index arithmetic
    def arith(body):
        out = set()
        for st in body:
            for n in ast.walk(st):
                if isinstance(n, ast.Assign) and isinstance(n.targets[0], ast.Name) and n.targets[0].id in ("slice_start", "slice_stop"):
                    out.add(ast.unparse(n))
        return out
    ctx.ob("R4.same-index-arithmetic", ANN, "AnnotatedSequence.__setitem__", str(sorted(arith(sb))),
           arith(gb) == arith(sb) and len(arith(gb)) == 2,
           "reading and writing through a Feature compute the sequence slice differently", si.lineno)


def _enum_members(clsnode):
    return [st.targets[0].id for st in clsnode.body
            if isinstance(st, ast.Assign) and isinstance(st.targets[0], ast.Name)]


MUTANTS = [
    Mutant("location-eq-ignores-defect", ANN, "            and self.strand == item.strand\n            and self.defect == item.defect\n", "            and self.strand == item.strand\n", "R3.equality-covers-state"),
    Mutant("feature-eq-ignores-qualifiers", ANN, "            and self._locs == item._locs\n            and self._qual == item._qual\n", "            and self._locs == item._locs\n", "R3.equality-covers-state"),
    Mutant("complement-w-s-swapped", "sequence/seqtypes.py", '"W": "W",', '"W": "S",', "R2.complement-iupac"),
    Mutant("annotation-adopts-set", ANN, "        if features is None:\n            self._features = set()\n        else:\n",
           "        if features is None:\n            self._features = set()\n        elif isinstance(features, set):\n            self._features = features\n        else:\n",
           "R3.copy-owns-state", "Annotation.__copy_create__"),
    Mutant("setitem-drops-seqstart", ANN, "                seq_start = index.start - self._seqstart\n            if index.stop is None:\n                seq_stop = len(self._sequence)\n            else:\n                seq_stop = index.stop - self._seqstart\n            # Item is a Sequence",
           "                seq_start = index.start\n            if index.stop is None:\n                seq_stop = len(self._sequence)\n            else:\n                seq_stop = index.stop - self._seqstart\n            # Item is a Sequence",
           "R1.sequence-subscripted-by-index"),
    Mutant("regress-slice-stop", ANN, "index = slice(index.start, seq_stop + self._seqstart, index.step)",
           "index = slice(index.start, seq_stop, index.step)", "R1.annotation-sliced-by-position"),
    Mutant("regress-copy-method", ANN, "self._annotation.copy(), self._sequence.copy(), self._seqstart",
           "self._annotation.copy(), self._sequence.copy, self._seqstart", "R3.method-value"),
    Mutant("mirror-miss-left", ANN, "                    rev_loc_defect |= Location.Defect.MISS_RIGHT\n", "                    rev_loc_defect |= Location.Defect.MISS_LEFT\n",
           "R2.mirror-involution"),
    Mutant("mirror-elif", ANN, "                if loc.defect & Location.Defect.MISS_RIGHT:\n                    rev_loc_defect |= Location.Defect.MISS_LEFT",
           "                elif loc.defect & Location.Defect.MISS_RIGHT:\n                    rev_loc_defect |= Location.Defect.MISS_LEFT", "R2.mirror-tests-independent"),
    Mutant("mirror-drops-between", ANN, "                if loc.defect & Location.Defect.BETWEEN:\n                    rev_loc_defect |= Location.Defect.BETWEEN\n", "",
           "R2.defect-mirrored"),
    Mutant("clip-le", ANN, "                        if loc.first < i_first:", "                        if loc.first <= i_first:", "R2.clip-left"),
    Mutant("ilast-off", ANN, "                i_last = index.stop - 1", "                i_last = index.stop", "R2.slice-bounds"),
    Mutant("regress-setitem-order", ANN, "            for loc in sorted_locs:\n                slice_start = loc.first - self._seqstart\n                # +1 due to exclusive stop\n                slice_stop = loc.last - self._seqstart + 1\n                interval_size",
           "            for loc in index.locs:\n                slice_start = loc.first - self._seqstart\n                # +1 due to exclusive stop\n                slice_stop = loc.last - self._seqstart + 1\n                interval_size",
           "R4.same-location-order") if False else
    Mutant("setitem-no-revcomp", ANN, "                if loc.strand == Location.Strand.REVERSE:\n                    part = part.reverse().complement()\n", "",
           "R4.same-strand-handling"),
    Mutant("revcomp-bounds", ANN, "rev_loc_first = (\n                    (seq_len - 1) - (loc.last - self._seqstart) + rev_seqstart",
           "rev_loc_first = (\n                    (seq_len - 1) - (loc.first - self._seqstart) + rev_seqstart", "R2.bounds-exchanged"),
    Mutant("regress-feature-copy", ANN, "    def __copy_create__(self):\n        return Feature(self._key, self._locs, self._qual)\n\n", "",
           "R3.create-arity", "Feature.__copy_create__"),
    Mutant("regress-setitem-order", ANN, "            for loc in sorted_locs:\n                slice_start = loc.first - self._seqstart\n                # +1 due to exclusive stop\n                slice_stop = loc.last - self._seqstart + 1\n                interval_size",
           "            for loc in locs:\n                slice_start = loc.first - self._seqstart\n                # +1 due to exclusive stop\n                slice_stop = loc.last - self._seqstart + 1\n                interval_size",
           "R4.same-location-order") if False else
    Mutant("setitem-sort-key", ANN, "                sorted_locs = sorted(locs, key=lambda loc: loc.last, reverse=True)\n            else:\n                sorted_locs = sorted(locs, key=lambda loc: loc.first)\n            for loc in sorted_locs:\n                slice_start = loc.first - self._seqstart\n                # +1 due to exclusive stop\n                slice_stop = loc.last - self._seqstart + 1\n                interval_size",
           "                sorted_locs = sorted(locs, key=lambda loc: loc.last)\n            else:\n                sorted_locs = sorted(locs, key=lambda loc: loc.first)\n            for loc in sorted_locs:\n                slice_start = loc.first - self._seqstart\n                # +1 due to exclusive stop\n                slice_stop = loc.last - self._seqstart + 1\n                interval_size",
           "R4.same-location-order"),
    Mutant("getitem-relstart-index", ANN, "                rel_seq_start = index.start\n", "                rel_seq_start = seq_start\n",
           "R1.sequence-start-is-position"),
    Mutant("feature-getitem-no-seqstart", ANN, "                slice_start = loc.first - self._seqstart\n                # +1 due to exclusive stop\n                slice_stop = loc.last - self._seqstart + 1\n                add_seq",
           "                slice_start = loc.first\n                # +1 due to exclusive stop\n                slice_stop = loc.last - self._seqstart + 1\n                add_seq",
           "R1.sequence-subscripted-by-index"),
    # ---- one seeded fault per remaining rule ----
    Mutant("revcomp-last-no-revstart", ANN, "                    (seq_len - 1) - (loc.first - self._seqstart) + rev_seqstart\n",
           "                    (seq_len - 1) - (loc.first - self._seqstart)\n", "R1.location-from-position"),
    Mutant("revcomp-first-no-seqstart", ANN, "                    (seq_len - 1) - (loc.last - self._seqstart) + rev_seqstart\n",
           "                    (seq_len - 1) - loc.last + rev_seqstart\n", "R1.location-from-position"),
    Mutant("clip-keeps-no-defect", ANN, "                        defect = loc.defect\n", "                        defect = Location.Defect.NONE\n",
           "R2.clip-keeps-strand-and-defect"),
    Mutant("clip-drops-strand", ANN, "                        locs_in_scope.append(Location(first, last, loc.strand, defect))\n",
           "                        locs_in_scope.append(Location(first, last, defect=defect))\n", "R2.clip-keeps-strand-and-defect"),
    Mutant("clip-right-ge", ANN, "                        if loc.last > i_last:\n", "                        if loc.last >= i_last:\n", "R2.clip-right"),
    Mutant("clip-right-not-clipped", ANN, "                            defect |= Location.Defect.MISS_RIGHT\n                            last = i_last\n",
           "                            defect |= Location.Defect.MISS_RIGHT\n", "R2.clip-right"),
    Mutant("mirror-starts-from-original", ANN, "                rev_loc_defect = Location.Defect.NONE\n", "                rev_loc_defect = loc.defect\n",
           "R2.mirror-starts-empty"),
    Mutant("overlap-exclusive-stop", ANN, "                    if loc.first <= i_last and loc.last >= i_first:\n", "                    if loc.first < i_last and loc.last >= i_first:\n",
           "R2.overlap-test"),
    Mutant("overlap-or", ANN, "                    if loc.first <= i_last and loc.last >= i_first:\n", "                    if loc.first <= i_last or loc.last >= i_first:\n",
           "R2.overlap-test"),
    Mutant("revcomp-strand-kept", ANN, "                if loc.strand == Location.Strand.FORWARD:\n                    rev_loc_strand = Location.Strand.REVERSE\n",
           "                if loc.strand == Location.Strand.REVERSE:\n                    rev_loc_strand = Location.Strand.REVERSE\n", "R2.strand-swapped"),
    Mutant("feature-qual-shared", ANN, "        return copy.copy(self._qual)\n", "        return self._qual\n", "R3.fresh", "Feature.qual"),
    Mutant("feature-locs-shared", ANN, "        return copy.copy(self._locs)\n", "        return self._locs\n", "R3.fresh", "Feature.locs"),
    Mutant("setitem-feature-stop-inclusive", ANN, "                slice_stop = loc.last - self._seqstart + 1\n                interval_size",
           "                slice_stop = loc.last - self._seqstart\n                interval_size", "R4.same-index-arithmetic"),
]
