"""
C10 - k-mer indices: memory-safety guards of the pointer-array tables and
sibling agreement of the direct and the bucketed table.

R1  guarded index: every subscript of a pointer array by a value that is not a
    loop counter over the array's own shape is preceded by a two-sided check:
    a scalar k-mer parameter by `< 0` and `>= len`, caller-provided k-mer arrays
    by _check_kmer_bounds/_check_multiple_kmer_bounds (dominating), arrays given
    to the private adders/counters by a validator or by create_kmers().
R2  siblings: KmerTable and BucketKmerTable expose the same public methods and
    call the same validators in the same methods.
R3  pickling: every constructor argument is returned by __getnewargs_ex__, the
    pointer array is saved and restored by the paired helpers.
"""

import ast

from ..astutil import call_name, calls, dotted, names_in, param_names, stmts, walk_local
from ..cfg import CFG
from ..core import AnalysisError, Mutant
from ..exprnorm import same_expr
from ..exprnorm import has_code

EXPLANATION = (
    "Classification of every pointer-array subscript in kmertable.pyx (lowered, with C types): loop "
    "counter / guarded parameter / validated array / rule-provided; dominance of validator calls; "
    "sibling comparison of the two table classes; pickling argument agreement."
)
ASSUMPTIONS = [
    "k-mers returned by a SimilarityRule are valid codes (library rules are; a custom rule is the caller's contract)",
    "create_kmers() validates symbol codes (checked in C03 R2)",
]
MIN_OBLIGATIONS = 40

KT = "sequence/align/kmertable.pyx"
VALIDATORS = {"_check_kmer_bounds", "_check_multiple_kmer_bounds"}
PRIVATE_CONSUMERS = {"_count_kmers", "_count_masked_kmers", "_add_kmers", "_add_kmer_selection"}
TABLES = ("KmerTable", "BucketKmerTable")
# public methods that exist only in one class, with reason
ONLY_IN = {
    "n_buckets": "bucket count is specific to the bucketed table",
    "__contains__": "membership needs an exact entry per k-mer, the bucketed table has none",
    "__iter__": "as __contains__", "__reversed__": "as __contains__",
    "from_positions": "direct construction from positions is only offered by the plain table",
}


def ptr_views(low, qual, func):
    decl = low.decls.get(qual, {})
    views = {v for v, t in decl.items() if t.replace(" ", "").startswith("ptr[")}
    for p, t, _ in (low.funcs[qual].params if qual in low.funcs else []):
        if t.replace(" ", "").startswith("ptr["):
            views.add(p)
    return views


def loop_counters(func):
    out = set()
    for st in ast.walk(func):
        if isinstance(st, ast.For) and isinstance(st.target, ast.Name) and isinstance(st.iter, ast.Call) \
                and call_name(st.iter) == "range":
            out.add(st.target.id)
    return out


def _parents(func):
    par = {}
    for p_ in ast.walk(func):
        for ch in ast.iter_child_nodes(p_):
            par[id(ch)] = p_
    return par


def reaching_def(func, par, node, name):
    """nearest definition of `name` that can reach `node`: ('range', For) | ('iter', For) |
    ('assign', value) | ('param', None) - by block structure, flow-insensitive inside a block"""
    anc = []
    x = node
    while id(x) in par:
        x = par[id(x)]
        anc.append(x)
    best = None
    for a in anc:
        if isinstance(a, ast.For) and name in {t.id for t in ast.walk(a.target) if isinstance(t, ast.Name)}:
            kind = "range" if isinstance(a.iter, ast.Call) and call_name(a.iter) == "range" else "iter"
            cand = (a.lineno, kind, a)
            if best is None or cand[0] > best[0]:
                best = cand
    for st in ast.walk(func):
        if isinstance(st, ast.Assign) and len(st.targets) == 1 and isinstance(st.targets[0], ast.Name) \
                and st.targets[0].id == name and st.lineno < node.lineno:
            blk = par.get(id(st))
            if blk is func or any(blk is a for a in anc):
                # the statement's block must enclose the node (same branch)
                body_lists = [getattr(blk, fld, []) for fld in ("body", "orelse", "finalbody")]
                in_same_branch = False
                for lst in body_lists:
                    if isinstance(lst, list) and any(st is y for y in lst):
                        in_same_branch = any(any(z is node for z in ast.walk(y)) for y in lst)
                if in_same_branch:
                    cand = (st.lineno, "assign", st.value)
                    if best is None or cand[0] > best[0]:
                        best = cand
    return best


def classify(func, node, name, params, depth=0):
    par = _parents(func)
    d = reaching_def(func, par, node, name)
    if d is None:
        return "param" if name in params else "unknown"
    _, kind, obj = d
    if kind == "range":
        return "loop-counter"
    if kind == "iter":
        return "param"  # iteration value of caller data: needs an explicit two-sided guard
    e = obj
    e2 = e.left if isinstance(e, ast.BinOp) and isinstance(e.op, ast.Mod) else e
    if isinstance(e2, ast.Name) and depth < 4:
        # continue from the defining statement
        st = next(x for x in ast.walk(func) if isinstance(x, ast.Assign) and x.value is obj)
        return classify(func, st, e2.id, params, depth + 1)
    if isinstance(e2, ast.Subscript) and isinstance(e2.value, ast.Name):
        arr = e2.value.id
        if arr in params:
            return "param-array:" + arr
        if "similar" in arr:
            return "rule-provided"
        st = next(x for x in ast.walk(func) if isinstance(x, ast.Assign) and x.value is obj)
        ad = reaching_def(func, par, st, arr)
        if ad is not None and ad[1] == "assign":
            if any(isinstance(c_, ast.Call) and isinstance(c_.func, ast.Attribute) and c_.func.attr == "create_kmers"
                   for c_ in ast.walk(ad[2])):
                return "produced-by-create_kmers"
            via = [p_ for p_ in names_in(ad[2]) if p_ in params]
            if via:
                return "param-array:" + via[0]
        return "local-array:" + arr
    return "unknown"


def given_alphabet_rule(ctx, rule):
    """a table built with an explicit `alphabet=` is a table over THAT alphabet (codes of other tables and of `match()` arguments are read
    in it): `_compute_alphabet` checks the sequences against the given alphabet and returns it, it does not return what it inferred"""
    from .. import machine
    f = ctx.src(KT).func("_compute_alphabet")
    given = [a.arg for a in f.args.args][0]
    from ..exprnorm import canon as _canon
    k_none = repr(_canon(ast.parse(f"{given} is None", mode="eval").body))
    k_given = repr(_canon(ast.parse(f"{given} is not None", mode="eval").body))
    bad, n = [], 0
    for w in machine.ways(f.body, machine.assigned_names(f)):
        if not (w.exit or "").startswith("return "):
            continue
        if k_given in w.conds or (k_none not in w.conds and any(given in c_ for c_ in w.conds)):
            n += 1
            if w.exit != f"return {given}":
                bad.append(f"`{w.exit}` where an alphabet was given")
    ctx.need(n >= 1, "the return of _compute_alphabet for a given alphabet")
    ctx.ob(rule, KT, "_compute_alphabet", f"return {given} when it is given", not bad,
           "; ".join(bad) + ": the table is built over another alphabet than the caller asked for - its k-mer codes mean other symbols", f.lineno)


def run(ctx):
    given_alphabet_rule(ctx, "R4.given-alphabet-is-the-table-alphabet")
    s = ctx.src(KT)
    low = s.low
    n_sub = 0
    per_class_validators = {}
    for cls in TABLES:
        meths = s.methods(cls)
        per_class_validators[cls] = {}
        for name, f in meths.items():
            qual = f"{cls}.{name}"
            views = ptr_views(low, qual, f)
            counters = loop_counters(f)
            iter_targets = set()
            for st in ast.walk(f):
                if isinstance(st, ast.For) and not (isinstance(st.iter, ast.Call) and call_name(st.iter) == "range"):
                    iter_targets |= {t.id for t in ast.walk(st.target) if isinstance(t, ast.Name)}
            unchecked = any(has_code(d, "boundscheck(False)") for d in f.decorator_list)
            params = param_names(f)[1:] if param_names(f) and param_names(f)[0] == "self" else param_names(f)
            local_src = {}
            for st in stmts(f):
                if isinstance(st, ast.Assign) and len(st.targets) == 1 and isinstance(st.targets[0], ast.Name):
                    local_src.setdefault(st.targets[0].id, []).append(st.value)
            val_calls = [c for c in calls(f) if call_name(c) in VALIDATORS]
            per_class_validators[cls][name] = sorted({(call_name(c), ast.unparse(c.args[0])) for c in val_calls})
            g = None
            for n in walk_local(f):
                if not isinstance(n, ast.Subscript):
                    continue
                base = dotted(n.value)
                if not (base in views or base == "self._ptr_array" or (isinstance(n.value, ast.Name) and n.value.id in views)):
                    continue
                ix = n.slice
                if isinstance(ix, ast.BinOp) and isinstance(ix.op, ast.Mod):
                    ix = ix.left
                if not isinstance(ix, ast.Name):
                    raise AnalysisError(f"{qual}: unrecognised pointer-array index {ast.unparse(n.slice)}")
                n_sub += 1
                name_ix = ix.id
                kind = classify(f, n, name_ix, params)
                origin = name_ix
                if kind == "param":
                    # the guarded name may be the source of an alias (bucket = kmer % n)
                    par_ = _parents(f)
                    d_ = reaching_def(f, par_, n, name_ix)
                    hops = 0
                    while d_ is not None and d_[1] == "assign" and hops < 4:
                        e_ = d_[2].left if isinstance(d_[2], ast.BinOp) and isinstance(d_[2].op, ast.Mod) else d_[2]
                        if not isinstance(e_, ast.Name):
                            break
                        origin = e_.id
                        st_ = next(x for x in ast.walk(f) if isinstance(x, ast.Assign) and x.value is d_[2])
                        d_ = reaching_def(f, par_, st_, origin)
                        hops += 1
                construct = f"{ast.unparse(n)} (index {kind})"
                if kind == "loop-counter":
                    ok_lc = True
                    why_lc = ""
                    if (base or "").endswith("ptr_array"):
                        # a counter that indexes a pointer array runs over exactly the length of a pointer array of the table(s)
                        d_lc = reaching_def(f, _parents(f), n, name_ix)
                        it_ = d_lc[2].iter if d_lc is not None else None
                        ok_lc = isinstance(it_, ast.Call) and call_name(it_) == "range" and len(it_.args) == 1 and not it_.keywords \
                            and isinstance(it_.args[0], ast.Subscript) and isinstance(it_.args[0].value, ast.Attribute) \
                            and it_.args[0].value.attr == "shape" and (dotted(it_.args[0].value.value) or "").endswith("ptr_array") \
                            and isinstance(it_.args[0].slice, ast.Constant) and it_.args[0].slice.value == 0
                        why_lc = f"the counter `{name_ix}` runs over `{ast.unparse(it_) if it_ is not None else '?'}`, not over range(<pointer array>.shape[0])"
                    ctx.ob("R1.index-classified", KT, qual, construct, ok_lc, why_lc, n.lineno, nontrivial=False)
                elif kind == "produced-by-create_kmers":
                    ctx.ob("R1.index-classified", KT, qual, construct, True, nontrivial=False)
                elif kind == "rule-provided":
                    ctx.ob("R1.index-classified", KT, qual, construct, True, nontrivial=False,
                           detail={"assumption": "similarity rule returns valid k-mers"})
                elif kind == "param":
                    lower = upper = False
                    from ..facts import disjuncts as _dj
                    from ..exprnorm import canon as _cn, spec as _sp
                    for st in walk_local(f):
                        if isinstance(st, ast.If) and any(isinstance(b, ast.Raise) for b in st.body):
                            for d_ in _dj(st.test):
                                cd = _cn(d_)
                                if isinstance(cd, tuple) and len(cd) == 3 and cd[0] == "<" and cd[1] == origin and cd[2] == _sp("0"):
                                    lower = True            # origin < 0
                                if isinstance(cd, tuple) and len(cd) == 3 and cd[0] == "<=" and cd[2] == origin:
                                    upper = True            # origin >= <length>
                    ctx.ob("R1.scalar-kmer-two-sided", KT, qual, construct, lower and upper,
                           f"the caller's k-mer code `{origin}` subscripts the pointer array "
                           + ("under boundscheck(False) " if unchecked else "")
                           + f"with {'only an upper' if upper else 'no'} bound check: a negative code "
                           + ("reads in front of the array (segmentation fault or garbage)" if unchecked else
                              "wraps around to another entry (wrong answer) and a code >= len raises IndexError"),
                           n.lineno)
                elif kind.startswith("param-array:"):
                    arr = kind.split(":")[1]
                    if name.startswith("_"):
                        ctx.ob("R1.index-classified", KT, qual, construct + " [private: checked at call sites]", True,
                               nontrivial=False)
                    else:
                        if g is None:
                            g = CFG(f, lambda st: isinstance(st, ast.Raise))
                            dom = g.dominators()
                        node = next((nd for nd in g.nodes if nd.ast is not None and any(x is n for x in ast.walk(nd.ast))
                                     and nd.kind == "stmt" and not isinstance(nd.ast, (ast.For, ast.If, ast.While))), None)
                        vals = [nd.id for nd in g.nodes if nd.ast is not None and nd.kind == "stmt"
                                and any(isinstance(c, ast.Call) and call_name(c) in VALIDATORS and c.args
                                        and ast.unparse(c.args[0]) == arr for c in ast.walk(nd.ast))
                                and isinstance(nd.ast, ast.Expr)]
                        ok = node is not None and any(v in dom.get(node.id, set()) for v in vals)
                        ctx.ob("R1.array-validated", KT, qual, construct, ok,
                               f"k-mer codes from the parameter `{arr}` subscript the pointer array without a "
                               "dominating _check_kmer_bounds call", n.lineno)
                else:
                    ctx.ob("R1.index-classified", KT, qual, construct, kind != "unknown",
                           "origin of this pointer-array index could not be established", n.lineno)
        # call sites of the private consumers
        for name, f in meths.items():
            qual = f"{cls}.{name}"
            validated = set()
            produced = set()
            for st in stmts(f):
                if isinstance(st, ast.Expr) and isinstance(st.value, ast.Call) and call_name(st.value) in VALIDATORS:
                    validated.add(ast.unparse(st.value.args[0]))
                if isinstance(st, ast.Assign) and isinstance(st.targets[0], ast.Name):
                    if any(isinstance(c, ast.Call) and isinstance(c.func, ast.Attribute) and c.func.attr == "create_kmers"
                           for c in ast.walk(st.value)):
                        produced.add(st.targets[0].id)
            for c in calls(f):
                if isinstance(c.func, ast.Attribute) and c.func.attr in PRIVATE_CONSUMERS:
                    # the k-mer array argument: first arg, except _add_kmer_selection (second)
                    arg = c.args[1] if c.func.attr == "_add_kmer_selection" else c.args[0]
                    root = arg.id if isinstance(arg, ast.Name) else None
                    # loop variable over a validated / produced list?
                    src_list = None
                    for st in ast.walk(f):
                        if isinstance(st, ast.For) and any(x is c for x in ast.walk(st)):
                            tnames = [t.id for t in ast.walk(st.target) if isinstance(t, ast.Name)]
                            if root in tnames:
                                it = st.iter
                                args = it.args if isinstance(it, ast.Call) and call_name(it) == "zip" else [it]
                                tl = st.target.elts if isinstance(st.target, ast.Tuple) else [st.target]
                                for t, a in zip(tl, args):
                                    if isinstance(t, ast.Name) and t.id == root:
                                        src_list = ast.unparse(a)
                    ok = (root in validated) or (src_list in validated) or (src_list in produced) or (root in produced)
                    ctx.ob("R1.private-consumer-argument", KT, qual, f"{c.func.attr}({ast.unparse(arg)}) from {src_list or root}", ok,
                           f"{c.func.attr} subscripts the pointer array by these k-mer codes without checking them; "
                           "the caller neither validates them nor obtains them from create_kmers()", c.lineno)
    ctx.floor("pointer-array-subscripts", n_sub, 25)

    # from_positions: explicit two-sided guard
    fp = s.func("KmerTable.from_positions")
    from ..facts import disjuncts as _dj2
    from ..exprnorm import canon as _cn2, spec as _sp2
    two = False
    for st in ast.walk(fp):
        if isinstance(st, ast.If) and any(isinstance(b, ast.Raise) for b in st.body):
            ds = [_cn2(d_) for d_ in _dj2(st.test)]
            lows = {repr(d_[1]) for d_ in ds if isinstance(d_, tuple) and len(d_) == 3 and d_[0] == "<" and d_[2] == _sp2("0")}
            highs = {repr(d_[2]) for d_ in ds if isinstance(d_, tuple) and len(d_) == 3 and d_[0] == "<=" and d_[1] == _sp2("alph_length")}
            two = two or bool(lows & highs)
    ctx.ob("R1.scalar-kmer-two-sided", KT, "KmerTable.from_positions", "kmer < 0 or kmer >= alph_length", two,
           "dictionary keys are caller data and need a two-sided check", fp.lineno)
    # validators themselves
    def own_test(f):
        for st in ast.walk(f):
            if isinstance(st, ast.If) and any(isinstance(b, ast.Raise) and "AlphabetError" in ast.unparse(b) for b in st.body):
                from ..facts import disjuncts as _dj
                from ..exprnorm import canon as _cn, spec as _sp
                lo = hi = None
                for d_ in _dj(st.test):
                    cd = _cn(d_)
                    # element condition  X < 0   /   X >= len(kmer_alphabet)  (canonical: ("<", X, 0) / ("<=", len, X))
                    if isinstance(cd, tuple) and len(cd) == 3 and cd[0] == "<" and cd[2] == _sp("0"):
                        lo = repr(cd[1])
                    if isinstance(cd, tuple) and len(cd) == 3 and cd[0] == "<=" and cd[1] == _sp("len(kmer_alphabet)"):
                        hi = repr(cd[2])
                if lo is not None and lo == hi:
                    return lo
        return None

    sound = {}
    for v in sorted(VALIDATORS):
        f = s.func(v)
        sound[v] = own_test(f) is not None
    for v in sorted(VALIDATORS):
        f = s.func(v)
        ok = sound[v]
        if not ok:
            # delegation: every element of the collection goes through a sound validator with the same alphabet
            for lp in ast.walk(f):
                if isinstance(lp, ast.For) and isinstance(lp.target, ast.Name) and same_expr(lp.iter, param_names(f)[0]):
                    ok = any(isinstance(c_, ast.Call) and call_name(c_) in sound and sound[call_name(c_)] and len(c_.args) == 2
                             and same_expr(c_.args[0], lp.target.id) and same_expr(c_.args[1], param_names(f)[1])
                             for b_ in lp.body for c_ in ast.walk(b_)) and not any(isinstance(x, (ast.Break, ast.Continue, ast.Return)) for x in ast.walk(lp))
        ctx.ob("R1.validator-sound", KT, v, "np.any(kmers < 0) or np.any(kmers >= len(kmer_alphabet))", ok,
               "the validator must reject on both sides (>= for the upper bound), itself or by handing every array to one that does", f.lineno)

    # ---------------- R2 siblings ---------------------------------------------
    pub = {}
    for cls in TABLES:
        pub[cls] = {n for n in s.methods(cls) if not n.startswith("_") or n in ("__getitem__", "__len__", "__eq__", "__contains__", "__iter__", "__reversed__", "__str__")}
    for name in sorted(pub["KmerTable"] ^ pub["BucketKmerTable"]):
        ctx.ob("R2.same-public-interface", KT, name, f"only in {'KmerTable' if name in pub['KmerTable'] else 'BucketKmerTable'}",
               name in ONLY_IN, f"public method {name} exists in one table class only", 1,
               detail={"reason": ONLY_IN.get(name)})
    for name in sorted(pub["KmerTable"] & pub["BucketKmerTable"]):
        a = [v for v, _ in per_class_validators["KmerTable"].get(name, [])]
        b = [v for v, _ in per_class_validators["BucketKmerTable"].get(name, [])]
        ctx.ob("R2.same-validators", KT, name, f"KmerTable {a} / BucketKmerTable {b}", a == b,
               f"{name} validates its k-mers with {a} in KmerTable but with {b} in BucketKmerTable", 1,
               nontrivial=bool(a or b))
        pa = param_names(s.methods("KmerTable")[name])
        pb = [p for p in param_names(s.methods("BucketKmerTable")[name]) if p != "n_buckets"]
        ctx.ob("R2.same-parameters", KT, name, f"{pa}", pa == pb or name == "count",
               f"{name} takes {pa} in KmerTable but {pb} in BucketKmerTable", 1, nontrivial=False)

    # ---------------- R3 pickling ------------------------------------------------
    for cls in TABLES:
        meths = s.methods(cls)
        ci = [p for p in param_names(meths["__cinit__"])[1:]]
        ga = meths["__getnewargs_ex__"]
        ret = [r for r in walk_local(ga) if isinstance(r, ast.Return)][0].value
        tup = ret.elts[0].elts if isinstance(ret, ast.Tuple) and isinstance(ret.elts[0], ast.Tuple) else []
        got = [(dotted(e) or "").replace("self._", "") for e in tup]
        want = [{"kmer_alphabet": "kmer_alph"}.get(p, p) for p in ci]
        ctx.ob("R3.newargs-match-constructor", KT, f"{cls}.__getnewargs_ex__", f"constructor {ci} / pickled {got}", got == want,
               f"unpickling calls {cls}({', '.join(ci)}) with {got}: a constructor argument is not restored", ga.lineno)
        ctx.ob("R3.state-paired", KT, f"{cls}.__setstate__", "_pickle_c_arrays / _unpickle_c_arrays on self._ptr_array",
               "_pickle_c_arrays(self._ptr_array)" in ast.unparse(meths["__getstate__"])
               and "_unpickle_c_arrays(self._ptr_array, state)" in ast.unparse(meths["__setstate__"]),
               "the pointer array must be saved and restored by the paired helpers", meths["__setstate__"].lineno)
        # all cdef attributes are set by __cinit__
        attrs = set(low.decls.get("<class>" + cls, {}))
        assigned = {t.attr for st in stmts(meths["__cinit__"]) if isinstance(st, ast.Assign) for t in st.targets
                    if isinstance(t, ast.Attribute) and dotted(t.value) == "self"}
        ctx.ob("R3.cinit-sets-attributes", KT, f"{cls}.__cinit__", f"attributes {sorted(attrs)}", attrs <= assigned and bool(attrs),
               f"C attributes {sorted(attrs - assigned)} are not initialised by __cinit__ (and therefore not after unpickling)",
               meths["__cinit__"].lineno)

    bucket_rules(ctx, s, low)
    width_and_selector_rules(ctx, s, low)


def nearest_def(func, node, name):
    """the assignment to `name` (or the for-loop that binds it) that precedes `node` most closely in the enclosing blocks"""
    def contains(st):
        return any(x is node for x in ast.walk(st))

    def search(block):
        for k, st in enumerate(block):
            if contains(st):
                inner = None
                for fld in ("body", "orelse", "finalbody"):
                    sub = getattr(st, fld, None)
                    if isinstance(sub, list) and any(contains(b) for b in sub):
                        inner = search(sub)
                if inner is not None:
                    return inner
                if isinstance(st, ast.For) and any(isinstance(x, ast.Name) and x.id == name for x in ast.walk(st.target)) \
                        and any(contains(b) for b in st.body):
                    return st
                for prev in reversed(block[:k]):
                    if isinstance(prev, ast.Assign) and any(isinstance(t, ast.Name) and t.id == name for t in prev.targets):
                        return prev
                    if isinstance(prev, ast.AugAssign) and isinstance(prev.target, ast.Name) and prev.target.id == name:
                        continue             # `ptr += 2`: still the same array
                    if any(isinstance(x, ast.Name) and x.id == name and isinstance(x.ctx, ast.Store) for x in ast.walk(prev)):
                        return prev          # bound inside a compound statement: not a plain definition
                return None
        return None
    return search(func.body)


def bucket_rules(ctx, s, low):
    """R4 (bucketed table): a k-mer is looked for in the bucket it hashes to.  For every comparison `stored == wanted` whose left
    side is read through a bucket pointer of a table, the bucket index is `wanted % n_buckets`, or the loop counter over the
    buckets when `wanted` was itself read from the same-numbered bucket of another table of the same size."""
    n = 0
    for mname, f in s.methods("BucketKmerTable").items():
        qual = f"BucketKmerTable.{mname}"
        views = ptr_views(low, qual, f)
        if not views:
            continue
        for cmp_ in [c for c in walk_local(f) if isinstance(c, ast.Compare) and len(c.ops) == 1 and isinstance(c.ops[0], ast.Eq)
                     and isinstance(c.left, ast.Name) and isinstance(c.comparators[0], ast.Name)]:
            sides = [cmp_.left.id, cmp_.comparators[0].id]

            def through_bucket(name):
                """(pointer variable, bucket index expression, array) if `name` is loaded through a bucket pointer"""
                d = nearest_def(f, cmp_, name)
                if not isinstance(d, ast.Assign):
                    return None
                ptrs = [x.id for x in ast.walk(d.value) if isinstance(x, ast.Name)]
                for pv in ptrs:
                    dp = nearest_def(f, d, pv)
                    if isinstance(dp, ast.Assign) and isinstance(dp.value, ast.Subscript) and (
                            isinstance(dp.value.value, ast.Name) and dp.value.value.id in views or dotted(dp.value.value) == "self._ptr_array"):
                        return pv, dp.value.slice, dotted(dp.value.value), dp
                return None
            info = [through_bucket(x) for x in sides]
            stored = [(sides[k], info[k]) for k in (0, 1) if info[k] is not None]
            if not stored:
                continue
            for k in (0, 1):
                if info[k] is None:
                    continue
                wanted = sides[1 - k]
                pv, bidx, arr, dp = info[k]
                n += 1
                ok = False
                why = ast.unparse(bidx)
                if not isinstance(bidx, ast.Name):
                    ok = same_expr(bidx, f"{wanted} % self._n_buckets")
                else:
                    db = nearest_def(f, dp, bidx.id)
                    if isinstance(db, ast.Assign):
                        ok = same_expr(db.value, f"{wanted} % self._n_buckets")
                        why = ast.unparse(db.value)
                    elif isinstance(db, ast.For):
                        # loop over the buckets: the other side must come from the same-numbered bucket of a table
                        other = info[1 - k]
                        ok = other is not None and isinstance(other[1], ast.Name) and other[1].id == bidx.id
                        why = f"loop counter {bidx.id}"
                ctx.ob("R4.bucket-of-the-kmer", KT, qual, f"{sides[k]} (bucket {why}) == {wanted}", ok,
                       f"`{sides[k]}` is read from bucket `{why}` but compared with `{wanted}`: a k-mer is stored in bucket kmer % n_buckets, "
                       "any other bucket cannot contain it (matches are silently lost)", cmp_.lineno)
    ctx.floor("bucket-comparisons", n, 6)


KA = "sequence/align/kmeralphabet.pyx"
KS = "sequence/align/kmersimilarity.pyx"
SEL = "sequence/align/selector.pyx"
WIDE64 = {"int64", "uint64", "np.int64_t", "np.uint64_t", "Py_ssize_t", "long long"}


def width_and_selector_rules(ctx, s, low):
    from ..exprnorm import summarize, field_of, same_expr as _same, check_spec
    from ..lints import super_init_forwards
    # ---- R5.kmer-arithmetic-64-bit: every declared local that enters the arithmetic of a k-mer code is 64 bits wide (a k-mer
    # code of a nucleotide 17-mer does not fit 32 bits); symbol codes (fused CodeType) are promoted by their 64-bit partner
    ka = ctx.src(KA)
    n = 0
    for q, f in ka.funcs.items():
        decl = ka.low.decls.get(q, {})
        accs = {t.value.id for st in walk_local(f) if isinstance(st, ast.Assign) for t in st.targets
                if isinstance(t, ast.Subscript) and isinstance(t.value, ast.Name) and t.value.id == "kmers"
                for v in [st.value] if isinstance(v, ast.Name)} & set(decl)
        kvars = {x.id for st in walk_local(f) if isinstance(st, ast.Assign) and isinstance(st.targets[0], ast.Subscript)
                 and isinstance(st.targets[0].value, ast.Name) and st.targets[0].value.id == "kmers" for x in [st.value] if isinstance(x, ast.Name)}
        if not kvars:
            continue
        # transitive: names that feed the k-mer variables
        feeding = set(kvars)
        for _ in range(4):
            for st in walk_local(f):
                tg = st.targets[0] if isinstance(st, ast.Assign) else st.target if isinstance(st, ast.AugAssign) else None
                if isinstance(tg, ast.Name) and tg.id in feeding:
                    for x in ast.walk(st.value):
                        if isinstance(x, ast.Name) and x.id in decl:
                            feeding.add(x.id)
        for v in sorted(feeding):
            t = decl.get(v, "").replace("const ", "").strip()
            if not t or t in ("int",) and v in ("k",):
                continue
            base = t.split("[")[0]
            # loop counters used only as subscripts do not enter the value
            used_as_value = any(isinstance(x, ast.Name) and x.id == v and not _only_index(f, x) for x in walk_local(f))
            if not used_as_value:
                continue
            n += 1
            ctx.ob("R5.kmer-arithmetic-64-bit", KA, q, f"{v}: {t}", base in WIDE64 or base in ("CodeType",),
                   f"`{v}` enters the computation of k-mer codes but is declared {t}: the value (a power of the alphabet size, a partial k-mer code) "
                   "wraps at 2^32 for large k", f.lineno)
    ctx.floor("kmer-arithmetic-locals", n, 6)
    # ---- R5.table-entries-unsigned: the position / reference-id arrays behind the pointer arrays are read as uint32
    m = 0
    for cls in TABLES:
        for mname, f in s.methods(cls).items():
            qual = f"{cls}.{mname}"
            views = ptr_views(low, qual, f)
            decl = low.decls.get(qual, {})
            for st in walk_local(f):
                if isinstance(st, ast.Assign) and len(st.targets) == 1 and isinstance(st.targets[0], ast.Name) and isinstance(st.value, ast.Subscript) \
                        and (isinstance(st.value.value, ast.Name) and st.value.value.id in views or dotted(st.value.value) == "self._ptr_array"):
                    v = st.targets[0].id
                    t = decl.get(v, "").replace(" ", "")
                    if not t:
                        continue
                    m += 1
                    # an int64* view is the way the 64-bit length header (element 0) is read
                    header_only = t == "int64*" and all(isinstance(x.slice, ast.Constant) and x.slice.value == 0 for x in walk_local(f)
                                                        if isinstance(x, ast.Subscript) and isinstance(x.value, ast.Name) and x.value.id == v)
                    ctx.ob("R5.table-entries-unsigned", KT, qual, f"{v}: {t}", t == "uint32*" or header_only,
                           f"the arrays behind the pointer array hold uint32 entries (reference ids and positions up to 2^32-1): read through `{t}` "
                           "a large id comes back negative / truncated", st.lineno)
    ctx.floor("pointer-locals", m, 15)
    # ---- R5.bucket-kmer-read-64-bit: a bucket stores (k-mer code: 64 bit, reference id: 32 bit, position: 32 bit) entries; the code
    # that is compared with the wanted k-mer has to be read through an int64 view (a plain `bucket_ptr[j]` is its low half)
    for mname, f in s.methods("BucketKmerTable").items():
        qual = f"BucketKmerTable.{mname}"
        views = ptr_views(low, qual, f)
        decl = low.decls.get(qual, {})
        cast_lines = {ln: ty for ln, ty, q_ in low.casts if q_ == qual}
        for cmp_ in [c for c in walk_local(f) if isinstance(c, ast.Compare) and len(c.ops) == 1 and isinstance(c.ops[0], ast.Eq)
                     and isinstance(c.left, ast.Name) and isinstance(c.comparators[0], ast.Name)]:
            for side in (cmp_.left.id, cmp_.comparators[0].id):
                d = nearest_def(f, cmp_, side)
                if not isinstance(d, ast.Assign) or not isinstance(d.value, ast.Subscript):
                    continue
                ptrs = [x.id for x in ast.walk(d.value.value) if isinstance(x, ast.Name) and decl.get(x.id, "").replace(" ", "") == "uint32*"]
                if not ptrs:
                    continue
                wide = any(cast_lines.get(ln, "").replace(" ", "") == "int64*" for ln in range(d.lineno, (d.end_lineno or d.lineno) + 1))
                ctx.ob("R5.bucket-kmer-read-64-bit", KT, qual, f"{ast.unparse(d)[:60]}", wide,
                       f"`{side}` is the stored k-mer code that is compared with the wanted one, but it is read through the uint32 pointer "
                       f"`{ptrs[0]}` without an <int64*> view: only the low 32 bits are compared (k-mer codes >= 2^32 are never found, others "
                       "are found in their place)", d.lineno)
    # ---- R5.mask-window: the positions of the ignore mask that decide about k-mer i are the positions of k-mer i
    km = s.func("_to_kmer_mask")
    n_mw = 0
    for lp in walk_local(km):
        if not (isinstance(lp, ast.For) and isinstance(lp.target, ast.Name) and any(
                isinstance(st, ast.Assign) and isinstance(st.targets[0], ast.Subscript) and _same(st.targets[0], f"kmer_mask[{lp.target.id}]") for st in lp.body)):
            continue
        iv = lp.target.id
        for sub in [x for b in lp.body for x in ast.walk(b) if isinstance(x, ast.Subscript) and isinstance(x.value, ast.Name) and x.value.id == "mask"
                    and isinstance(x.ctx, ast.Load)]:
            n_mw += 1
            dep = {n_.id for n_ in ast.walk(sub.slice) if isinstance(n_, ast.Name)}
            # names derived from the k-mer position inside the loop (inner loop counters over range(i, ..))
            for inner in [x for b in lp.body for x in ast.walk(b) if isinstance(x, ast.For) and isinstance(x.target, ast.Name)]:
                if inner.target.id in dep and any(isinstance(n_, ast.Name) and n_.id == iv for n_ in ast.walk(inner.iter)):
                    dep.add(iv)
            ctx.ob("R5.mask-window", KT, "_to_kmer_mask", f"kmer_mask[{iv}] <- {ast.unparse(sub)}", iv in dep,
                   f"k-mer {iv} is kept or dropped according to `{ast.unparse(sub)}`, which does not depend on {iv}: every k-mer is judged by the "
                   "same mask positions (spaced k-mers: the first positions of the sequence)", sub.lineno)
    ctx.floor("mask-window-reads", n_mw, 2)
    # ---- R5 similarity rule: the pruning bound of ScoreThresholdRule is the largest score a symbol can reach with ANY partner
    sk = ctx.src(KS).func("ScoreThresholdRule.similar_kmers")
    ms = [st for st in walk_local(sk) if isinstance(st, ast.Assign) and _same(st.targets[0], "max_scores")]
    used = any(isinstance(a, ast.AugAssign) and _same(a.target, "total_max_score") and _same(a.value, "max_scores[split_kmer[i]]") for a in walk_local(sk))
    ctx.ob("R5.pruning-bound-is-row-maximum", KS, "ScoreThresholdRule.similar_kmers", ast.unparse(ms[0].value)[:70] if ms else "?",
           len(ms) == 1 and used and (_same(ms[0].value, "np.max(self._matrix.score_matrix(), axis=-1)") or _same(ms[0].value, "np.max(self._matrix.score_matrix(), axis=1)")
                                      or _same(ms[0].value, "np.max(matrix, axis=-1)") or _same(ms[0].value, "np.max(matrix, axis=1)")),
           "branches are cut when even the best continuation cannot reach the threshold: the bound per symbol must be the maximum of its "
           "matrix row (the diagonal is smaller for symbols like X, similar k-mers are then lost)", sk.lineno)
    # ---- R5 selectors
    super_init_forwards(ctx, SEL, "R5.selector-init-forwards", 1)
    # the alphabet whose symbols are enumerated is the k-mer alphabet's BASE alphabet (the matrix may know more symbols: it is trimmed)
    ctx.ob("R4.similarity-over-base-alphabet", KS, "ScoreThresholdRule.similar_kmers", "alph_len = len(kmer_alphabet.base_alphabet)",
           has_code(sk, "alph_len = len(kmer_alphabet.base_alphabet)"),
           "similar k-mers are enumerated over the symbols of the k-mer alphabet: with the length of the matrix alphabet, symbols that the "
           "k-mer alphabet does not have are enumerated (codes out of range)", sk.lineno)
    # the minimizer scan: the marker for 'no previous minimum' is a position no window can have
    mz = ctx.src(SEL).func("_minimize")
    ctx.ob("R5.minimizer-start-marker", SEL, "_minimize", "prev_argcummin = kmers.shape[0]",
           has_code(mz, "prev_argcummin = kmers.shape[0]"),
           "positions run from 0 to len(kmers) - 1: any smaller start value is the position of a real k-mer, whose minimizer would be taken for "
           "a repetition and dropped", mz.lineno)
    # a spacing model given as positions is a SET of positions: it is sorted before span, k and the k-mer arrays are derived from it
    ki = ka.func("KmerAlphabet.__init__")
    sorts = [k_ for k_, st in enumerate(stmts(ki)) if isinstance(st, ast.Expr) and has_code(st, "self._spacing.sort()")]
    ctx.ob("R5.spacing-sorted", KA, "KmerAlphabet.__init__", "self._spacing.sort() before the model is used",
           len(sorts) == 1 and has_code(ki, "self._spacing = np.array(spacing, dtype=np.int64)"),
           "an unsorted list of informative positions gives a wrong span and k-mer arrays that read beyond the sequence, and an alphabet that "
           "differs from the one of the equivalent string model", ki.lineno)
    # positions handed in by the caller are copied element by element: their memory layout is the caller's business
    fp = s.func("KmerTable.from_positions")
    raw = [c for c in ast.walk(fp) if isinstance(c, ast.Call) and call_name(c) in ("memcpy", "memmove") and any(
        isinstance(y, ast.UnaryOp) and isinstance(y.op, ast.UAdd) and any(isinstance(z, ast.Name) and z.id == "positions" for z in ast.walk(y))
        for a_ in c.args for y in ast.walk(a_))]
    ctx.ob("R5.positions-copied-by-element", KT, "KmerTable.from_positions", "kmer_ptr[0] = positions[i, 0]; kmer_ptr[0] = positions[i, 1]",
           not raw and has_code(fp, "kmer_ptr[0] = positions[i, 0]") and has_code(fp, "kmer_ptr[0] = positions[i, 1]"),
           "a raw memory copy from the address of the first element assumes C-contiguous rows: a strided, transposed or reversed (n, 2) view "
           "is a valid position array", fp.lineno)
    mi = ctx.src(SEL).func("MincodeSelector.__init__")
    th = field_of(summarize(mi), "self", "_threshold")
    ctx.ob("R5.mincode-threshold", SEL, "MincodeSelector.__init__", "offset + range / compression, range = max - min + 1 (or the alphabet size)",
           th is not None and _same(th, "(0 if permutation is None else permutation.min) + "
                                        "(len(kmer_alphabet) if permutation is None else permutation.max - permutation.min + 1) / compression"),
           "a permutation maps onto min..max inclusive: max - min + 1 values; the threshold is the offset plus that range divided by the "
           "compression factor; the code computes " + (ast.unparse(th)[:160] if th is not None else "nothing"), mi.lineno)


def _only_index(func, name_node):
    """is this occurrence of a name merely (part of) a subscript index"""
    for sub in ast.walk(func):
        if isinstance(sub, ast.Subscript) and any(x is name_node for x in ast.walk(sub.slice)):
            return True
    return False


MUTANTS = [
    Mutant("repair-spaced-mask-window", KT, "                if mask[j + offset]:\n", "                if mask[i + offset]:\n", "R5.mask-window", "_to_kmer_mask", kind="repair"),
    Mutant("continuous-mask-window-fixed", KT, "            for j in range(i, i + k):\n                if mask[j]:\n", "            for j in range(0, k):\n                if mask[j]:\n", "R5.mask-window"),
    Mutant("repair-bucket-getitem-64-bit", KT, "                self_kmer = bucket_ptr[j]\n", "                self_kmer = (<int64*>(bucket_ptr + j))[0]\n", "R5.bucket-kmer-read-64-bit",
           "BucketKmerTable.__getitem__", kind="repair"),
    Mutant("bucket-match-low-half", KT, "                            self_kmer = (<int64*>bucket_ptr)[0]\n                            if self_kmer == other_kmer:\n                                # The k-mers are not only in the same\n                                # bucket, but they are actually equal\n                                if match_i >= matches.shape[0]:\n                                    # The 'matches' array is full\n                                    # -> double its size\n                                    matches = expand(np.asarray(matches))\n                                matches[match_i, 0] = i\n",
           "                            self_kmer = bucket_ptr[0]\n                            if self_kmer == other_kmer:\n                                # The k-mers are not only in the same\n                                # bucket, but they are actually equal\n                                if match_i >= matches.shape[0]:\n                                    # The 'matches' array is full\n                                    # -> double its size\n                                    matches = expand(np.asarray(matches))\n                                matches[match_i, 0] = i\n",
           "R5.bucket-kmer-read-64-bit"),
    Mutant("end-radix-uint32", KA, "        cdef int64 end_radix_multiplier = alphabet_length**(k-1)\n", "        cdef uint32 end_radix_multiplier = alphabet_length**(k-1)\n",
           "R5.kmer-arithmetic-64-bit"),
    Mutant("selection-entries-signed", KT, "        cdef int64 length\n        cdef uint32* kmer_ptr\n\n        # Store in new variable\n", "        cdef int64 length\n        cdef int32* kmer_ptr\n\n        # Store in new variable\n", "R5.table-entries-unsigned"),
    Mutant("pruning-bound-diagonal", KS, "        cdef int32[:] max_scores = np.max(self._matrix.score_matrix(), axis=-1)\n",
           "        cdef int32[:] max_scores = np.diag(self._matrix.score_matrix()).copy()\n", "R5.pruning-bound-is-row-maximum"),
    Mutant("cached-syncmer-drops-permutation", SEL, "        super().__init__(alphabet, k, s, permutation, offset)\n", "        super().__init__(alphabet, k, s, offset=offset)\n",
           "R5.selector-init-forwards"),
    Mutant("mincode-range-exclusive", SEL, "            permutation_range = permutation.max - permutation.min + 1\n", "            permutation_range = permutation.max - permutation.min\n",
           "R5.mincode-threshold"),
    Mutant("similar-kmer-wrong-bucket", KT, "                            self_bucket_ptr = <uint32*>self_ptr_array[sim_bucket]\n", "                            self_bucket_ptr = <uint32*>self_ptr_array[bucket]\n",
           "R4.bucket-of-the-kmer", "BucketKmerTable.match_table"),
    Mutant("get-kmers-counter-one-too-far", KT, "        for kmer in range(ptr_array.shape[0]):\n            if <uint32*> (ptr_array[kmer]) != NULL:\n                kmers[i] = kmer", "        for kmer in range(ptr_array.shape[0] + 1):\n            if <uint32*> (ptr_array[kmer]) != NULL:\n                kmers[i] = kmer", "R1.index-classified"),
    Mutant("count-validator-removed", KT, "        else:\n            _check_kmer_bounds(kmers, self._kmer_alph)\n\n            kmer_array = kmers.astype(np.int64, copy=False)",
           "        else:\n            kmer_array = kmers.astype(np.int64, copy=False)", "R1.array-validated"),
    Mutant("bucket-count-validator-removed", KT, "        _check_kmer_bounds(kmers, self._kmer_alph)\n        cdef int64[:] kmer_array = kmers.astype(np.int64, copy=False)",
           "        cdef int64[:] kmer_array = kmers.astype(np.int64, copy=False)", "R1.array-validated"),
    Mutant("from-kmers-validator-removed", KT, "        _check_kmer_alphabet(kmer_alphabet)\n        _check_multiple_kmer_bounds(kmers, kmer_alphabet)\n\n        ref_ids = _compute_ref_ids(ref_ids, kmers)\n        masks = _compute_masks(masks, kmers)\n\n        table = KmerTable(kmer_alphabet)",
           "        _check_kmer_alphabet(kmer_alphabet)\n\n        ref_ids = _compute_ref_ids(ref_ids, kmers)\n        masks = _compute_masks(masks, kmers)\n\n        table = KmerTable(kmer_alphabet)",
           "R1.private-consumer-argument"),
    Mutant("validator-gt", KT, "def _check_kmer_bounds(kmers, kmer_alphabet):\n    \"\"\"\n    Check k-mer codes for out-of-bounds values.\n    \"\"\"\n    if np.any(kmers < 0) or np.any(kmers >= len(kmer_alphabet)):",
           "def _check_kmer_bounds(kmers, kmer_alphabet):\n    \"\"\"\n    Check k-mer codes for out-of-bounds values.\n    \"\"\"\n    if np.any(kmers < 0) or np.any(kmers > len(kmer_alphabet)):",
           "R1.validator-sound"),
    Mutant("bucket-newargs", KT, "        return (self._n_buckets, self._kmer_alph), {}", "        return (self._kmer_alph,), {}", "R3.newargs-match-constructor"),
    Mutant("repair-getitem", KT, "        if kmer >= len(self):\n            raise AlphabetError(\n                f\"k-mer code {kmer} is out of bounds \"\n                f\"for the given KmerAlphabet\"\n            )\n\n        kmer_ptr = <uint32*>self._ptr_array[kmer]",
           "        if kmer < 0 or kmer >= len(self):\n            raise AlphabetError(\n                f\"k-mer code {kmer} is out of bounds \"\n                f\"for the given KmerAlphabet\"\n            )\n\n        kmer_ptr = <uint32*>self._ptr_array[kmer]",
           "R1.scalar-kmer-two-sided", "KmerTable.__getitem__", kind="repair"),
    # ---- one seeded fault per remaining rule ----
    Mutant("count-kmer-off-by-one", KT, "                kmer = kmer_array[i]\n", "                kmer = kmer_array[i] + 1\n", "R1.index-classified", "KmerTable.count"),
    Mutant("bucket-selection-params-swapped", KT,
           "    @cython.cdivision(True)\n    @cython.boundscheck(False)\n    @cython.wraparound(False)\n    def match_kmer_selection(self, positions, kmers):",
           "    @cython.cdivision(True)\n    @cython.boundscheck(False)\n    @cython.wraparound(False)\n    def match_kmer_selection(self, kmers, positions):",
           "R2.same-parameters", "match_kmer_selection"),
    Mutant("bucket-str-dropped", KT,
           "    def __str__(self):\n        return _to_string(self)\n\n\n    def __getnewargs_ex__(self):\n        return (self._n_buckets, self._kmer_alph), {}",
           "    def __getnewargs_ex__(self):\n        return (self._n_buckets, self._kmer_alph), {}", "R2.same-public-interface", "__str__"),
    Mutant("bucket-get-kmers-renamed", KT,
           "                    bucket_ptr += EntrySize.BUCKETS\n\n        return np.asarray(counts)\n\n\n    @cython.boundscheck(False)\n    @cython.wraparound(False)\n    def get_kmers(self):",
           "                    bucket_ptr += EntrySize.BUCKETS\n\n        return np.asarray(counts)\n\n\n    @cython.boundscheck(False)\n    @cython.wraparound(False)\n    def get_kmer_codes(self):",
           "R2.same-public-interface", "get_kmers"),
    Mutant("bucket-from-kmers-single-validator", KT,
           "        _check_multiple_kmer_bounds(kmers, kmer_alphabet)\n\n        ref_ids = _compute_ref_ids(ref_ids, kmers)\n        masks = _compute_masks(masks, kmers)\n\n        if n_buckets is None:",
           "        _check_kmer_bounds(kmers, kmer_alphabet)\n\n        ref_ids = _compute_ref_ids(ref_ids, kmers)\n        masks = _compute_masks(masks, kmers)\n\n        if n_buckets is None:",
           "R2.same-validators", "from_kmers"),
    Mutant("cinit-k-not-set", KT, "        self._k = kmer_alphabet.k\n        self._ptr_array = np.zeros(len(self._kmer_alph), dtype=np.uint64)\n",
           "        self._ptr_array = np.zeros(len(self._kmer_alph), dtype=np.uint64)\n", "R3.cinit-sets-attributes", "KmerTable.__cinit__"),
    Mutant("bucket-cinit-n-buckets-local", KT,
           "        if len(self._kmer_alph) < n_buckets:\n            self._n_buckets = len(self._kmer_alph)\n        else:\n            self._n_buckets = n_buckets\n        self._ptr_array = np.zeros(self._n_buckets, dtype=np.uint64)\n",
           "        if len(self._kmer_alph) < n_buckets:\n            n_buckets = len(self._kmer_alph)\n        self._ptr_array = np.zeros(n_buckets, dtype=np.uint64)\n",
           "R3.cinit-sets-attributes", "BucketKmerTable.__cinit__"),
    Mutant("getstate-raw-pointers", KT, "        return (self._kmer_alph,), {}\n\n\n    def __getstate__(self):\n        return _pickle_c_arrays(self._ptr_array)\n",
           "        return (self._kmer_alph,), {}\n\n\n    def __getstate__(self):\n        return np.asarray(self._ptr_array)\n", "R3.state-paired", "KmerTable.__setstate__"),
    Mutant("bucket-setstate-args-swapped", KT,
           "        return _pickle_c_arrays(self._ptr_array)\n\n    def __setstate__(self, state):\n        _unpickle_c_arrays(self._ptr_array, state)\n",
           "        return _pickle_c_arrays(self._ptr_array)\n\n    def __setstate__(self, state):\n        _unpickle_c_arrays(state, self._ptr_array)\n",
           "R3.state-paired", "BucketKmerTable.__setstate__"),
]
