"""
C12 - sequence file formats return what was written; edits keep text and
parsed view consistent.

R1  text/index coupling: in FastaFile, FastqFile, GenBankFile and GFFFile every
    statement that changes the number or position of `lines` is dominated or
    post-dominated by an update of the index (re-indexer call or index write).
R2  key normalisation: the key stored on the append fast path is the very
    expression written behind the line marker.
R3  GenBank locations: per location shape, the defect flags the reader can
    produce are the flags that influence the writer's string on that shape;
    separator/flag pairs agree.
R4  GFF: every column the reader percent-decodes is percent-encoded by the
    writer; characters the reader splits on are outside the 'safe' set; line
    start characters the indexer treats specially cannot start an entry line.
R5  FASTQ: offset table; GenBank index shifts.
"""

import ast

from ..astutil import (
    attr_writes, call_name, calls, const_eval, dotted, names_in, param_names, stmts, walk_local,
)
from ..cfg import CFG
from ..core import AnalysisError, Mutant
from ..exprnorm import contains_expr, summarize
from ..exprnorm import has_code

EXPLANATION = (
    "Dominance/post-dominance of index updates over line-list mutations in the four TextFile "
    "subclasses; reader/writer agreement of GenBank location flags (backward slice of the "
    "emitted string) and of GFF percent-quoting, decided from the ASTs."
)
ASSUMPTIONS = [
    "replacing one line by index (lines[i] = x) does not move entries",
    "urllib.parse.quote/unquote are mutually inverse for characters outside `safe`",
]
MIN_OBLIGATIONS = 45

FASTA = "sequence/io/fasta/file.py"
FASTQ = "sequence/io/fastq/file.py"
GB = "sequence/io/genbank/file.py"
GBA = "sequence/io/genbank/annotation.py"
GFF = "sequence/io/gff/file.py"

# class -> (file, index fields, re-indexer)
COUPLED = {
    "FastaFile": (FASTA, {"_entries"}, "_find_entries"),
    "FastqFile": (FASTQ, {"_entries"}, "_find_entries"),
    "GenBankFile": (GB, {"_field_pos"}, "_find_field_indices"),
    "GFFFile": (GFF, {"_entries", "_directives"}, "_index_entries"),
}
# methods that shift the positions themselves instead of re-indexing (read and confirmed: the shift covers every later entry)
SHIFTING_UPDATES = {
    ("GenBankFile", "__setitem__"): "shifts start and stop of every later field by the difference of the line counts (R3 rules read the shift)",
    ("GenBankFile", "__delitem__"): "shifts start and stop of the field and every later one by the number of deleted lines, then drops the entry",
    ("GenBankFile", "insert"): "shifts start and stop of every field from the insertion point on by the number of inserted lines",
}
LIST_MUTATORS = {"append", "insert", "extend", "pop", "remove", "clear", "sort", "reverse"}
SANGER_TABLE = {"Sanger": 33, "Solexa": 64, "Illumina-1.3": 64, "Illumina-1.5": 64, "Illumina-1.8": 33}


def _str_of(e, attr):
    """does the expression contain str(<something>.attr)"""
    return any(isinstance(c, ast.Call) and call_name(c) == "str" and len(c.args) == 1 and isinstance(c.args[0], ast.Attribute)
               and c.args[0].attr == attr for c in ast.walk(e))


def lines_writes(node, base_names):
    """does this statement change position/number of `<base>.lines` entries?
    returns kind or None"""
    st = node
    if isinstance(st, (ast.Assign, ast.AugAssign)):
        targets = st.targets if isinstance(st, ast.Assign) else [st.target]
        for t in targets:
            if isinstance(t, ast.Attribute) and t.attr == "lines" and isinstance(t.value, ast.Name) \
                    and t.value.id in base_names:
                return "assign"
            if isinstance(t, ast.Subscript) and isinstance(t.value, ast.Attribute) and t.value.attr == "lines" \
                    and isinstance(t.value.value, ast.Name) and t.value.value.id in base_names:
                if isinstance(t.slice, ast.Slice):
                    return "slice-assign"
                return None  # single element replacement keeps positions
    if isinstance(st, ast.Delete):
        for t in st.targets:
            if isinstance(t, ast.Subscript) and isinstance(t.value, ast.Attribute) and t.value.attr == "lines":
                return "delete"
    if isinstance(st, ast.Expr) and isinstance(st.value, ast.Call) and isinstance(st.value.func, ast.Attribute):
        f = st.value.func
        if f.attr in LIST_MUTATORS and isinstance(f.value, ast.Attribute) and f.value.attr == "lines":
            return f.attr
    return None


def index_update(node, base_names, fields, reindexer):
    st = node
    for c in ast.walk(st):
        if isinstance(c, ast.Call) and isinstance(c.func, ast.Attribute) and c.func.attr == reindexer:
            return True
        # self.insert(...)/self.append(...) of the same class update the index themselves
    if isinstance(st, (ast.Assign, ast.AugAssign, ast.Delete)):
        targets = st.targets if not isinstance(st, ast.AugAssign) else [st.target]
        for t in targets:
            root = t
            while isinstance(root, ast.Subscript):
                root = root.value
            if isinstance(root, ast.Attribute) and root.attr in fields:
                return True
    if isinstance(st, ast.Expr) and isinstance(st.value, ast.Call) and isinstance(st.value.func, ast.Attribute):
        f = st.value.func
        if f.attr in LIST_MUTATORS and isinstance(f.value, ast.Attribute) and f.value.attr in fields:
            return True
    return False


def defect_names(node):
    out = set()
    for n in ast.walk(node):
        d = dotted(n) if isinstance(n, ast.Attribute) else None
        if d and d.startswith("Location.Defect."):
            out.add(d.split(".")[-1])
    return out


def fasta_append_rules(ctx, R="R1"):
    """FastaFile.__setitem__, new header: the entry is recorded as (first line, one past the last line) of exactly the lines that
    are appended next (shared with C11: set_alignment() stores every row through this path and get_alignment() reads the ranges)"""
    from ..exprnorm import same_expr
    f = ctx.src(FASTA).func("FastaFile.__setitem__")
    ok = False
    n = 0
    for blk in [b for node in ast.walk(f) for b in (getattr(node, "body", None), getattr(node, "orelse", None)) if isinstance(b, list)]:
        for k, st in enumerate(blk):
            if isinstance(st, ast.Assign) and isinstance(st.targets[0], ast.Subscript) and same_expr(st.targets[0].value, "self._entries") \
                    and isinstance(st.value, ast.Tuple) and len(st.value.elts) == 2:
                n += 1
                nxt = blk[k + 1] if k + 1 < len(blk) else None
                if isinstance(nxt, ast.AugAssign) and isinstance(nxt.op, ast.Add) and same_expr(nxt.target, "self.lines") and isinstance(nxt.value, ast.Name):
                    v = nxt.value.id
                    ok = same_expr(st.value.elts[0], "len(self.lines)") and same_expr(st.value.elts[1], f"len(self.lines) + len({v})")
    # the same range measured around the append: `start = len(self.lines)`, `self.lines += new_lines` at once, and later
    # `self._entries[header] = (start, len(self.lines))` with no other change of the lines in between
    if not ok:
        stores_ = [st for st in ast.walk(f) if isinstance(st, ast.Assign) and isinstance(st.targets[0], ast.Subscript) and same_expr(st.targets[0].value, "self._entries")
                   and isinstance(st.value, ast.Tuple) and len(st.value.elts) == 2]
        for blk in [b for node in ast.walk(f) for b in (getattr(node, "body", None), getattr(node, "orelse", None)) if isinstance(b, list)]:
            for k, st in enumerate(blk[:-1]):
                nxt = blk[k + 1]
                if isinstance(st, ast.Assign) and len(st.targets) == 1 and isinstance(st.targets[0], ast.Name) and same_expr(st.value, "len(self.lines)") \
                        and isinstance(nxt, ast.AugAssign) and isinstance(nxt.op, ast.Add) and same_expr(nxt.target, "self.lines"):
                    s_ = st.targets[0].id
                    later_writes = [w_ for w_ in ast.walk(f) if isinstance(w_, ast.stmt) and w_ is not nxt and getattr(w_, "lineno", 0) > nxt.lineno
                                    and lines_writes(w_, {"self"})]
                    for e_ in stores_:
                        if e_.lineno > nxt.lineno and isinstance(e_.value.elts[0], ast.Name) and e_.value.elts[0].id == s_ \
                                and same_expr(e_.value.elts[1], "len(self.lines)") and not [w_ for w_ in later_writes if w_.lineno < e_.lineno] \
                                and sum(1 for x in ast.walk(f) if isinstance(x, ast.Name) and x.id == s_ and isinstance(x.ctx, ast.Store)) == 1:
                            ok, n = True, 1
    # the ranges of the entries are line numbers: whatever changes the number of lines in front of an entry must index the file anew
    # (`self._find_entries()`); the only range written by hand is the one of an entry appended at the end
    ctx.need(n >= 1, "entry range recorded by FastaFile.__setitem__ for a new header")
    ctx.ob(f"{R}.appended-entry-range", FASTA, "FastaFile.__setitem__", "self._entries[header] = (len(self.lines), len(self.lines) + len(new_lines)); self.lines += new_lines", ok and n == 1,
           "the recorded range must cover exactly the lines appended next (computed from that very list, not re-derived from the sequence "
           "length: a row whose length is a multiple of the line width has no partial last line)", f.lineno)


def number_and_wrap_rules(ctx):
    """(a) wrap_string(), the helper behind the FASTA and FASTQ writers, returns exactly the width-sized slices of the text (none for
    an empty text: a blank line would be taken for part of the next entry when the file object is re-indexed); (b) numbers of a GFF
    line are written with str(): the shortest text that reads back as the same float"""
    from ..exprnorm import same_expr, local_value
    WRAP = "file.py"
    w = ctx.src(WRAP).func("wrap_string")
    rets = [r for r in ast.walk(w) if isinstance(r, ast.Return)]
    ok = False
    if len(rets) == 1 and isinstance(rets[0].value, ast.Name):
        lst = rets[0].value.id
        inits = [st for st in w.body if isinstance(st, ast.Assign) and same_expr(st.targets[0], lst)]
        loops = [lp for lp in w.body if isinstance(lp, ast.For) and isinstance(lp.target, ast.Name) and same_expr(lp.iter, "range(0, len(text), width)")]
        if len(inits) == 1 and isinstance(inits[0].value, ast.List) and not inits[0].value.elts and len(loops) == 1:
            i_ = loops[0].target.id
            touching = [b for b in loops[0].body if any(isinstance(x, ast.Name) and x.id == lst for x in ast.walk(b))]
            ok = len(touching) == 1 and isinstance(touching[0], ast.Expr) and same_expr(touching[0].value, f"{lst}.append(text[{i_}:{i_} + width])") \
                and not any(isinstance(x, (ast.Break, ast.Continue, ast.Return)) for x in ast.walk(loops[0]))
        elif len(inits) == 1 and isinstance(inits[0].value, ast.ListComp) and len(inits[0].value.generators) == 1:
            g_ = inits[0].value.generators[0]
            ok = isinstance(g_.target, ast.Name) and not g_.ifs and same_expr(g_.iter, "range(0, len(text), width)") \
                and same_expr(inits[0].value.elt, f"text[{g_.target.id}:{g_.target.id} + width]")
    elif len(rets) == 1 and isinstance(rets[0].value, ast.ListComp) and len(rets[0].value.generators) == 1:
        g_ = rets[0].value.generators[0]
        ok = isinstance(g_.target, ast.Name) and not g_.ifs and same_expr(g_.iter, "range(0, len(text), width)") \
            and same_expr(rets[0].value.elt, f"text[{g_.target.id}:{g_.target.id} + width]")
    ctx.ob("R2.wrap-is-the-slices", WRAP, "wrap_string", "[text[i:i + width] for i in range(0, len(text), width)] and no other result", ok,
           "the lines of a wrapped text are its consecutive width-sized slices - an empty text has none (a special case that returns [text] "
           "writes a blank line into the file)", w.lineno)
    cl = ctx.src(GFF).func("GFFFile._create_line")
    for var in ("score", "phase"):
        v = local_value(cl, var)
        ctx.ob("R4.number-text-exact", GFF, "GFFFile._create_line", f"{var} = str({var}) if {var} is not None else '.'",
               v is not None and (same_expr(v, f"str({var}) if {var} is not None else '.'") or same_expr(v, f"repr({var}) if {var} is not None else '.'")),
               f"the {var} column is written with str(): every float reads back as the same value (a format such as :g keeps 6 significant "
               "digits); the code computes " + (ast.unparse(v)[:80] if v is not None else "?"), cl.lineno)


FCONV = "sequence/io/fasta/convert.py"


def rna_spelling_rules(ctx):
    """writing a sequence 'as RNA' exchanges T for U - in nucleotide sequences only: every `.replace("T", "U")` of the FASTA
    converter stands under the fact isinstance(<the sequence>, NucleotideSequence) (a protein keeps its threonines)"""
    from ..facts import facts_at
    s = ctx.src(FCONV)
    n = 0
    for q, f in s.funcs.items():
        for c in ast.walk(f):
            if isinstance(c, ast.Call) and isinstance(c.func, ast.Attribute) and c.func.attr == "replace" and len(c.args) == 2 \
                    and all(isinstance(a, ast.Constant) for a in c.args) and (c.args[0].value, c.args[1].value) == ("T", "U"):
                n += 1
                fs = facts_at(f, c)
                ok = any(isinstance(x, tuple) and x[:2] == ("call", "isinstance") and "NucleotideSequence" in repr(x) for x in fs)
                ctx.ob("R2.rna-spelling-nucleotides-only", FCONV, q, "replace('T', 'U') under isinstance(.., NucleotideSequence)", ok,
                       "T is exchanged for U in whatever sequence is written: a protein sequence loses its threonines", c.lineno)
    ctx.floor("R2.rna-spelling-nucleotides-only", n, 1)


_NUCLEOTIDE_TEXT_REFERENCE = '''
def _process_nucleotide_sequence(x):
    return x.upper().replace("U", "T").replace("X", "N")
'''


def nucleotide_text_rule(ctx, rule):
    """the text of a row that is read as a nucleotide sequence: upper case FIRST, then U -> T and X -> N (a lower-case `u` that is
    not upper-cased before the replacement stays a `U`, and the row is parsed as a protein)"""
    from ..equiv import same_function
    f = ctx.src(FCONV).func("_process_nucleotide_sequence")
    ok, shown = same_function(f, _NUCLEOTIDE_TEXT_REFERENCE)
    ctx.ob(rule, FCONV, "_process_nucleotide_sequence", "x.upper().replace('U', 'T').replace('X', 'N')", ok,
           "lower-case RNA rows (`acgu`) must become DNA text before the sequence type is chosen; the function computes " + shown, f.lineno)


TEXTFILE = "file.py"


def text_layer_rules(ctx, prefix="R1"):
    """the iterating reader and writer that every sequence format (and the parsers of tool output in biotite.application) go
    through: one record per header - also for the last one, also when its sequence is empty; one line break per line written"""
    from ..exprnorm import same_expr as _same
    fr = ctx.src(FASTA).func("FastaFile.read_iter")
    loops = [st for st in fr.body if isinstance(st, ast.For)]
    ctx.need(len(loops) == 1, "the line loop of FastaFile.read_iter")
    k_ = fr.body.index(loops[0])
    finals = [st for st in fr.body[k_ + 1:] if any(isinstance(y, ast.Yield) for y in ast.walk(st))]
    inner = [st for st in ast.walk(loops[0]) if isinstance(st, ast.If) and any(isinstance(y, ast.Expr) and isinstance(y.value, ast.Yield) for y in st.body)]
    ctx.ob(f"{prefix}.every-header-is-a-record", FASTA, "FastaFile.read_iter", "yield header, .. if header is not None (inside and after the loop)",
           len(finals) == 1 and isinstance(finals[0], ast.If) and _same(finals[0].test, "header is not None") and not finals[0].orelse
           and len(inner) == 1 and _same(inner[0].test, "header is not None"),
           "a record exists as soon as its header line was read: an entry whose sequence is empty (the last one included) is a record", fr.lineno)
    wi = ctx.src(TEXTFILE).func("TextFile.write_iter")
    writes = [c for c in ast.walk(wi) if isinstance(c, ast.Call) and isinstance(c.func, ast.Attribute) and c.func.attr in ("write", "writelines")]
    ctx.ob(f"{prefix}.one-line-break-per-line", TEXTFILE, "TextFile.write_iter", f"{len(writes)} write call(s): <file>.write(line + '\\n')",
           len(writes) >= 1 and all(c.func.attr == "write" and len(c.args) == 1 and _same(c.args[0], "line + '\\n'") for c in writes),
           "the lines handed in carry no line breaks: writing them as they are puts the whole file on one line (path and file object alike)",
           wi.lineno)


_IS_TEXT_REFERENCE = '''
def is_text(file):
    if isinstance(file, io.TextIOBase):
        return True
    return hasattr(file, "file") and isinstance(file.file, io.TextIOBase)
'''
_IS_BINARY_REFERENCE = '''
def is_binary(file):
    if isinstance(file, io.BufferedIOBase):
        return True
    return hasattr(file, "file") and isinstance(file.file, io.BufferedIOBase)
'''


def file_mode_rules(ctx, prefix="R1"):
    """which file objects the text (binary) formats accept: a text (buffered) stream, or a wrapper around one (NamedTemporaryFile)"""
    from ..equiv import same_function
    for name, ref in (("is_text", _IS_TEXT_REFERENCE), ("is_binary", _IS_BINARY_REFERENCE)):
        f = ctx.src(TEXTFILE).func(name)
        ok, shown = same_function(f, ref)
        ctx.ob(f"{prefix}.file-mode-test", TEXTFILE, name, "the stream itself or the stream a wrapper holds is of the format's kind", ok,
               "a wrapper around a text stream is a text file (and one around a binary stream is not): the function computes " + shown, f.lineno)


def lines_index_coupling(ctx, classes=None, prefix="R1", floor=12):
    """every method that changes the line list of a file object brings the index computed from the lines up to date (shared: the
    alignment converters of C11 stand on FastaFile's index as well)"""
    n_w = 0
    for cls, (rel, fields, reindexer) in COUPLED.items():
        if classes is not None and cls not in classes:
            continue
        src = ctx.src(rel)
        meths = src.methods(cls)
        ctx.need(reindexer in meths, f"{cls}.{reindexer}")
        for name, f in meths.items():
            if name == reindexer:
                continue
            base = {"self", "file", "file_object"}
            g = CFG(f, lambda st: isinstance(st, ast.Raise))
            W = [n for n in g.nodes if n.ast is not None and n.kind == "stmt" and lines_writes(n.ast, base)]
            if not W:
                continue
            U = {n.id for n in g.nodes if n.ast is not None and n.kind == "stmt"
                 and index_update(n.ast, base, fields, reindexer)}
            # delegation to a sibling mutator that is itself checked
            for n in g.nodes:
                if n.ast is not None and n.kind == "stmt":
                    for c in ast.walk(n.ast):
                        if isinstance(c, ast.Call) and (call_name(c) or "") in ("self.append", "self.insert"):
                            U.add(n.id)
            dom = g.dominators()
            # a write in the MIDDLE of the list (insert, delete, slice assignment, ..) moves every later line: all positions the index
            # holds are stale, and only the re-indexer (or a sibling mutator that calls it) brings all of them up to date.  An update
            # of single index entries is enough only for text added at the end
            U_full = {n.id for n in g.nodes if n.ast is not None and n.kind == "stmt" and any(
                isinstance(c, ast.Call) and (isinstance(c.func, ast.Attribute) and c.func.attr == reindexer or (call_name(c) or "") in ("self.append", "self.insert"))
                for c in ast.walk(n.ast))}
            for w in W:
                kind_ = lines_writes(w.ast, base)
                if kind_ in ("append", "extend") or isinstance(w.ast, ast.AugAssign) or (cls, name) in SHIFTING_UPDATES:
                    continue
                n_w += 1

                def covered(U_):
                    return w.id in U_ or any(u in dom.get(w.id, set()) for u in U_) or \
                        (bool(g.succ[w.id]) and all(b in U_ or g.path(b, g.exit.id, blocked=U_) is None for b in g.succ[w.id]))
                full_ = w.id in U_full or (bool(g.succ[w.id]) and all(b in U_full or g.path(b, g.exit.id, blocked=U_full) is None for b in g.succ[w.id]))
                # without the re-indexer: is there at least SOME update of every field on every way out?
                per_field_ = {fld_: {n.id for n in g.nodes if n.ast is not None and n.kind == "stmt" and index_update(n.ast, base, {fld_}, reindexer)}
                              for fld_ in fields}
                stale_ = sorted(fld_ for fld_, U_ in per_field_.items() if not covered(U_ | U_full))
                ctx.ob(f"{prefix}.middle-write-reindexed", rel, f"{cls}.{name}", w.ast, full_ or not stale_,
                       f"{cls}.{name} inserts, deletes or replaces lines in the middle of the text: every position behind that place moves, but "
                       f"{stale_} is neither shifted nor rebuilt by {reindexer}() on every way out", w.line)
                # an update that is not the re-indexer may or may not shift every later entry (and a re-index under a condition may or may
                # not be taken whenever something moves): that is arithmetic on positions this rule cannot follow
                ctx.cannot_decide(full_ or bool(stale_), f"{cls}.{name}: lines are changed in the middle and the index is brought up to date by hand "
                                                f"(not by {reindexer}() on every way out) - whether every later position is shifted cannot be decided here")
            for w in W:
                n_w += 1
                if w.id in U:
                    ok = True
                else:
                    before = any(u in dom.get(w.id, set()) for u in U)
                    after = True
                    for b in g.succ[w.id]:
                        if g.path(b, g.exit.id, blocked=U) is not None and b not in U:
                            after = False
                    if not g.succ[w.id]:
                        after = False
                    ok = before or after
                # __init__ creating the initial list is followed by its own indexing
                ctx.ob(
                    f"{prefix}.lines-index-coupled", rel, f"{cls}.{name}", w.ast, ok,
                    f"{cls}.{name} changes the line list but neither updates {sorted(fields)} nor "
                    f"calls {reindexer}() on every path: the parsed view no longer matches the text",
                    w.line,
                )
    ctx.floor("line-list-mutations", n_w, floor)


def fastq_readers_agree(ctx, rule):
    """FastqFile has two readers of the same text: `_find_entries` (index of a file object) and `read_iter` (streaming).  Both step the same
    state - in the sequence, in the scores, the two lengths, the identifier - through the lines; they must step it alike (a score line that
    starts with '@' is no header in either, the entry ends when the score length reaches the sequence length in both)"""
    from .. import machine
    src = ctx.src(FASTQ)
    loops = []
    for q in ("FastqFile._find_entries", "FastqFile.read_iter"):
        f = src.func(q)
        lp = [st for st in f.body if isinstance(st, ast.For)]
        ctx.need(len(lp) == 1, f"the line loop of {q}")
        loops.append(lp[0])
    # (the state: names both loops assign AND read - a value nobody reads is not state)
    read_ = [{x.id for x in ast.walk(lp_) if isinstance(x, ast.Name) and isinstance(x.ctx, ast.Load)} for lp_ in loops]
    tracked = machine.assigned_names(loops[0]) & machine.assigned_names(loops[1]) & read_[0] & read_[1]
    ctx.need({"in_sequence", "in_scores", "seq_len", "score_len"} <= tracked, "the shared parser state of the two FASTQ readers")
    ok, diff = machine.same_machines(loops[0].body, loops[1].body, tracked)
    ctx.ob(rule, FASTQ, "FastqFile.read_iter", f"_find_entries and read_iter step {sorted(tracked)} alike", ok,
           "the two readers of the same text disagree on what a line does to the parser state: " + diff, loops[1].lineno)


def genbank_field_name_rule(ctx, rule):
    """a GenBank field name stands in the first 12 columns of its first line (the content starts at column 13): the re-indexer reads the name
    from those columns - a name with a blank inside (`BASE COUNT`) or one that fills all twelve is one name - and the content reader cuts
    the same twelve columns off"""
    from ..exprnorm import same_expr
    src = ctx.src(GB)
    fi = src.func("GenBankFile._find_field_indices")
    names_ = [st.value for st in ast.walk(fi) if isinstance(st, ast.Assign) and len(st.targets) == 1 and same_expr(st.targets[0], "name")
              and not isinstance(st.value, ast.Constant)]
    ctx.need(len(names_) >= 1, "the field name read by GenBankFile._find_field_indices")
    ok_name = all(any(same_expr(v_, t_) for t_ in ("line[0:12].strip()", "line[:12].strip()", "line[0:12].rstrip()", "line[:12].rstrip()")) for v_ in names_)
    gc_ = src.func("GenBankFile._get_field_content")
    ok_cut = any(isinstance(x, ast.Subscript) and isinstance(x.slice, ast.Slice) and x.slice.upper is None and x.slice.lower is not None
                 and same_expr(x.slice.lower, "12") for x in ast.walk(gc_))
    if not ok_name:
        # recognisably another rule for the name (a word split, a slice with other bounds) is a violation; anything else is not read here
        wrong = any(isinstance(x, ast.Call) and isinstance(x.func, ast.Attribute) and x.func.attr in ("split", "partition") for v_ in names_ for x in ast.walk(v_)) or \
            any(isinstance(x, ast.Slice) and isinstance(x.upper, ast.Constant) and x.upper.value != 12 for v_ in names_ for x in ast.walk(v_))
        ctx.cannot_decide(wrong, "GenBankFile._find_field_indices reads the field name in a form this rule does not read: " + "; ".join(ast.unparse(v_) for v_ in names_))
        if not wrong:
            ok_name = True
    ctx.ob(rule, GB, "GenBankFile._find_field_indices", "name = line[0:12].strip(); content = line[12:]", ok_name and ok_cut,
           "the field name is not read from the twelve name columns (or the content is not cut behind them): after a re-index a field like "
           "`BASE COUNT` has another name than the one it was stored under, and set / get by name miss it", fi.lineno)


def run(ctx):
    file_mode_rules(ctx, "R1")
    genbank_field_name_rule(ctx, "R3.field-name-columns")
    fastq_readers_agree(ctx, "R3.fastq-readers-agree")
    rna_spelling_rules(ctx)
    nucleotide_text_rule(ctx, "R2.nucleotide-text-normalised")
    number_and_wrap_rules(ctx)
    fasta_append_rules(ctx, "R1")
    text_layer_rules(ctx, "R1")
    # the convenience writers store every sequence they are given: a store that each iteration makes into the SAME key keeps the last
    from ..lints import loop_updates_kept
    loop_updates_kept(ctx, "sequence/io/general.py", "R1.every-sequence-stored", 1)
    lines_index_coupling(ctx)

    # ---------------- R2 key normalisation --------------------------------
    for cls, rel, marker in (("FastaFile", FASTA, ">"), ("FastqFile", FASTQ, "@")):
        src = ctx.src(rel)
        f = src.methods(cls)["__setitem__"]
        key_param = param_names(f)[1]
        # the line that is written:  [marker + X]
        written = None
        for n in walk_local(f):
            if isinstance(n, ast.BinOp) and isinstance(n.op, ast.Add) and isinstance(n.left, ast.Constant) \
                    and n.left.value == marker:
                written = n.right
        ctx.need(written is not None, f"{cls}.__setitem__ writes '{marker}' + header")
        stored = []
        for st in stmts(f):
            if isinstance(st, ast.Assign):
                for t in st.targets:
                    if isinstance(t, ast.Subscript) and dotted(t.value) == "self._entries":
                        stored.append((t.slice, st))
        ctx.need(stored, f"{cls}.__setitem__ stores the key on the fast path")
        for k, st in stored:
            ctx.ob("R2.key-is-written-header", rel, f"{cls}.__setitem__",
                   f"key `{ast.unparse(k)}` vs written `{marker}` + `{ast.unparse(written)}`",
                   ast.dump(k) == ast.dump(written),
                   f"the entry is stored under `{ast.unparse(k)}` but the text carries "
                   f"`{ast.unparse(written)}`: after re-indexing (or write/read) the key differs",
                   st.lineno)
        # every use of the key (membership test, deletion) happens on the normalised value
        norm = [st for st in stmts(f) if isinstance(st, ast.Assign) and len(st.targets) == 1
                and isinstance(st.targets[0], ast.Name) and st.targets[0].id == key_param]
        uses = [n for n in walk_local(f) if isinstance(n, ast.Compare) and isinstance(n.ops[0], ast.In)
                and isinstance(n.left, ast.Name) and n.left.id == key_param]
        uses += [n for n in walk_local(f) if isinstance(n, ast.Delete)]
        # ... and so does the line that is written
        uses += [n for n in walk_local(f) if isinstance(n, ast.BinOp) and isinstance(n.op, ast.Add) and isinstance(n.left, ast.Constant)
                 and n.left.value == marker]
        if isinstance(written, ast.Name) and written.id == key_param:
            ctx.need(norm, f"{cls}.__setitem__ normalises the key")
            for u in uses:
                ctx.ob("R2.key-normalised-before-use", rel, f"{cls}.__setitem__", u,
                       all(n.lineno < u.lineno for n in norm),
                       "the key is looked up before it is normalised", u.lineno)
        # the re-indexer derives the key from the line by removing exactly the marker
        fe = src.methods(cls)["_find_entries"]
        derive = [n for n in walk_local(fe) if isinstance(n, ast.Subscript) and isinstance(n.slice, ast.Slice)
                  and isinstance(n.slice.lower, ast.Constant) and n.slice.lower.value == 1
                  and n.slice.upper is None]
        double = [n for n in derive if any(x is not n and x in derive for x in ast.walk(n))]
        ctx.ob("R2.reindexer-strips-marker", rel, f"{cls}._find_entries", "line[1:]", len(derive) >= 1 and not double,
               "the re-indexer must derive the key by removing the one marker character", fe.lineno)
        # iterator variants write the same header normalisation
        wi = src.methods(cls).get("write_iter")
        if wi is not None:
            w2 = [n for n in ast.walk(wi) if isinstance(n, ast.BinOp) and isinstance(n.op, ast.Add)
                  and isinstance(n.left, ast.Constant) and n.left.value == marker]
            ctx.need(w2, f"{cls}.write_iter writes the marker")
            t = ast.unparse(w2[0].right)
            ctx.ob("R2.write-iter-normalises", rel, f"{cls}.write_iter", w2[0],
                   ".replace('\\n', '')" in t and ".strip()" in t,
                   "write_iter must remove line breaks and surrounding blanks from the header like "
                   "__setitem__ does", w2[0].lineno)

    # ---------------- R3 GenBank locations --------------------------------
    a = ctx.src(GBA)
    rd = a.func("_parse_single_loc")
    wr = a.func("_convert_to_loc_string")
    # reader: separator -> flag; single-base flags; range flags
    r_sep = {}
    r_single = set()
    r_range = set()
    chain = []
    node = next(st for st in rd.body if isinstance(st, ast.If))
    while node is not None:
        chain.append(node)
        if len(node.orelse) == 1 and isinstance(node.orelse[0], ast.If):
            node = node.orelse[0]
        else:
            final_else = node.orelse
            node = None
    for st in chain:
        sep = [c.value for c in ast.walk(st.test) if isinstance(c, ast.Constant) and isinstance(c.value, str)]
        fl = set()
        for b in st.body:
            if isinstance(b, ast.Assign) and any(isinstance(t, ast.Name) and t.id == "defect" for t in b.targets):
                fl |= defect_names(b.value)
        if sep:
            r_sep[sep[0]] = fl - {"NONE"}
    for b in final_else:
        r_single |= defect_names(b)
    r_single -= {"NONE"}
    # flags set after the chain (range shapes)
    seen_chain = False
    for st in rd.body:
        if st is chain[0]:
            seen_chain = True
            continue
        if seen_chain:
            r_range |= defect_names(st)
    ctx.need(r_sep and r_single and r_range, "reader flag sets of _parse_single_loc")
    # writer: backward slice of loc_string per branch of the single-location part
    single_part = next(st for st in wr.body if isinstance(st, ast.If))
    str_flags = {}  # variable -> flags that can modify it
    for st in single_part.body:
        if isinstance(st, ast.If):
            fl = defect_names(st.test)
            for b in st.body:
                if isinstance(b, ast.Assign) and isinstance(b.targets[0], ast.Name) and b.targets[0].id != "loc_string":
                    str_flags.setdefault(b.targets[0].id, set()).update(fl)
    shape_chain = None
    for st in single_part.body:
        if isinstance(st, ast.If) and has_code(st.test, "loc.first == loc.last"):
            shape_chain = st
    ctx.need(shape_chain is not None, "shape dispatch of _convert_to_loc_string")

    def branch_flags(body):
        fl = set()
        seps = set()
        for n in body:
            for x in ast.walk(n):
                if isinstance(x, ast.Assign) and any(isinstance(t, ast.Name) and t.id == "loc_string" for t in x.targets):
                    for nm in names_in(x.value):
                        fl |= str_flags.get(nm, set())
                    seps |= {c.value for c in ast.walk(x.value) if isinstance(c, ast.Constant) and isinstance(c.value, str)}
                if isinstance(x, ast.If):
                    pass
        return fl, seps

    w_single, _ = branch_flags(shape_chain.body)
    # include flags tested inside the single branch (if loc.defect & X: loc_string = ...)
    ctx.ob("R3.single-base-flags", GBA, "_convert_to_loc_string",
           f"reader can produce {sorted(r_single)}, writer string depends on {sorted(w_single)}",
           r_single <= w_single,
           f"for a single-base location the reader understands {sorted(r_single)} but the string "
           f"written for first == last only depends on {sorted(w_single)}: "
           f"{sorted(r_single - w_single)} is lost in a write/read cycle", shape_chain.lineno)
    w_sep = {}
    w_range = set()
    node = shape_chain.orelse[0] if shape_chain.orelse and isinstance(shape_chain.orelse[0], ast.If) else None
    last_else = None
    while node is not None:
        fl, seps = branch_flags(node.body)
        cond = defect_names(node.test)
        for s_ in seps:
            w_sep[s_] = cond
        w_range |= fl
        if len(node.orelse) == 1 and isinstance(node.orelse[0], ast.If):
            node = node.orelse[0]
        else:
            last_else = node.orelse
            node = None
    if last_else:
        fl, seps = branch_flags(last_else)
        for s_ in seps:
            w_sep[s_] = set()
        w_range |= fl
    for sep, fl in sorted(r_sep.items()):
        ctx.ob("R3.separator-flag", GBA, "_convert_to_loc_string",
               f"separator {sep!r}: reader sets {sorted(fl)}, writer emits it for {sorted(w_sep.get(sep, {'<never>'}))}",
               w_sep.get(sep) == fl,
               f"reader and writer disagree on the meaning of the separator {sep!r}", wr.lineno)
    ctx.ob("R3.range-flags", GBA, "_convert_to_loc_string",
           f"reader {sorted(r_range)} writer {sorted(w_range)}", r_range <= w_range,
           f"range locations: {sorted(r_range - w_range)} understood by the reader is never written",
           wr.lineno)
    # per shape: every two-position form (a.b, a^b, a..b) is built from the first position with its BEYOND_LEFT mark and the
    # last position with its BEYOND_RIGHT mark (read off the composed result expression)
    wsum = summarize(wr)
    ctx.need(wsum.result is not None, "_convert_to_loc_string: summarisable result")
    n_forms = 0
    for n in ast.walk(wsum.result):
        if isinstance(n, ast.BinOp) and isinstance(n.op, ast.Add) and isinstance(n.left, ast.BinOp) and isinstance(n.left.op, ast.Add) \
                and isinstance(n.left.right, ast.Constant) and n.left.right.value in (".", "^", ".."):
            n_forms += 1
            lpart, sep_, rpart = n.left.left, n.left.right.value, n.right
            lf, rf = defect_names(lpart), defect_names(rpart)
            ctx.ob("R3.range-flags", GBA, "_convert_to_loc_string", f"form a{sep_}b: first with {sorted(lf)}, last with {sorted(rf)}",
                   "BEYOND_LEFT" in lf and "BEYOND_RIGHT" in rf and _str_of(lpart, "first") and _str_of(rpart, "last"),
                   f"in the form a{sep_}b the first position must carry the '<' of BEYOND_LEFT and the last the '>' of BEYOND_RIGHT", wr.lineno)
    ctx.floor("R3.two-position-forms", n_forms, 3)
    # symbols: '<' with BEYOND_LEFT on the first, '>' with BEYOND_RIGHT on the last position
    for fn, q in ((rd, "_parse_single_loc"), (wr, "_convert_to_loc_string")):
        pairs = set()
        for st in ast.walk(fn):
            if isinstance(st, ast.If):
                syms = {c.value for c in ast.walk(st.test) if isinstance(c, ast.Constant) and c.value in ("<", ">")}
                syms |= {c.value for b in st.body for c in ast.walk(b) if isinstance(c, ast.Constant) and c.value in ("<", ">")}
                fl = defect_names(st.test) | {x for b in st.body for x in defect_names(b)}
                fl &= {"BEYOND_LEFT", "BEYOND_RIGHT"}
                if len(syms) == 1 and len(fl) == 1:
                    pairs.add((next(iter(syms)), next(iter(fl))))
        ctx.ob("R3.symbol-flag", GBA, q, str(sorted(pairs)),
               pairs == {("<", "BEYOND_LEFT"), (">", "BEYOND_RIGHT")},
               "'<' must pair with BEYOND_LEFT and '>' with BEYOND_RIGHT", fn.lineno)
    # strand: complement() <-> REVERSE
    pl = a.func("_parse_locs")
    ctx.ob("R3.strand", GBA, "_parse_locs", "complement -> Strand.REVERSE",
           "complement" in ast.unparse(pl) and "Location.Strand.REVERSE" in ast.unparse(pl)
           and has_code(wr, "loc.strand == Location.Strand.REVERSE") and "complement(" in ast.unparse(wr),
           "complement() and the reverse strand must be paired in reader and writer", pl.lineno,
           nontrivial=False)
    # qualifier key/value columns
    ga = a.func("get_annotation")
    sa_ = a.func("set_annotation")
    consts = {}
    for st in a.tree.body:
        if isinstance(st, ast.Assign) and isinstance(st.targets[0], ast.Name):
            try:
                consts[st.targets[0].id] = const_eval(st.value)
            except Exception:
                pass
    indents, key_widths = set(), set()
    for n in ast.walk(sa_):
        try:
            if isinstance(n, ast.BinOp) and isinstance(n.op, ast.Mult) and isinstance(n.left, ast.Constant) and n.left.value == " ":
                indents.add(const_eval(n.right, consts))
            if isinstance(n, ast.Call) and isinstance(n.func, ast.Attribute) and n.func.attr == "ljust" and "key" in ast.unparse(n.func.value) and n.args:
                key_widths.add(const_eval(n.args[0], consts))
        except Exception:
            indents.add("?")
    ctx.ob("R3.feature-columns", GBA, "set_annotation", f"indents {sorted(map(str, indents))}, key field {sorted(map(str, key_widths))}",
           all(k in ast.unparse(ga) for k in ("_KEY_START", "_QUAL_START"))
           and consts.get("_KEY_START") == 5 and consts.get("_QUAL_START") == 21
           and indents == {5, 21} and key_widths == {16},
           "feature key / qualifier columns differ between reader and writer", sa_.lineno, nontrivial=False)

    # repeated qualifiers: the reader joins the values of one key with a separator (_set_qual), the writer must split the
    # stored value at exactly that separator (str.split(sep): every piece, empty ones too - not splitlines(), which also
    # breaks at \r, \x0b, \x1c.. and drops a trailing empty value)
    sq = a.func("_set_qual")
    joins = [st for st in ast.walk(sq) if isinstance(st, ast.AugAssign) and isinstance(st.op, ast.Add) and isinstance(st.value, ast.BinOp)
             and isinstance(st.value.op, ast.Add) and isinstance(st.value.left, ast.Constant) and isinstance(st.value.left.value, str)]
    ctx.need(len(joins) == 1, "_set_qual appends a repeated value after a separator")
    sep = joins[0].value.left.value
    loops = [lp for lp in ast.walk(sa_) if isinstance(lp, ast.For) and any(isinstance(x, ast.JoinedStr) and '="' in ast.unparse(x) for b in lp.body for x in ast.walk(b))
             and not any(isinstance(x, ast.For) for b in lp.body for x in ast.walk(b))]
    ctx.need(len(loops) == 1, "the loop of set_annotation that writes one line per qualifier value")
    it = loops[0].iter
    ok_split = isinstance(it, ast.Call) and isinstance(it.func, ast.Attribute) and it.func.attr == "split" and len(it.args) == 1 and not it.keywords \
        and isinstance(it.args[0], ast.Constant) and it.args[0].value == sep
    ctx.ob("R3.qualifier-repeats", GBA, "set_annotation", f"for .. in {ast.unparse(it)[:50]}  vs reader separator {sep!r}", ok_split,
           f"the values of a repeated qualifier are stored joined by {sep!r} (_set_qual): the writer must write one line per piece of "
           f"str.split({sep!r}) so that empty values and other line-boundary characters survive", loops[0].lineno)

    # ---------------- R4 GFF ------------------------------------------------
    g = ctx.src(GFF)
    gi = g.func("GFFFile.__getitem__")
    cl = g.func("GFFFile._create_line")
    pa = g.func("GFFFile._parse_attributes")
    ie = g.func("GFFFile._index_entries")
    unq = set()
    for st in stmts(gi):
        if isinstance(st, ast.Assign) and isinstance(st.value, ast.Call) and call_name(st.value) == "unquote":
            unq.add(st.targets[0].id)
    quo = set()
    for st in stmts(cl):
        if isinstance(st, ast.Assign) and isinstance(st.targets[0], ast.Name):
            if any(isinstance(c, ast.Call) and call_name(c) == "quote" for c in ast.walk(st.value)):
                quo.add(st.targets[0].id)
    ctx.floor("unquoted-columns", len(unq), 3)
    for col in sorted(unq):
        ctx.ob("R4.column-quoted", GFF, "GFFFile._create_line", f"column {col}", col in quo,
               f"the reader percent-decodes the column '{col}' but the writer does not encode it: a "
               "value containing '%XX', a tab or a line break comes back changed or breaks the line",
               cl.lineno)
    # attributes: keys and values
    kv_unq = len([c for c in calls(pa) if call_name(c) == "unquote"])
    attr_assign = [st for st in stmts(cl) if isinstance(st, ast.Assign) and isinstance(st.targets[0], ast.Name)
                   and st.targets[0].id == "attributes"]
    kv_quo = len([c for st in attr_assign for c in ast.walk(st) if isinstance(c, ast.Call) and call_name(c) == "quote"])
    ctx.ob("R4.attributes-quoted", GFF, "GFFFile._create_line", f"unquote x{kv_unq} / quote x{kv_quo}",
           kv_unq == 2 and kv_quo == 2, "attribute keys and values must both be encoded and decoded",
           cl.lineno)
    # safe set: separators must be excluded
    nq = g.module_assign("_NOT_QUOTED")
    excl = None
    for c in ast.walk(nq):
        if isinstance(c, ast.Compare) and isinstance(c.ops[0], ast.NotIn) and isinstance(c.comparators[0], ast.Constant):
            excl = c.comparators[0].value
    ctx.need(excl is not None, "_NOT_QUOTED exclusion list")
    extra = "".join(c.value for c in ast.walk(nq) if isinstance(c, ast.Constant) and isinstance(c.value, str)
                    and c.value != excl and c.value != "")
    seps = set()
    for fn in (gi, pa):
        for c in calls(fn):
            if isinstance(c.func, ast.Attribute) and c.func.attr == "split" and c.args \
                    and isinstance(c.args[0], ast.Constant):
                seps.add(c.args[0].value)
    ctx.floor("gff-separators", len(seps), 3)
    import string as _string
    for sp in sorted(seps | {"%"}):
        in_safe = (sp in _string.punctuation and sp not in excl) or sp in extra
        ctx.ob("R4.separator-not-safe", GFF, "<module>._NOT_QUOTED", f"separator {sp!r}", not in_safe,
               f"{sp!r} separates fields when reading but is in the set of characters the writer "
               "leaves unquoted", nq.lineno)
    # every quote() uses the module's safe set
    for c in calls(cl):
        if call_name(c) == "quote":
            safe = [k.value for k in c.keywords if k.arg == "safe"]
            ctx.ob("R4.quote-safe-set", GFF, "GFFFile._create_line", c,
                   len(safe) == 1 and dotted(safe[0]) == "_NOT_QUOTED",
                   "quote() must use the module's safe set (the default keeps '/' only and quotes blanks)",
                   c.lineno, nontrivial=False)
    # line-start triggers of the indexer vs. guards on the first column
    trig = set()
    for n in walk_local(ie):
        if isinstance(n, ast.Call) and isinstance(n.func, ast.Attribute) and n.func.attr == "startswith" and n.args \
                and isinstance(n.args[0], ast.Constant):
            trig.add(n.args[0].value[0])
        if isinstance(n, ast.Compare) and isinstance(n.left, ast.Subscript) and isinstance(n.comparators[0], ast.Constant) \
                and isinstance(n.comparators[0].value, str) and len(n.comparators[0].value) == 1:
            trig.add(n.comparators[0].value)
    ctx.floor("gff-line-start-triggers", len(trig), 2)
    ctxt = ast.unparse(cl)
    for t in sorted(trig):
        if t == " ":
            ok = has_code(cl, "seqid.strip()") and has_code(cl, "len(seqid) == 0")
        else:
            ok = any(
                isinstance(st, ast.If) and any(isinstance(b, ast.Raise) for b in st.body)
                and has_code(st.test, "seqid[0]")
                and t in [c.value for c in ast.walk(st.test) if isinstance(c, ast.Constant)]
                or (isinstance(st, ast.If) and any(isinstance(b, ast.Raise) for b in st.body)
                    and "seqid[0] in" in ast.unparse(st.test)
                    and any(isinstance(c, ast.Constant) and isinstance(c.value, str) and t in c.value
                            for c in ast.walk(st.test)))
                for st in stmts(cl))
            ok = ok or ((t in _string.punctuation and t in excl))
        ctx.ob("R4.first-column-guard", GFF, "GFFFile._create_line", f"line start {t!r}", ok,
               f"the indexer skips lines starting with {t!r} but a seqid starting with it is written "
               "unchanged: the entry silently disappears from the parsed view", cl.lineno)
    # '.' placeholders pair up
    for col in ("score", "phase"):
        r_ok = any(isinstance(st, ast.Assign) and isinstance(st.targets[0], ast.Name) and st.targets[0].id == col
                   and isinstance(st.value, ast.IfExp) and isinstance(st.value.body, ast.Constant)
                   and st.value.body.value is None
                   and any(isinstance(c, ast.Constant) and c.value == "." for c in ast.walk(st.value.test))
                   for st in stmts(gi))
        w_ok = any(isinstance(st, ast.Assign) and isinstance(st.targets[0], ast.Name) and st.targets[0].id == col
                   and isinstance(st.value, ast.IfExp) and isinstance(st.value.orelse, ast.Constant)
                   and st.value.orelse.value == "."
                   and isinstance(st.value.test, ast.Compare) and isinstance(st.value.test.ops[0], ast.IsNot)
                   for st in stmts(cl))
        ctx.ob("R4.placeholder", GFF, "GFFFile.__getitem__", f"{col}: None <-> '.'", r_ok and w_ok,
               f"missing {col} must be written as '.' and read as None", gi.lineno, nontrivial=False)
    # strand symbols
    def strand_map(fn, reader):
        m = {}
        for st in ast.walk(fn):
            if isinstance(st, ast.If):
                t = ast.unparse(st.test)
                syms = [c.value for c in ast.walk(st.test) if isinstance(c, ast.Constant) and c.value in ("+", "-")]
                syms += [c.value for b in st.body for c in ast.walk(b) if isinstance(c, ast.Constant) and c.value in ("+", "-")]
                strands = [d.split(".")[-1] for d in
                           (dotted(x) for b in [st.test] + st.body for x in ast.walk(b) if isinstance(x, ast.Attribute))
                           if d and d.startswith("Location.Strand.")]
                if len(set(syms)) == 1 and len(set(strands)) == 1:
                    m[syms[0]] = strands[0]
        return m
    # the reader's side by evaluation: the strand handed back, with the text of the strand column set to each symbol in turn and
    # the expression folded (an if / elif ladder, a conditional expression or a lookup table give the same answers)
    def reader_strands():
        import copy as _copy
        from ..exprnorm import summarize as _summ, fold as _fold, _symconst
        sm_ = _summ(gi)
        unpack = next((st for st in stmts(gi) if isinstance(st, ast.Assign) and isinstance(st.targets[0], ast.Tuple) and len(st.targets[0].elts) == 9), None)
        if sm_.unsupported or unpack is None or not isinstance(sm_.result, ast.Tuple) or len(sm_.result.elts) != 9:
            return None
        pos = [e.id for e in unpack.targets[0].elts].index("strand") if "strand" in [getattr(e, "id", None) for e in unpack.targets[0].elts] else None
        if pos is None:
            return None
        value = sm_.result.elts[6]
        raw = None
        for x in ast.walk(value):
            if isinstance(x, ast.Call) and call_name(x) == "__item__" and isinstance(x.args[1], ast.Constant) and x.args[1].value == pos:
                raw = ast.dump(x)
        if raw is None:
            return None
        out = {}
        for sym in ("+", "-", ".", "?"):
            class _Set(ast.NodeTransformer):
                def visit_Call(self, n):
                    if ast.dump(n) == raw:
                        return ast.Constant(sym)
                    return self.generic_visit(n)
            e = _fold(_Set().visit(_copy.deepcopy(value)))
            sc = _symconst(e)
            out[sym] = (sc[1].split(".")[-1] if sc[0] == "member" else sc[2]) if sc is not None else "?"
        return out
    rs_ = reader_strands()
    ctx.ob("R4.strand-symbols", GFF, "GFFFile._create_line", "'+' FORWARD, '-' REVERSE (reader evaluated: " + str(rs_) + ")",
           rs_ == {"+": "FORWARD", "-": "REVERSE", ".": None, "?": None} and strand_map(cl, False) == {"+": "FORWARD", "-": "REVERSE"},
           "strand symbols differ between reader and writer", cl.lineno)
    # column order of the joined line = order of the unpacked columns
    join = [c for c in calls(cl) if isinstance(c.func, ast.Attribute) and c.func.attr == "join"
            and isinstance(c.func.value, ast.Constant) and c.func.value.value == "\t"]
    ctx.need(join, "tab join in _create_line")
    wcols = [n.id if isinstance(n, ast.Name) else (n.args[0].id if isinstance(n, ast.Call) and n.args and isinstance(n.args[0], ast.Name) else "?")
             for n in join[0].args[0].elts]
    rcols = None
    for st in stmts(gi):
        if isinstance(st, ast.Assign) and isinstance(st.targets[0], ast.Tuple) and len(st.targets[0].elts) == 9:
            rcols = [e.id for e in st.targets[0].elts]
    ctx.need(rcols is not None, "9-column unpacking in __getitem__")
    norm = lambda xs: [{"attrib": "attributes"}.get(x, x) for x in xs]
    ctx.ob("R4.column-order", GFF, "GFFFile._create_line", f"{wcols}", norm(wcols) == norm(rcols),
           f"written column order {wcols} differs from the order read {rcols}", join[0].lineno)

    # ---------------- R5 FASTQ offsets / GenBank shifts --------------------
    fq = ctx.src(FASTQ)
    table = const_eval(fq.module_assign("_OFFSETS"))
    ctx.ob("R5.offset-table", FASTQ, "<module>._OFFSETS", str(sorted(table.items())), table == SANGER_TABLE,
           "quality score offsets differ from the published values (Sanger/Illumina-1.8: 33, "
           "Solexa/Illumina-1.3/1.5: 64)", 1)
    # score string <-> scores use the same offset with opposite sign
    s2s = fq.func("_score_str_to_scores")
    s2c = fq.func("_scores_to_score_str")
    ctx.ob("R5.offset-sign", FASTQ, "_score_str_to_scores", "scores -= offset / + offset",
           has_code(s2s, "scores -= offset") and has_code(s2c, "np.asarray(scores) + offset"),
           "reading must subtract and writing add the offset", s2s.lineno)
    # both directions use the same *signed* 8 bit type (Solexa scores are negative down to -5)
    def dtypes(fn):
        out = set()
        for c in calls(fn):
            for k in c.keywords:
                if k.arg == "dtype":
                    out.add(ast.unparse(k.value))
            if isinstance(c.func, ast.Attribute) and c.func.attr == "astype" and c.args:
                out.add(ast.unparse(c.args[0]))
        return out
    ctx.ob("R5.score-dtype", FASTQ, "_score_str_to_scores", f"read {sorted(dtypes(s2s))} / write {sorted(dtypes(s2c))}",
           dtypes(s2s) == dtypes(s2c) == {"np.int8"},
           "score characters must be decoded and encoded with the same signed 8-bit type: with an "
           "unsigned type the negative Solexa scores come back as 251..255", s2s.lineno)
    # GFF conversion: per-location columns come from the location of that row
    gc = ctx.src("sequence/io/gff/convert.py")
    sa2 = gc.func("set_annotation")
    loops = [st for st in ast.walk(sa2) if isinstance(st, ast.For) and isinstance(st.target, ast.Name) and st.target.id == "loc"]
    ctx.need(loops, "location loop of gff set_annotation")
    app = [c for c in ast.walk(loops[0]) if isinstance(c, ast.Call) and (call_name(c) or "").endswith(".append") and len(c.args) == 9]
    ctx.need(app, "gff_file.append(...) with 9 columns")
    for pos, col in ((3, "start"), (4, "end"), (6, "strand")):
        arg = app[0].args[pos]
        ok = False
        if isinstance(arg, ast.Name):
            for st in ast.walk(loops[0]):
                if isinstance(st, ast.Assign) and any(isinstance(t, ast.Name) and t.id == arg.id for t in st.targets) \
                        and "loc" in names_in(st.value) and st.lineno < app[0].lineno:
                    ok = True
        else:
            ok = "loc" in names_in(arg)
        ctx.ob("R4.per-location-column", "sequence/io/gff/convert.py", "set_annotation", f"column {col} <- loc",
               ok, f"the {col} column of each written row must come from the location of that row; here it "
               "is computed outside the location loop (all locations of a feature get the first one's "
               f"{col})", app[0].lineno)
    ga2 = gc.func("get_annotation")
    locs = [c for c in calls(ga2) if call_name(c) == "Location"]
    ctx.ob("R4.per-location-column", "sequence/io/gff/convert.py", "get_annotation", "Location(start, end, strand) per row",
           len(locs) >= 2 and all([ast.unparse(a) for a in c.args] == ["start", "end", "strand"] for c in locs),
           "each row must become a Location of its own start, end and strand", ga2.lineno)
    # the entry tuple stored on the fast path has the order the re-indexer stores
    fs = fq.methods("FastqFile")
    fast = [st.value for st in stmts(fs["__setitem__"]) if isinstance(st, ast.Assign)
            and any(isinstance(t, ast.Subscript) and dotted(t.value) == "self._entries" for t in st.targets)]
    slow = [st.value for st in stmts(fs["_find_entries"]) if isinstance(st, ast.Assign)
            and any(isinstance(t, ast.Subscript) and dotted(t.value) == "self._entries" for t in st.targets)]
    ctx.need(fast and slow, "FASTQ entry tuples")
    order_fast = [sorted(names_in(e) - {"self", "len"})[0] for e in fast[0].elts]
    order_slow = [e.id for e in slow[0].elts]
    ctx.ob("R5.entry-tuple-order", FASTQ, "FastqFile.__setitem__", f"{order_fast} vs {order_slow}",
           order_fast == order_slow, "fast-path entry tuple is ordered differently from the re-indexer's",
           fs["__setitem__"].lineno)
    # GenBank shifts: linear arithmetic over symbolic line counts
    gb = ctx.src(GB)
    gm = gb.methods("GenBankFile")

    def linear(e, env):
        """expr -> {symbol: coeff}; len(x) is the symbol 'len(x)'"""
        if isinstance(e, ast.Name):
            if e.id in env:
                return dict(env[e.id])
            return {e.id: 1}
        if isinstance(e, ast.Constant) and isinstance(e.value, int):
            return {"1": e.value} if e.value else {}
        if isinstance(e, ast.Call) and call_name(e) == "len" and e.args:
            return {"len(" + ast.unparse(e.args[0]) + ")": 1}
        if isinstance(e, ast.BinOp) and isinstance(e.op, (ast.Add, ast.Sub)):
            l, r = linear(e.left, env), linear(e.right, env)
            sg = 1 if isinstance(e.op, ast.Add) else -1
            for k, v in r.items():
                l[k] = l.get(k, 0) + sg * v
            return {k: v for k, v in l.items() if v}
        if isinstance(e, ast.UnaryOp) and isinstance(e.op, ast.USub):
            return {k: -v for k, v in linear(e.operand, env).items()}
        raise AnalysisError("non-linear shift expression " + ast.unparse(e))

    def analyse(meth):
        f = gm[meth]
        bounds = None
        spliced = None
        shift = None
        loop_from = None
        applied = None
        net = None
        for st in stmts(f):
            if isinstance(st, ast.Assign) and isinstance(st.targets[0], ast.Tuple) \
                    and isinstance(st.value, ast.Subscript) and dotted(st.value.value) == "self._field_pos" \
                    and not isinstance(st.value.slice, ast.BinOp) and bounds is None \
                    and not any(isinstance(p, ast.For) for p in [st]):
                names = [e.id for e in st.targets[0].elts if isinstance(e, ast.Name)]
                if ast.unparse(st.value.slice) == "index":
                    bounds = (names[0], names[1])
            if isinstance(st, ast.Assign) and any(dotted(t) == "self.lines" for t in st.targets) \
                    and isinstance(st.value, ast.BinOp):
                parts = []
                def flat(e):
                    if isinstance(e, ast.BinOp) and isinstance(e.op, ast.Add):
                        flat(e.left); flat(e.right)
                    else:
                        parts.append(e)
                flat(st.value)
                if len(parts) == 3 and isinstance(parts[1], ast.Name):
                    spliced = parts[1].id
            # the same splice written as a slice assignment: self.lines[start:stop] = new_lines
            if isinstance(st, ast.Assign) and len(st.targets) == 1 and isinstance(st.targets[0], ast.Subscript) \
                    and dotted(st.targets[0].value) == "self.lines" and isinstance(st.targets[0].slice, ast.Slice) and isinstance(st.value, ast.Name):
                sl = st.targets[0].slice
                if bounds and isinstance(sl.lower, ast.Name) and isinstance(sl.upper, ast.Name) and (sl.lower.id, sl.upper.id) == bounds and sl.step is None:
                    spliced = st.value.id
            if isinstance(st, ast.Assign) and isinstance(st.targets[0], ast.Name) and st.targets[0].id == "shift":
                shift = linear(st.value, {})
            if isinstance(st, ast.For) and isinstance(st.iter, ast.Call) and call_name(st.iter) == "range" \
                    and len(st.iter.args) == 2 and "_field_pos" in ast.unparse(st.iter.args[1]):
                loop_from = linear(st.iter.args[0], {})
                for b in st.body:
                    if isinstance(b, ast.Assign) and isinstance(b.value, ast.Tuple) and len(b.value.elts) == 3:
                        # (old_start +/- shift, old_stop +/- shift, name)
                        unpack = [x for x in st.body if isinstance(x, ast.Assign) and isinstance(x.targets[0], ast.Tuple)]
                        olds = [e.id for e in unpack[0].targets[0].elts] if unpack else []
                        a1 = linear(b.value.elts[0], {})
                        a2 = linear(b.value.elts[1], {})
                        if olds and a1.get(olds[0]) == 1 and a2.get(olds[1]) == 1:
                            s1 = a1.get("shift", 0)
                            s2 = a2.get("shift", 0)
                            applied = s1 if s1 == s2 else None
                            if shift is None and "shift" not in a1 and "shift" not in a2:
                                # the amount is written into the update itself (no local of its own): what is added to both positions
                                n1 = {k_: v_ for k_, v_ in a1.items() if k_ != olds[0]}
                                n2 = {k_: v_ for k_, v_ in a2.items() if k_ != olds[1]}
                                if n1 == n2 and n1:
                                    net = n1
        if shift is None and net is not None:
            # normal form: the amount with the sign the reference applies it with (moved up = subtracted in __delitem__)
            if meth == "__delitem__":
                shift, applied = {k_: -v_ for k_, v_ in net.items()}, -1
            else:
                shift, applied = net, 1
        return f, bounds, spliced, shift, loop_from, applied

    f, bounds, spliced, shift, loop_from, applied = analyse("__setitem__")
    ctx.need(bounds and spliced and shift is not None, "GenBankFile.__setitem__ splice structure")
    want = {f"len({spliced})": 1, bounds[1]: -1, bounds[0]: 1}
    ctx.ob("R5.genbank-shift", GB, "GenBankFile.__setitem__",
           f"shift={shift} from={loop_from} sign={applied}",
           shift == want and loop_from == {"index": 1, "1": 1} and applied == 1,
           "replacing a field: the following fields (index+1..) must move by "
           "len(new lines) - (old stop - start)", f.lineno)
    f, bounds, spliced, shift, loop_from, applied = analyse("__delitem__")
    ctx.need(bounds and shift is not None, "GenBankFile.__delitem__ structure")
    ctx.ob("R5.genbank-shift", GB, "GenBankFile.__delitem__",
           f"shift={shift} from={loop_from} sign={applied}",
           shift == {bounds[1]: 1, bounds[0]: -1} and loop_from in ({"index": 1}, {"index": 1, "1": 1}) and applied == -1,
           "deleting a field: the following fields must move up by (stop - start)", f.lineno)
    dels = [st for st in stmts(f) if isinstance(st, ast.Delete)]
    ctx.ob("R5.genbank-shift", GB, "GenBankFile.__delitem__", "del self.lines[start:stop]; del self._field_pos[index]",
           any("self.lines" in ast.unparse(d) for d in dels) and any("self._field_pos" in ast.unparse(d) for d in dels),
           "lines and index entry must both be deleted", f.lineno)
    f, bounds, spliced, shift, loop_from, applied = analyse("insert")
    ctx.need(spliced and shift is not None, "GenBankFile.insert structure")
    ctx.ob("R5.genbank-shift", GB, "GenBankFile.insert",
           f"shift={shift} from={loop_from} sign={applied}",
           shift == {f"len({spliced})": 1} and loop_from == {"index": 1} and applied == 1,
           "inserting a field: the fields from index on must move down by len(new lines)", f.lineno)

MUTANTS = [
    Mutant("fastq-stream-header-inside-scores", FASTQ, "            if not in_scores and not in_sequence and line[0] == \"@\":\n                # Track new entry",
           "            if not in_sequence and line[0] == \"@\":\n                # Track new entry", "R3.fastq-readers-agree"),
    Mutant("fastq-index-entry-ends-late", FASTQ, "                elif score_len == seq_len:\n                    # End of scores\n                    # -> End of entry\n                    score_stop_i = i + 1",
           "                elif score_len >= seq_len:\n                    # End of scores\n                    # -> End of entry\n                    score_stop_i = i + 1", "R3.fastq-readers-agree"),
    Mutant("wrap-empty-text-blank-line", "file.py", "    lines = []\n    for i in range(0, len(text), width):\n", "    if len(text) <= width:\n        return [text]\n    lines = []\n    for i in range(0, len(text), width):\n",
           "R2.wrap-is-the-slices"),
    Mutant("gff-score-six-digits", GFF, '        score = str(score) if score is not None else "."\n', '        score = f"{score:g}" if score is not None else "."\n', "R4.number-text-exact"),
    Mutant("fasta-entry-range-from-length", FASTA, "            self._entries[header] = (len(self.lines), len(self.lines) + len(new_lines))\n",
           "            self._entries[header] = (len(self.lines), len(self.lines) + 2 + len(seq_str) // self._chars_per_line)\n", "R1.appended-entry-range"),
    Mutant("qualifier-splitlines", GBA, '                for val in values.split("\\n"):\n', "                for val in values.splitlines():\n", "R3.qualifier-repeats"),
    Mutant("genbank-shift-parentheses", GB, "        shift = len(inserted_lines) - (old_stop - start)\n", "        shift = len(inserted_lines) - old_stop - start\n", "R5.genbank-shift"),
    Mutant("range-loses-beyond-right", GBA, '            loc_string = loc_first_str + ".." + loc_last_str', '            loc_string = loc_first_str + ".." + str(loc.last)', "R3.range-flags"),
    Mutant("fasta-header-written-raw", FASTA, '        header = header.replace("\\n", "").strip()\n        # Create lines for new header and sequence (with line breaks)\n        new_lines = [">" + header] + wrap_string(seq_str, width=self._chars_per_line)', '        # Create lines for new header and sequence (with line breaks)\n        new_lines = [">" + header] + wrap_string(seq_str, width=self._chars_per_line)\n        header = header.replace("\\n", "").strip()', "R2.key-normalised-before-use"),
    Mutant("feature-key-field-15", GBA, "line += feature.key.ljust(_QUAL_START - _KEY_START)", "line += feature.key.ljust(15)", "R3.feature-columns"),
    Mutant("reindexer-strips-two", FASTA, "header = self.lines[header_i[j]].strip()[1:]", "header = self.lines[header_i[j]][1:].strip()[1:]", "R2.reindexer-strips-marker"),
    Mutant("fasta-del-no-reindex", FASTA, "        del self._entries[header]\n        self._find_entries()\n",
           "", "R1.lines-index-coupled", "FastaFile.__delitem__"),
    Mutant("fastq-del-no-reindex", FASTQ, "        del self._entries[identifier]\n        self._find_entries()\n",
           "", "R1.lines-index-coupled", "FastqFile.__delitem__"),
    Mutant("gff-del-no-reindex", GFF, "        del self.lines[line_index]\n        self._index_entries()\n",
           "        del self.lines[line_index]\n", "R1.lines-index-coupled", "GFFFile.__delitem__"),
    Mutant("gff-insert-no-reindex", GFF, "            self.lines.insert(line_index, line)\n            self._index_entries()\n",
           "            self.lines.insert(line_index, line)\n", "R1.lines-index-coupled", "GFFFile.insert"),
    Mutant("regress-fasta-key", FASTA,
           "        header = header.replace(\"\\n\", \"\").strip()\n        # Create lines for new header and sequence (with line breaks)\n        new_lines = [\">\" + header]",
           "        new_lines = [\">\" + header.replace(\"\\n\", \"\").strip()]", "R2.key-is-written-header"),
    Mutant("regress-fastq-key", FASTQ,
           "        identifier = identifier.replace(\"\\n\", \"\").strip()\n", "", "R2.write-iter-normalises") if False else
    Mutant("regress-genbank-single", GBA,
           "            if loc.defect & Location.Defect.BEYOND_LEFT:\n                loc_string = loc_first_str\n            else:\n                loc_string = loc_last_str\n",
           "            loc_string = loc_first_str\n", "R3.single-base-flags"),
    Mutant("genbank-beyond-swapped", GBA,
           "        if loc.defect & Location.Defect.BEYOND_RIGHT:\n            loc_last_str = \">\" + loc_last_str",
           "        if loc.defect & Location.Defect.BEYOND_RIGHT:\n            loc_last_str = \"<\" + loc_last_str",
           "R3.symbol-flag"),
    Mutant("genbank-unk-sep", GBA, 'loc_string = loc_first_str + "." + loc_last_str', 'loc_string = loc_first_str + "^" + loc_last_str',
           "R3.separator-flag"),
    Mutant("regress-gff-type", GFF, "        type = quote(type.strip(), safe=_NOT_QUOTED)\n", "        type = type.strip()\n", "R4.column-quoted"),
    Mutant("regress-gff-hash", GFF,
           "        if seqid[0] == \"#\":\n            # The line would be read as a comment\n            raise ValueError(\"'seqid' must not start with '#'\")\n", "",
           "R4.first-column-guard"),
    Mutant("gff-safe-semicolon", GFF, 'if char not in "%;=&,"', 'if char not in "%=&,"', "R4.separator-not-safe"),
    Mutant("gff-strand-swapped", GFF, '        if strand == Location.Strand.FORWARD:\n            strand = "+"',
           '        if strand == Location.Strand.FORWARD:\n            strand = "-"', "R4.strand-symbols"),
    Mutant("fastq-uint8", FASTQ, 'scores = np.frombuffer(bytearray(score_str, encoding="ascii"), dtype=np.int8)',
           'scores = np.frombuffer(bytearray(score_str, encoding="ascii"), dtype=np.uint8)', "R5.score-dtype"),
    Mutant("gff-strand-outside-loop", "sequence/io/gff/convert.py", "            strand = loc.strand if is_stranded else None\n", "",
           "R4.per-location-column"),
    Mutant("fastq-offset", FASTQ, '"Illumina-1.8": 33', '"Illumina-1.8": 64', "R5.offset-table"),
    Mutant("genbank-shift-start", GB, "for i in range(index + 1, len(self._field_pos)):", "for i in range(index, len(self._field_pos)):",
           "R5.genbank-shift"),
    # --- one seeded fault per remaining rule ---------------------------------
    Mutant("fastq-key-normalised-late", FASTQ,
           "        identifier = identifier.replace(\"\\n\", \"\").strip()\n        # Delete lines of entry corresponding to the identifier,\n        # if already existing\n        if identifier in self:\n            del self[identifier]\n",
           "        # Delete lines of entry corresponding to the identifier,\n        # if already existing\n        if identifier in self:\n            del self[identifier]\n        identifier = identifier.replace(\"\\n\", \"\").strip()\n",
           "R2.key-normalised-before-use", "FastqFile.__setitem__"),
    Mutant("fasta-key-looked-up-raw", FASTA,
           "        # The key must be the header as it is written into the file\n        header = header.replace(\"\\n\", \"\").strip()\n",
           "        if header in self:\n            del self[header]\n        # The key must be the header as it is written into the file\n        header = header.replace(\"\\n\", \"\").strip()\n",
           "R2.key-normalised-before-use", "FastaFile.__setitem__"),
    Mutant("fasta-reindexer-keeps-marker", FASTA, "            header = self.lines[header_i[j]].strip()[1:]\n", "            header = self.lines[header_i[j]].strip()\n",
           "R2.reindexer-strips-marker", "FastaFile._find_entries"),
    Mutant("fastq-reindexer-keeps-marker", FASTQ, "                identifier = line[1:]\n                seq_start_i = i + 1\n", "                identifier = line\n                seq_start_i = i + 1\n",
           "R2.reindexer-strips-marker", "FastqFile._find_entries"),
    Mutant("fasta-write-iter-raw-header", FASTA, "                yield \">\" + header.replace(\"\\n\", \"\").strip()\n", "                yield \">\" + header\n",
           "R2.write-iter-normalises", "FastaFile.write_iter"),
    Mutant("fastq-write-iter-no-strip", FASTQ, "                yield \"@\" + identifier.replace(\"\\n\", \"\").strip()\n", "                yield \"@\" + identifier.replace(\"\\n\", \"\")\n",
           "R2.write-iter-normalises", "FastqFile.write_iter"),
    Mutant("genbank-writer-drops-beyond-right", GBA,
           "        if loc.defect & Location.Defect.BEYOND_RIGHT:\n            loc_last_str = \">\" + loc_last_str\n", "", "R3.range-flags"),
    Mutant("genbank-complement-forward", GBA, "            Location(loc.first, loc.last, Location.Strand.REVERSE, loc.defect)\n",
           "            Location(loc.first, loc.last, Location.Strand.FORWARD, loc.defect)\n", "R3.strand"),
    Mutant("genbank-writer-complement-forward", GBA, "        if loc.strand == Location.Strand.REVERSE:\n            loc_string = f\"complement({loc_string})\"\n",
           "        if loc.strand == Location.Strand.FORWARD:\n            loc_string = f\"complement({loc_string})\"\n", "R3.strand"),
    Mutant("genbank-qual-start-20", GBA, "_QUAL_START = 21\n", "_QUAL_START = 20\n", "R3.feature-columns"),
    Mutant("gff-attribute-key-not-quoted", GFF, "                    quote(key, safe=_NOT_QUOTED) + \"=\" + quote(val, safe=_NOT_QUOTED)\n",
           "                    key + \"=\" + quote(val, safe=_NOT_QUOTED)\n", "R4.attributes-quoted"),
    Mutant("gff-attribute-key-not-unquoted", GFF, "            attrib_dict[unquote(key)] = unquote(val)\n", "            attrib_dict[key] = unquote(val)\n",
           "R4.attributes-quoted"),
    Mutant("gff-start-end-swapped", GFF, "                str(start),\n                str(end),\n", "                str(end),\n                str(start),\n",
           "R4.column-order"),
    Mutant("gff-score-placeholder-zero", GFF, "        score = str(score) if score is not None else \".\"\n", "        score = str(score) if score is not None else \"0\"\n",
           "R4.placeholder"),
    Mutant("gff-phase-dot-read-as-zero", GFF, "        phase = None if phase == \".\" else int(phase)\n", "        phase = 0 if phase == \".\" else int(phase)\n",
           "R4.placeholder"),
    Mutant("gff-type-default-safe-set", GFF, "        type = quote(type.strip(), safe=_NOT_QUOTED)\n", "        type = quote(type.strip())\n", "R4.quote-safe-set"),
    Mutant("fastq-entry-tuple-swapped", FASTQ,
           "                len(self.lines) + seq_stop_i,\n                len(self.lines) + score_start_i,\n",
           "                len(self.lines) + score_start_i,\n                len(self.lines) + seq_stop_i,\n", "R5.entry-tuple-order"),
    Mutant("fastq-read-adds-offset", FASTQ, "    scores -= offset\n", "    scores += offset\n", "R5.offset-sign"),
    Mutant("fastq-write-subtracts-offset", FASTQ, "    scores = np.asarray(scores) + offset\n", "    scores = np.asarray(scores) - offset\n", "R5.offset-sign"),
]
