"""
C02 - bond list: safe indices.

Decided: the index-safety clause ("an index outside [-n, n) is rejected and
never corrupts the list or terminates the process") as far as it shows in the
code of bonds.pyx (whole BondList class runs under boundscheck(False),
wraparound(False)).

R1  taint: a caller's atom index reaches a subscript/store only through a
    sanitiser; a memoryview built from a parameter is length-checked before
    stored atom indices subscript it; every view subscripted by a stored atom
    index is allocated with the atom count.
R2  unsigned tautology: `x < 0` on a variable declared unsigned is dead code -
    the sanitiser's rejection branch must be live.
R3  cached bound: every method that can add rows to `_bonds` assigns
    `_max_bonds_per_atom` afterwards on all paths (it bounds unchecked writes).
R4  who-may-write: `_atom_count`/`_max_bonds_per_atom` are written only in
    bonds.pyx.
R5  a bond type entering `_bonds` is range-checked on both sides.
"""

import ast

from ..astutil import call_name, calls, dotted, names_in, param_names, stmts, walk_local
from ..cfg import CFG
from ..core import AnalysisError, Mutant
from ..exprnorm import has_code

EXPLANATION = (
    "Taint/guard analysis of the lowered Cython source structure/bonds.pyx with the declared C "
    "types of every local: index parameters vs sanitisers, allocation sizes of memoryviews "
    "subscripted by stored indices, unsigned comparisons, cached-bound maintenance."
)
ASSUMPTIONS = [
    "invariant of a BondList: every stored atom index < _atom_count (established by the "
    "constructor through _to_positive_index_array, checked as R1.sanitiser-sound)",
    "loop counters over a view's own shape stay inside that view",
]
MIN_OBLIGATIONS = 40

BONDS = "structure/bonds.pyx"
SANITISERS = {"_to_positive_index", "_to_positive_index_array", "_to_index_array"}
INDEX_PARAMS = {
    "BondList.get_bonds": ["atom_index"],
    "BondList.add_bond": ["atom_index1", "atom_index2"],
    "BondList.remove_bond": ["atom_index1", "atom_index2"],
    "BondList.remove_bonds_to": ["atom_index"],
    "BondList.__getitem__": ["index"],
}
UNSIGNED = ("uint8", "uint16", "uint32", "uint64", "np.uint8_t", "np.uint16_t", "np.uint32_t",
            "np.uint64_t", "size_t", "unsigned", "ptr")
CACHED = "_max_bonds_per_atom"


def is_unsigned(low, ctype):
    t = ctype.strip()
    if not t or "[" in t or "*" in t:
        return False
    r = low.resolve(t)
    return t.startswith("unsigned") or t in UNSIGNED or r in UNSIGNED or r.startswith("np.uint")


def run(ctx):
    src = ctx.src(BONDS)
    low = src.low
    cls = src.cls("BondList")
    # class-wide directive
    decos = {ast.unparse(d) for d in cls.decorator_list}
    unchecked_class = "cython.boundscheck(False)" in decos
    ctx.count("class_boundscheck_off", int(unchecked_class))
    meths = src.methods("BondList")

    # ---------------- R2 unsigned comparisons (whole file) -----------------
    n_cmp = 0
    for qual, f in src.funcs.items():
        for n in walk_local(f):
            if not (isinstance(n, ast.Compare) and len(n.ops) == 1):
                continue
            l, op, r = n.left, n.ops[0], n.comparators[0]
            cand = None
            if isinstance(l, ast.Name) and isinstance(r, ast.Constant) and r.value == 0 and isinstance(op, (ast.Lt, ast.GtE)):
                cand = l.id
            if isinstance(r, ast.Name) and isinstance(l, ast.Constant) and l.value == 0 and isinstance(op, (ast.Gt, ast.LtE)):
                cand = r.id
            if cand is None:
                continue
            ct = low.ctype(qual, cand)
            if not ct:
                for p, pt, _ in (low.funcs[qual].params if qual in low.funcs else []):
                    if p == cand:
                        ct = pt
            if not ct:
                continue
            n_cmp += 1
            ctx.ob("R2.unsigned-compared-with-zero", BONDS, qual, n, not is_unsigned(low, ct),
                   f"`{cand}` is declared `{ct}` (unsigned): `{ast.unparse(n)}` is constant, the branch it "
                   "guards can never run - an index below -n wraps to a huge positive value instead of "
                   "being rejected (out-of-bounds write / crash)", n.lineno)
    ctx.floor("typed-zero-comparisons", n_cmp, 2)

    # ---------------- R1 sanitiser soundness ------------------------------
    tp = src.func("_to_positive_index")
    g = CFG(tp, lambda st: isinstance(st, ast.Raise))
    raises = [n for n in g.nodes if n.ast is not None and isinstance(n.ast, ast.Raise)]
    rets = [n for n in g.nodes if n.ast is not None and isinstance(n.ast, ast.Return)]
    ctx.ob("R1.sanitiser-sound", BONDS, "_to_positive_index", "two rejecting branches (below -n, at or above n)",
           len(raises) == 2 and all("IndexError" in ast.unparse(r.ast) for r in raises),
           "the scalar sanitiser must reject on both sides", tp.lineno)
    # upper bound uses >=
    up = [n for n in walk_local(tp) if isinstance(n, ast.Compare) and isinstance(n.ops[0], (ast.GtE, ast.Gt))
          and "array_length" in ast.unparse(n)]
    ctx.ob("R1.sanitiser-sound", BONDS, "_to_positive_index", "index >= array_length",
           any(isinstance(n.ops[0], ast.GtE) for n in up),
           "an index equal to the atom count must be rejected (>=)", tp.lineno)
    tpa = src.func("_to_positive_index_array")
    txt = ast.unparse(tpa)
    checks = [n for n in walk_local(tpa) if isinstance(n, ast.If) and any(isinstance(b, ast.Raise) for b in n.body)]
    lowc = any(isinstance(c, ast.Compare) and isinstance(c.ops[0], ast.Lt) for n in checks for c in ast.walk(n.test))
    upc = any(isinstance(c, ast.Compare) and isinstance(c.ops[0], ast.GtE) for n in checks for c in ast.walk(n.test))
    ctx.ob("R1.sanitiser-sound", BONDS, "_to_positive_index_array", "(a < 0).any() and (a >= length).any() raise",
           lowc and upc, "the array sanitiser must reject on both sides", tpa.lineno)
    # the array sanitiser works on a signed/python-level array: negatives are shifted before the check
    ctx.ob("R1.sanitiser-sound", BONDS, "_to_positive_index_array", "negatives shifted by length before checking",
           "index_array[negatives] = length + index_array[negatives]" in txt.replace("  ", " "),
           "negative indices must be mapped before the range check", tpa.lineno, nontrivial=False)
    inv = src.func("_invert_index")
    inv_decos = {ast.unparse(d) for d in inv.decorator_list}
    ctx.ob("R1.sanitiser-sound", BONDS, "_invert_index", "bounds-checked scope",
           "cython.boundscheck(False)" not in inv_decos,
           "_invert_index subscripts by caller-provided values and must keep bounds checking", inv.lineno)

    # ---------------- R1 taint of index parameters -------------------------
    n_t = 0
    for qual, params in INDEX_PARAMS.items():
        f = src.func(qual)
        ctx.need(all(p in param_names(f) for p in params), f"index parameters of {qual}")
        gq = CFG(f, lambda st: isinstance(st, ast.Raise))
        domq = gq.dominators()
        stmt_node = {}
        for nd in gq.nodes:
            if nd.ast is not None:
                from ..cfg import head_exprs
                for he in (head_exprs(nd.ast) if nd.kind in ("test", "loop") or isinstance(nd.ast, (ast.If, ast.While, ast.For)) else [nd.ast]):
                    for x in ast.walk(he):
                        stmt_node.setdefault(id(x), nd.id)
        for p in params:
            cleaners = {nd.id for nd in gq.nodes if nd.ast is not None and isinstance(nd.ast, ast.Assign)
                        and any(isinstance(t, ast.Name) and t.id == p for t in nd.ast.targets)
                        and isinstance(nd.ast.value, ast.Call)
                        and (call_name(nd.ast.value) or "").split(".")[-1] in SANITISERS}
            for n in walk_local(f):
                if not (isinstance(n, ast.Name) and n.id == p and isinstance(n.ctx, ast.Load)):
                    continue
                # find the enclosing use
                use = enclosing_use(f, n)
                kind, ok = classify_use(use, n, p)
                nid = stmt_node.get(id(n))
                if not ok and nid is not None and any(c in domq.get(nid, set()) and c != nid for c in cleaners):
                    kind, ok = kind + " after sanitising reassignment", True
                n_t += 1
                ctx.ob("R1.index-sanitised", BONDS, qual, f"{p} in `{ast.unparse(use)[:70]}`", ok,
                       f"the caller's index `{p}` is used ({kind}) without passing _to_positive_index/"
                       "_to_positive_index_array: under boundscheck(False) an out-of-range value reads or "
                       "writes outside the array", n.lineno)
    ctx.floor("index-parameter-uses", n_t, 8)

    # ---------------- R1 views subscripted by stored indices ---------------
    n_v = 0
    param_views = {}
    for name, f in meths.items():
        qual = f"BondList.{name}"
        decl = low.decls.get(qual, {})
        views = {v for v, t in decl.items() if "[:" in t}
        if not views:
            continue
        alloc = {}
        for st in stmts(f):
            if isinstance(st, ast.Assign) and len(st.targets) == 1 and isinstance(st.targets[0], ast.Name):
                alloc[st.targets[0].id] = st.value
        carriers = set()  # locals holding a stored atom index (or a pointer to one)
        for st in stmts(f):
            if isinstance(st, ast.Assign) and len(st.targets) == 1 and isinstance(st.targets[0], ast.Name):
                v = st.value
                if isinstance(v, ast.UnaryOp):
                    v = v.operand
                if isinstance(v, ast.Subscript) and isinstance(v.value, ast.Name) and v.value.id == "all_bonds_v":
                    sl = v.slice
                    if isinstance(sl, ast.Tuple) and isinstance(sl.elts[1], ast.Constant) and sl.elts[1].value in (0, 1):
                        carriers.add(st.targets[0].id)

        def is_stored_index(e):
            if isinstance(e, ast.Name) and e.id in carriers:
                return True
            if isinstance(e, ast.Subscript) and isinstance(e.value, ast.Name) and e.value.id in carriers:
                return True
            if isinstance(e, ast.Subscript) and isinstance(e.value, ast.Name) and e.value.id == "all_bonds_v" \
                    and isinstance(e.slice, ast.Tuple) and isinstance(e.slice.elts[1], ast.Constant) \
                    and e.slice.elts[1].value in (0, 1):
                return True
            return False

        def origin(v, depth=0):
            """allocation expression of a view (following one alias step)"""
            e = alloc.get(v)
            if isinstance(e, ast.Name) and depth < 3:
                return origin(e.id, depth + 1)
            return e

        for n in walk_local(f):
            if not (isinstance(n, ast.Subscript) and isinstance(n.value, ast.Name) and n.value.id in views):
                continue
            if n.value.id == "all_bonds_v":
                continue
            idxs = n.slice.elts if isinstance(n.slice, ast.Tuple) else [n.slice]
            first = idxs[0]
            if not is_stored_index(first):
                continue
            n_v += 1
            o = origin(n.value.id)
            otxt = ast.unparse(o) if o is not None else "?"
            sized = "self._atom_count" in otxt
            from_param = any(pn in names_in(o) for pn in param_names(f)[1:]) if o is not None else False
            derived_param = False
            if o is not None and not sized:
                # e.g. offsets = np.cumsum(~mask...) where mask = np.frombuffer(index)
                for nm in names_in(o):
                    oo = origin(nm)
                    if oo is not None and any(pn in names_in(oo) for pn in param_names(f)[1:]):
                        derived_param = True
            if sized:
                ctx.ob("R1.view-sized-by-atom-count", BONDS, qual,
                       f"{n.value.id}[<stored atom index>] ; {n.value.id} = {otxt[:60]}", True)
            elif from_param or derived_param:
                param_views.setdefault(qual, []).append((n.value.id, n.lineno, f))
            else:
                ctx.ob("R1.view-sized-by-atom-count", BONDS, qual,
                       f"{n.value.id}[<stored atom index>] ; {n.value.id} = {otxt[:60]}", False,
                       f"`{n.value.id}` is subscripted by stored atom indices under boundscheck(False) but "
                       "is not allocated with the atom count", n.lineno)
    for qual, lst in sorted(param_views.items()):
        names = sorted({v for v, _, _ in lst})
        f = lst[0][2]
        ctx.ob("R1.param-view-length-checked", BONDS, qual,
               "caller-provided view(s) " + ",".join(names) + " subscripted by stored atom indices",
               length_guard(f, param_names(f)[1:]),
               f"{', '.join(names)} are built from the caller's index object and subscripted by the "
               "stored atom indices under boundscheck(False), but the length of that object is never "
               "compared with the atom count: a boolean mask shorter than the atom count reads out of "
               "bounds (crash)", min(l for _, l, _ in lst))
    ctx.floor("views-by-stored-index", n_v, 10)

    # ---------------- R3 cached bound --------------------------------------
    n_add = 0
    for name, f in list(meths.items()):
        qual = f"BondList.{name}"
        g = CFG(f, lambda st: isinstance(st, ast.Raise))
        for n in g.nodes:
            if n.ast is None or n.kind != "stmt" or not isinstance(n.ast, ast.Assign):
                continue
            for t in n.ast.targets:
                if not (isinstance(t, ast.Attribute) and t.attr == "_bonds"):
                    continue
                obj = dotted(t.value)
                v = n.ast.value
                vtxt = ast.unparse(v)
                remover = (isinstance(v, ast.Subscript) and (dotted(v.value) or "").endswith("._bonds")) or \
                          (isinstance(v, ast.Call) and (call_name(v) or "").endswith("delete"))
                if remover:
                    continue
                n_add += 1
                upd = {m.id for m in g.nodes if m.ast is not None and isinstance(m.ast, ast.Assign)
                       and any(isinstance(tt, ast.Attribute) and tt.attr == CACHED and dotted(tt.value) == obj
                               for tt in m.ast.targets)}
                w = None
                for b in g.succ[n.id]:
                    if b in upd:
                        continue
                    w = w or g.path(b, g.exit.id, blocked=upd)
                ctx.ob("R3.cached-bound-updated", BONDS, qual, n.ast, w is None,
                       f"`{obj}._bonds` may gain rows here but `{obj}.{CACHED}` is not recomputed on every "
                       "path to the exit: get_bonds()/get_all_bonds() size their unchecked output buffers "
                       "with it", n.line)
    ctx.floor("bond-array-growth-sites", n_add, 5)
    # the buffers are sized by the cache
    # Every store `view[.., counter]` whose index counts the bonds found so far for one atom (a local incremented by one, or an
    # element of a per-atom counter array) goes into a dimension that was allocated with the cached maximum.
    from ..exprnorm import same_expr
    for name in ("get_bonds", "get_all_bonds"):
        f = meths[name]
        shapes = {}
        for st in stmts(f):
            if isinstance(st, ast.Assign) and len(st.targets) == 1 and isinstance(st.targets[0], ast.Name):
                v = st.value
                if isinstance(v, ast.Call) and (call_name(v) or "") in ("np.zeros", "np.full", "np.empty", "np.ones") and v.args:
                    sh = v.args[0]
                    shapes[st.targets[0].id] = list(sh.elts) if isinstance(sh, (ast.Tuple, ast.List)) else [sh]
                elif isinstance(v, ast.Name) and v.id in shapes:
                    shapes[st.targets[0].id] = shapes[v.id]
        loop_vars = {x.id for lp in walk_local(f) if isinstance(lp, ast.For) for x in ast.walk(lp.target) if isinstance(x, ast.Name)}
        counters, counter_arrays = set(), set()
        for st in walk_local(f):
            if isinstance(st, ast.AugAssign) and isinstance(st.op, ast.Add):
                if isinstance(st.target, ast.Name) and st.target.id not in loop_vars:
                    counters.add(st.target.id)
                elif isinstance(st.target, ast.Subscript) and isinstance(st.target.value, ast.Name):
                    counter_arrays.add(st.target.value.id)
        n_st = 0
        for st in walk_local(f):
            if not isinstance(st, ast.Assign):
                continue
            for t in st.targets:
                if isinstance(t, ast.Subscript) and isinstance(t.value, ast.Name) and t.value.id in shapes:
                    idx = list(t.slice.elts) if isinstance(t.slice, ast.Tuple) else [t.slice]
                    for k, e in enumerate(idx):
                        is_counter = isinstance(e, ast.Name) and e.id in counters or \
                            isinstance(e, ast.Subscript) and isinstance(e.value, ast.Name) and e.value.id in counter_arrays
                        if not is_counter:
                            continue
                        n_st += 1
                        dims = shapes[t.value.id]
                        ok = k < len(dims) and same_expr(dims[k], f"self.{CACHED}")
                        ctx.ob("R3.buffer-sized-by-cache", BONDS, f"BondList.{name}", f"{ast.unparse(t)} <- dimension {k} of size {ast.unparse(dims[k]) if k < len(dims) else '?'}",
                               ok, f"the position counts the bonds of one atom and is never compared with the buffer size: the dimension must "
                               f"be allocated with self.{CACHED} (bounds checking is off)", st.lineno)
        ctx.floor(f"counter-indexed-stores:{name}", n_st, 4)

    # ---------------- R1e: the sanitised index replaces the raw one ------------------
    # after `x = <sanitiser>(p, n)` the raw value p (possibly negative, possibly a mask or a list) is dead: every later
    # comparison with stored indices, every helper call and every length uses x
    n_san = 0
    for name, f in meths.items():
        body_nodes = list(walk_local(f))
        for st in body_nodes:
            if not (isinstance(st, ast.Assign) and len(st.targets) == 1 and isinstance(st.targets[0], ast.Name) and isinstance(st.value, ast.Call)
                    and (call_name(st.value) or "") in SANITISERS and st.value.args and isinstance(st.value.args[0], ast.Name)):
                continue
            raw, clean = st.value.args[0].id, st.targets[0].id
            n_san += 1
            if raw == clean:
                ctx.ob("R1.raw-index-not-reused", BONDS, f"BondList.{name}", f"{clean} = {call_name(st.value)}({raw}, ..) rebinds the name", True, "", st.lineno)
                continue
            in_raise = {id(x) for r in body_nodes if isinstance(r, ast.Raise) for x in ast.walk(r)}
            later = [x for x in body_nodes if isinstance(x, ast.Name) and x.id == raw and isinstance(x.ctx, ast.Load)
                     and (x.lineno, x.col_offset) > (st.end_lineno, st.end_col_offset) and id(x) not in in_raise]
            ctx.ob("R1.raw-index-not-reused", BONDS, f"BondList.{name}", f"{clean} = {call_name(st.value)}({raw}, ..); {raw} not read afterwards", not later,
                   f"the caller's index `{raw}` is used again after it was normalised into `{clean}`"
                   + (f" (line {later[0].lineno})" if later else "") + ": a negative index then matches no stored atom index / is taken for a position",
                   later[0].lineno if later else st.lineno)
    ctx.floor("sanitiser-assignments", n_san, 6)

    # ---------------- R6: the reference mapping -----------------------------------------
    from ..exprnorm import check_spec, summarize as _summ, same_expr as _same
    check_spec(ctx, "R6.merge", BONDS, "BondList.merge",
               "BondList(max(self._atom_count, bond_list._atom_count), np.concatenate([bond_list.as_array(), self.as_array()], axis=0))",
               "the merged list covers the atoms of both lists and the argument's bonds come first (at construction the first type of a "
               "duplicate wins: the argument takes precedence)")
    check_spec(ctx, "R6.equality", BONDS, "BondList.__eq__",
               "False if not isinstance(item, BondList) else (self._atom_count == item._atom_count and self.as_set() == item.as_set())",
               "two bond lists are equal when they have the same atom count and the same set of (i, j, type) bonds")
    # stripping aromaticity: a total table over the aromatic types, each mapped to the type without the AROMATIC_ prefix
    members = [st.targets[0].id for st in src.cls("BondType").body if isinstance(st, ast.Assign) and isinstance(st.targets[0], ast.Name)
               and isinstance(st.value, ast.Constant)]
    ctx.need(len(members) >= 9, "BondType members")
    ra = meths["remove_aromaticity"]
    table = {}
    for lp in walk_local(ra):
        if isinstance(lp, ast.For) and isinstance(lp.iter, (ast.List, ast.Tuple)) and isinstance(lp.target, ast.Tuple) and len(lp.target.elts) == 2:
            a_, b_ = (e.id for e in lp.target.elts)
            applies = any(isinstance(b, ast.Assign) and isinstance(b.targets[0], ast.Subscript) and _same(b.targets[0].slice, f"bond_types == {a_}")
                          and _same(b.value, b_) and _same(b.targets[0].value, "bond_types") for b in lp.body)
            if applies:
                for e in lp.iter.elts:
                    if isinstance(e, ast.Tuple) and len(e.elts) == 2:
                        k_, v_ = (dotted(x) or "?" for x in e.elts)
                        table[k_.split(".")[-1]] = v_.split(".")[-1]
    ctx.need(bool(table), "replacement table of BondList.remove_aromaticity")
    want_t = {m: (m[len("AROMATIC_"):] if m.startswith("AROMATIC_") else "ANY") for m in members if m.startswith("AROMATIC")}
    ctx.ob("R6.aromaticity-table", BONDS, "BondList.remove_aromaticity", str(sorted(table.items())), table == want_t,
           f"every aromatic bond type must be replaced by its non-aromatic counterpart: {sorted(want_t.items())}", ra.lineno)
    view = [st for st in stmts(ra) if isinstance(st, ast.Assign) and _same(st.targets[0], "bond_types")]
    ctx.ob("R6.aromaticity-table", BONDS, "BondList.remove_aromaticity", "bond_types is the type column of the list itself",
           len(view) == 1 and _same(view[0].value, "self._bonds[:, 2]"),
           "the replacement must act on the stored type column (a view of self._bonds), not on a copy", ra.lineno)
    rbo = _summ(meths["remove_bond_order"])
    ctx.ob("R6.remove-bond-order", BONDS, "BondList.remove_bond_order", "self._bonds[:, 2] = BondType.ANY",
           rbo.env.get("self") is not None and _same(rbo.env["self"], "__set__(self._bonds, __idx__[:, 2], BondType.ANY)") or
           any(isinstance(st, ast.Assign) and _same(st.targets[0], "self._bonds[:, 2]") and _same(st.value, "BondType.ANY") for st in stmts(meths["remove_bond_order"])),
           "every bond becomes BondType.ANY", meths["remove_bond_order"].lineno)

    # ---------------- R4 who may write --------------------------------------
    n_w = 0
    for rel in ctx.all_sources((".py", ".pyx")):
        if rel == BONDS:
            continue
        if rel not in ctx.overrides:
            with open(ctx.path(rel), encoding="utf-8") as fh:
                txt_ = fh.read()
                if CACHED not in txt_ and "_atom_count" not in txt_:
                    continue
        try:
            s2 = ctx.src(rel)
        except AnalysisError:
            raise
        for n in ast.walk(s2.tree):
            if isinstance(n, (ast.Assign, ast.AugAssign)):
                for t in (n.targets if isinstance(n, ast.Assign) else [n.target]):
                    root = t
                    while isinstance(root, ast.Subscript):
                        root = root.value
                    # `self._atom_count = ..` inside another class is that class's own attribute (interface/pymol); the bound
                    # fields of a BondList would be reached through some other expression (`bonds._atom_count`, `array.bonds._..`)
                    foreign = isinstance(root, ast.Attribute) and (root.attr == CACHED or (
                        root.attr == "_atom_count" and not (isinstance(root.value, ast.Name) and root.value.id == "self")))
                    if foreign:
                        n_w += 1
                        ctx.ob("R4.who-may-write", rel, "<module>", n, False,
                               f"{root.attr} of a BondList (bound of its unchecked index arithmetic) is written outside bonds.pyx", n.lineno)
    ctx.count("foreign-writes", n_w)
    # positive control
    probe = ast.parse("x._max_bonds_per_atom = 3")
    ctx.need(any(isinstance(t, ast.Attribute) and t.attr == CACHED for n in ast.walk(probe)
                 if isinstance(n, ast.Assign) for t in n.targets), "positive control R4")
    ctx.ob("R4.who-may-write", BONDS, "<module>", f"no write of {CACHED} outside bonds.pyx", n_w == 0,
           "", 1, nontrivial=False)

    # ---------------- R5 bond type range ------------------------------------
    init = meths["__init__"]
    uppers = [n for n in walk_local(init) if isinstance(n, ast.Compare) and has_code(n, "len(BondType)")]
    lowers = [n for n in walk_local(init) if isinstance(n, ast.Compare) and isinstance(n.ops[0], ast.Lt)
              and isinstance(n.comparators[0], ast.Constant) and n.comparators[0].value == 0
              and has_code(n.left, "bonds[:, 2]")]
    ctx.ob("R5.bond-type-upper", BONDS, "BondList.__init__", "bonds[:, 2] >= len(BondType)",
           any(isinstance(n.ops[0], ast.GtE) for n in uppers),
           "bond types at or above len(BondType) must be rejected", init.lineno)
    ctx.ob("R5.bond-type-lower", BONDS, "BondList.__init__", "bonds[:, 2] < 0",
           bool(lowers),
           "a negative bond type in the input array is stored into the uint32 column unchecked and "
           "becomes 4294967295 (BondList(3, [(0,1,-1)]))", init.lineno)
    # ---------------- further clauses of the index / type discipline (argued Cython edits, round 2) -------------------------------
    from ..exprnorm import canon as _canon
    from ..facts import conjuncts as _conjuncts
    from ..lints import integer_tests_accept_numpy
    # an index that is an integer - of Python or of NumPy (an element of an index array) - selects the bonds of one atom
    integer_tests_accept_numpy(ctx, BONDS, "R6.integer-index-accepts-numpy", 1)
    # an index ARRAY of integers is range-checked as a whole (and made positive) by the helper that raises: a bare `% n` folds an index
    # beyond the atom count onto another atom
    gi_ = meths["__getitem__"]
    conv_ = [c for c in ast.walk(gi_) if isinstance(c, ast.Call) and call_name(c) == "_to_positive_index_array"]
    mods_ = [x for x in ast.walk(gi_) if isinstance(x, ast.BinOp) and isinstance(x.op, ast.Mod) and has_code(x.right, "self._atom_count")]
    ctx.ob("R1.index-array-range-checked", BONDS, "BondList.__getitem__", "index = _to_positive_index_array(index, self._atom_count)",
           len(conv_) == 1 and has_code(gi_, "index = _to_positive_index_array(index, self._atom_count)") and not mods_,
           "indices at or beyond the atom count (and below its negative) must be refused, not wrapped", gi_.lineno)
    # concatenate: every operand moves the offset on by its atom count - also one that has atoms but no bonds
    cc_ = meths["concatenate"]
    loops_ = [lp for lp in ast.walk(cc_) if isinstance(lp, ast.For) and any(isinstance(x, ast.AugAssign) and isinstance(x.target, ast.Name)
                                                                             and x.target.id == "cum_atom_count" for x in ast.walk(lp))]
    ctx.need(len(loops_) == 1, "the offset loop of BondList.concatenate")
    lp_ = loops_[0]
    direct_ = [x for x in lp_.body if isinstance(x, ast.AugAssign) and isinstance(x.target, ast.Name) and x.target.id == "cum_atom_count"
               and isinstance(x.op, ast.Add) and has_code(x.value, "bond_list._atom_count")]
    jumps_ = [x for b_ in lp_.body for x in ast.walk(b_) if isinstance(x, (ast.Continue, ast.Break, ast.Return))]
    ctx.ob("R6.concatenate-offset-every-operand", BONDS, "BondList.concatenate", "cum_atom_count += bond_list._atom_count on every iteration",
           len(direct_) == 1 and not jumps_,
           "an operand without bonds still has atoms: skipping the offset update shifts the indices of every later operand and the atom count "
           "of the result", lp_.lineno)
    # remove_bonds: a bond is identified by its two atoms (the type of the bond in the argument does not matter)
    rb_ = meths["remove_bonds"]
    tests_ = [x for x in ast.walk(rb_) if isinstance(x, ast.If) and any(isinstance(y, ast.Assign) and has_code(y, "mask_v[i] = False") for y in x.body)]
    ctx.need(len(tests_) == 1, "the comparison of BondList.remove_bonds")
    got_ = sorted(repr(_canon(c_)) for c_ in _conjuncts(tests_[0].test))
    want_ = sorted(repr(_canon(ast.parse(t_, mode="eval").body)) for t_ in ("all_bonds_v[i, 0] == rem_bonds_v[j, 0]", "all_bonds_v[i, 1] == rem_bonds_v[j, 1]"))
    ctx.ob("R6.remove-bonds-by-atom-pair", BONDS, "BondList.remove_bonds", "a bond is removed when both atom indices match", got_ == want_,
           "the bonds to remove are given by their atom pairs: a further condition (the bond type) keeps bonds the caller asked to remove", tests_[0].lineno)
    # _invert_index: the table is filled with the marker that the duplicate test asks for
    inv_ = src.func("_invert_index")
    fills_ = [x.value.args[1] for x in ast.walk(inv_) if isinstance(x, ast.Assign) and isinstance(x.value, ast.Call) and call_name(x.value) == "np.full"
              and len(x.value.args) >= 2]
    dup_ = [x for x in ast.walk(inv_) if isinstance(x, ast.If) and any(isinstance(y, ast.Raise) for y in x.body)]
    ctx.need(len(fills_) == 1 and len(dup_) == 1, "fill value and duplicate test of _invert_index")
    want_dup = ast.Compare(left=ast.parse("inverse_index_v[index_val]", mode="eval").body, ops=[ast.NotEq()], comparators=[fills_[0]])
    ctx.ob("R6.duplicate-index-refused", BONDS, "_invert_index", "inverse_index_v[index_val] != <fill value>",
           repr(_canon(dup_[0].test)) == repr(_canon(want_dup)) and not dup_[0].orelse,
           "an index that appears twice must be refused whatever its position: the test has to ask for exactly the marker the table was filled with",
           dup_[0].lineno)
    ab = meths["add_bond"]
    # the type is checked before anything is looked up or stored: as a guard clause at the top of the method
    guards_ = []
    for st_ in ab.body:
        if isinstance(st_, (ast.For, ast.While, ast.With, ast.Try)) or isinstance(st_, ast.If) and not any(isinstance(y, ast.Raise) for y in st_.body):
            break
        if isinstance(st_, ast.If) and any(isinstance(y, ast.Raise) for y in st_.body):
            guards_.append(st_)
    ctx.ob("R5.bond-type-checked-first", BONDS, "BondList.add_bond", "if bond_type >= len(BondType): raise .. at the top of the method",
           any(has_code(g_.test, "bond_type >= len(BondType)") for g_ in guards_),
           "a bond that exists already is UPDATED: a type check that sits in the branch for new bonds lets an invalid type into the array", ab.lineno)
    ctx.ob("R5.bond-type-upper", BONDS, "BondList.add_bond", "bond_type >= len(BondType)",
           any(isinstance(n, ast.Compare) and has_code(n, "len(BondType)") and isinstance(n.ops[0], ast.GtE)
               for n in walk_local(ab)),
           "bond types at or above len(BondType) must be rejected", ab.lineno)


def enclosing_use(func, name_node):
    """smallest Call / Subscript / Compare / statement that contains the name"""
    best = None
    for n in ast.walk(func):
        if isinstance(n, (ast.Call, ast.Subscript, ast.Compare, ast.BinOp, ast.stmt)):
            if any(x is name_node for x in ast.walk(n)):
                if best is None or (n.end_lineno - n.lineno, n.end_col_offset - n.col_offset) <= \
                        (best.end_lineno - best.lineno, best.end_col_offset - best.col_offset) or \
                        (n.lineno >= best.lineno and n.end_lineno <= best.end_lineno
                         and (n.lineno, n.col_offset) >= (best.lineno, best.col_offset)):
                    if best is None or _inside(n, best):
                        best = n
    return best


def _inside(a, b):
    return (a.lineno, a.col_offset) >= (b.lineno, b.col_offset) and \
           (a.end_lineno, a.end_col_offset) <= (b.end_lineno, b.end_col_offset)


def classify_use(use, name_node, p):
    if isinstance(use, ast.Call):
        cn = call_name(use) or ""
        last = cn.split(".")[-1]
        if last in SANITISERS:
            return "sanitiser", True
        if cn in ("isinstance", "self.get_bonds", "len", "type"):
            return "type test / checked method", True
        if cn == "np.frombuffer":
            return "mask view (checked by R1.param-view-length-checked)", True
        if cn == "np.issubdtype":
            return "dtype test", True
        return f"argument of {cn}", False
    if isinstance(use, ast.Compare):
        # index.dtype == bool
        return "comparison", True
    if isinstance(use, ast.Subscript):
        if use.value is name_node or any(x is name_node for x in ast.walk(use.value)):
            return "subscripted value", True
        return "subscript index", False
    if isinstance(use, ast.BinOp):
        return "arithmetic", False
    if isinstance(use, ast.Assign):
        # index = _to_index_array(index, ...) handled as Call; plain aliasing is a leak
        return "assignment", isinstance(use.value, ast.Call)
    if isinstance(use, ast.Attribute):
        return "attribute", True
    return type(use).__name__, False


def length_guard(func, params):
    """a raising `if` that compares the length of a parameter(-derived) array with self._atom_count"""
    for n in walk_local(func):
        if isinstance(n, ast.If) and any(isinstance(b, ast.Raise) for b in n.body):
            t = ast.unparse(n.test)
            if "_atom_count" in t and ("len(" in t or ".shape[0]" in t):
                return True
    return False


MUTANTS = [
    Mutant("remove-bonds-to-raw-index", BONDS, "            if (all_bonds_v[i,0] == index or all_bonds_v[i,1] == index):\n                mask_v[i] = False\n        # Remove the bonds\n",
           "            if (all_bonds_v[i,0] == atom_index or all_bonds_v[i,1] == atom_index):\n                mask_v[i] = False\n        # Remove the bonds\n",
           "R1.raw-index-not-reused", "BondList.remove_bonds_to"),
    Mutant("merge-atom-count-of-self", BONDS, "            max(self._atom_count, bond_list._atom_count),\n", "            self._atom_count,\n", "R6.merge"),
    Mutant("merge-self-first", BONDS, "                [bond_list.as_array(), self.as_array()],\n", "                [self.as_array(), bond_list.as_array()],\n", "R6.merge"),
    Mutant("eq-ignores-atom-count", BONDS, "        return (self._atom_count == item._atom_count and\n                self.as_set() == item.as_set())",
           "        return self.as_set() == item.as_set()", "R6.equality"),
    Mutant("aromatic-any-forgotten", BONDS, "            (BondType.AROMATIC, BondType.ANY),\n", "", "R6.aromaticity-table"),
    Mutant("aromatic-double-to-single", BONDS, "            (BondType.AROMATIC_DOUBLE, BondType.DOUBLE),\n", "            (BondType.AROMATIC_DOUBLE, BondType.SINGLE),\n", "R6.aromaticity-table"),
    Mutant("bond-order-single", BONDS, "        self._bonds[:,2] = BondType.ANY\n", "        self._bonds[:,2] = BondType.SINGLE\n", "R6.remove-bond-order"),
    Mutant("all-bonds-types-buffer-transposed", BONDS, "            (self._atom_count, self._max_bonds_per_atom), -1, dtype=np.int8\n",
           "            (self._max_bonds_per_atom, self._atom_count), -1, dtype=np.int8\n", "R3.buffer-sized-by-cache", "BondList.get_all_bonds"),
    Mutant("get-bonds-buffer-minus-one", BONDS, "        cdef np.ndarray bonds = np.zeros(self._max_bonds_per_atom,\n                                         dtype=np.uint32)",
           "        cdef np.ndarray bonds = np.zeros(self._max_bonds_per_atom - 1,\n                                         dtype=np.uint32)", "R3.buffer-sized-by-cache", "BondList.get_bonds"),
    Mutant("atom-count-written-by-atoms-module", "structure/atoms.py", "            self._array_length = self._coord.shape[-2]\n",
           "            self._array_length = self._coord.shape[-2]\n            if self._bonds is not None:\n                self._bonds._atom_count = self._array_length\n",
           "R4.who-may-write"),
    Mutant("add-bond-no-recompute", BONDS, "            self._max_bonds_per_atom = self._get_max_bonds_per_atom()\n\n    def remove_bond(",
           "\n    def remove_bond(", "R3.cached-bound-updated", "BondList.add_bond"),
    Mutant("get-bonds-raw-index", BONDS,
           "        cdef uint32 index = _to_positive_index(atom_index, self._atom_count)\n\n        cdef uint32[:,:] all_bonds_v = self._bonds\n        # Pessimistic array allocation",
           "        cdef uint32 index = atom_index\n\n        cdef uint32[:,:] all_bonds_v = self._bonds\n        # Pessimistic array allocation",
           "R1.index-sanitised", "BondList.get_bonds"),
    Mutant("sanitiser-gt", BONDS, "        if <uint32> index >= array_length:", "        if <uint32> index > array_length:", "R1.sanitiser-sound"),
    Mutant("getitem-no-cache", BONDS,
           "            copy._atom_count = len(index)\n            copy._max_bonds_per_atom = copy._get_max_bonds_per_atom()\n",
           "            copy._atom_count = len(index)\n", "R3.cached-bound-updated") if False else
    Mutant("concat-no-cache", BONDS,
           "        merged_bond_list._max_bonds_per_atom = max(\n", "        _unused = max(\n", "R3.cached-bound-updated",
           "BondList.concatenate"),
    Mutant("invert-index-unchecked", BONDS, "@cython.wraparound(False)\n# Do bounds check, as the input indices may be out of bounds\ndef _invert_index(",
           "@cython.boundscheck(False)\n@cython.wraparound(False)\ndef _invert_index(", "R1.sanitiser-sound"),
    Mutant("repair-unsigned", BONDS, "    cdef uint32 pos_index\n    if index < 0:", "    cdef int64 pos_index\n    if index < 0:",
           "R2.unsigned-compared-with-zero", "_to_positive_index", kind="repair"),
    Mutant("bond-type-upper-gt", BONDS, "if (bonds[:, 2] >= len(BondType)).any():", "if (bonds[:, 2] > len(BondType)).any():",
           "R5.bond-type-upper"),
    Mutant("lengths-buffer-unsized", BONDS,
           "        cdef np.ndarray lengths = np.zeros(self._atom_count, dtype=np.uint32)",
           "        cdef np.ndarray lengths = np.zeros(len(self._bonds), dtype=np.uint32)",
           "R1.view-sized-by-atom-count"),
    Mutant("repair-mask-length", BONDS,
           "            mask = np.frombuffer(index, dtype=np.uint8)\n",
           "            if len(index) != self._atom_count:\n                raise IndexError('mask length')\n            mask = np.frombuffer(index, dtype=np.uint8)\n",
           "R1.param-view-length-checked", "BondList.__getitem__", kind="repair"),
    # --- one seeded fault per remaining rule ---------------------------------
    Mutant("get-bonds-types-buffer-const", BONDS,
           "        cdef np.ndarray bond_types = np.zeros(self._max_bonds_per_atom,\n                                              dtype=np.uint8)",
           "        cdef np.ndarray bond_types = np.zeros(4,\n                                              dtype=np.uint8)",
           "R3.buffer-sized-by-cache", "BondList.get_bonds"),
    Mutant("get-all-bonds-buffer-const", BONDS,
           "        cdef np.ndarray bonds = np.full(\n            (self._atom_count, self._max_bonds_per_atom), -1, dtype=np.int32\n        )",
           "        cdef np.ndarray bonds = np.full(\n            (self._atom_count, 4), -1, dtype=np.int32\n        )",
           "R3.buffer-sized-by-cache", "BondList.get_all_bonds"),
    Mutant("atoms-writes-bond-cache", "structure/atoms.py",
           "            new_object._bonds = self._bonds[index]\n",
           "            new_object._bonds = self._bonds[index]\n            new_object._bonds._max_bonds_per_atom = self._bonds._max_bonds_per_atom\n",
           "R4.who-may-write"),
    # the tree violates R5.bond-type-lower (known finding): only the repair direction can be seeded
    Mutant("repair-bond-type-lower", BONDS,
           "                if (bonds[:, 2] >= len(BondType)).any():\n",
           "                if (bonds[:, 2] < 0).any():\n                    raise ValueError(\"BondType must not be negative\")\n                if (bonds[:, 2] >= len(BondType)).any():\n",
           "R5.bond-type-lower", "BondList.__init__", kind="repair"),
]
