"""
C20 - application wrappers follow their life cycle and always clean up.

Both halves of the property are visible in the shape of the code:

R1  typestate by def-use: which public method may be called in which state is
    declared with @requires_state; which fields are *results* (assigned in
    evaluate) and which are *inputs* (read by run) follows from def-use.
R2  must-pass-through: every exit of join/cancel (and every exceptional exit
    of start after run() was attempted) passes exactly one clean_up().
R3  resources: chdir is restored on all paths; temp files created by a class
    are released by its clean_up; hook overrides chain to super().
R4  the state flag is written only by the life-cycle methods.
"""

import ast

from ..astutil import (
    attrs_in, attr_writes, body_nodoc, call_name, calls, dotted, has_decorator,
    stmts, walk_local,
)
from ..cfg import CFG, head_calls
from ..core import AnalysisError, Mutant
from ..program import ClassIndex
from ..exprnorm import has_code, same_expr

EXPLANATION = (
    "Typestate and resource discipline of biotite.application decided from the "
    "class hierarchy, def-use of fields and statement CFGs with exception edges."
)
ASSUMPTIONS = [
    "exception edges: raise statements, self.run()/self.evaluate() (overridable "
    "hooks that launch or parse), Popen/communicate(timeout)/subprocess.run/open "
    "(frozen I/O table); other calls are assumed not to raise",
    "@requires_state is the only state gate; its wrapper is checked structurally",
]
MIN_OBLIGATIONS = 60

HOOKS = {"run", "is_finished", "wait_interval", "evaluate", "clean_up"}
LIFECYCLE = {"start", "join", "cancel", "get_app_state", "__init__"}
STATE_WRITERS = {"__init__", "start", "join", "cancel", "get_app_state"}
EXPECTED_STATES = {
    "start": {"CREATED"},
    "join": {"RUNNING", "FINISHED"},
    "cancel": {"RUNNING", "FINISHED"},
}
IO_RAISERS = {"Popen", "run", "open", "communicate", "check_output", "check_call"}


def app_files(ctx):
    return [r for r in ctx.all_sources((".py",)) if r.startswith("application/")]


def decorator_states(func):
    d = has_decorator(func, "requires_state")
    if d is None or not isinstance(d, ast.Call) or not d.args:
        return None
    out = set()

    def rec(e):
        if isinstance(e, ast.BinOp) and isinstance(e.op, ast.BitOr):
            rec(e.left)
            rec(e.right)
        else:
            dn = dotted(e)
            if dn is None:
                raise AnalysisError(f"unrecognised requires_state argument {ast.unparse(e)}")
            out.add(dn.split(".")[-1])

    rec(d.args[0])
    return out


def is_static(func):
    return bool(
        has_decorator(func, "staticmethod")
        or has_decorator(func, "classmethod")
    )


def is_abstract(func):
    return bool(has_decorator(func, "abstractmethod"))


def trivial_body(func):
    b = body_nodoc(func)
    return all(isinstance(s, ast.Pass) for s in b) or not b


def self_call_stmt(name):
    def pred(n):
        if n.kind != "stmt" and n.kind != "test" and n.kind != "loop":
            return False
        for c in head_calls(n.ast):
            if call_name(c) == f"self.{name}":
                return True
        return False

    return pred


def super_call_pred(name):
    def pred(n):
        for c in head_calls(n.ast):
            if call_name(c) == f"super().{name}":
                return True
        return False

    return pred


def lifecycle_may_raise(st):
    if isinstance(st, ast.Raise):
        return True
    for c in head_calls(st):
        cn = call_name(c) or ""
        if cn in ("self.evaluate", "self.run"):
            return True
        last = cn.split(".")[-1]
        if last == "communicate" and any(k.arg == "timeout" for k in c.keywords):
            return {"TimeoutExpired"}
    return False


def io_may_raise(st):
    if isinstance(st, ast.Raise):
        return True
    for c in head_calls(st):
        cn = call_name(c) or ""
        last = cn.split(".")[-1]
        if last in IO_RAISERS:
            return True
    return False


def fmt_path(p):
    return " -> ".join(
        (n.label or f"L{n.line}:{ast.unparse(n.ast).splitlines()[0][:50]}") for n in p
    )


def msa_order_rules(ctx):
    """results are mapped back to the input order (MSAApp and its subclasses): the input file labels sequence i with str(i);
    the alignment rows are fetched by those labels in input order; get_alignment_order() lists, for every output position,
    the input index that stands there"""
    from ..exprnorm import same_expr
    MSA = "application/msaapp.py"
    s = ctx.src(MSA)
    run_ = s.func("MSAApp.run")
    ev = s.func("MSAApp.evaluate")

    def loops(f):
        return [lp for lp in ast.walk(f) if isinstance(lp, ast.For)]
    # writer: for i, seq in enumerate(sequences): file[str(i)] = str(seq)
    ok_w = False
    for lp in loops(run_):
        if isinstance(lp.iter, ast.Call) and call_name(lp.iter) == "enumerate" and isinstance(lp.target, ast.Tuple) and len(lp.target.elts) == 2 \
                and all(isinstance(e, ast.Name) for e in lp.target.elts):
            i_, v_ = (e.id for e in lp.target.elts)
            ok_w = ok_w or any(isinstance(b, ast.Assign) and isinstance(b.targets[0], ast.Subscript) and same_expr(b.targets[0].slice, f"str({i_})")
                               and same_expr(b.value, f"str({v_})") for b in lp.body)
    ctx.ob("R6.msa-input-labels", MSA, "MSAApp.run", "sequences_file[str(i)] = str(seq) for i, seq in enumerate(sequences)", ok_w,
           "the input file must label every sequence with its position in the input list: the labels are the only link back to the input order",
           run_.lineno)
    # reader: rows fetched by label in input order
    ok_r = False
    for lp in loops(ev):
        if isinstance(lp.iter, ast.Call) and call_name(lp.iter) == "range" and len(lp.iter.args) == 1 and same_expr(lp.iter.args[0], "len(self._sequences)") \
                and isinstance(lp.target, ast.Name):
            i_ = lp.target.id
            ok_r = ok_r or any(isinstance(b, ast.Assign) and isinstance(b.targets[0], ast.Subscript) and same_expr(b.targets[0].slice, i_)
                               and isinstance(b.value, ast.Subscript) and same_expr(b.value.slice, f"str({i_})") for b in lp.body)
    # ... or the same rows as a comprehension: [seq_dict[str(i)] for i in range(len(self._sequences))]
    for lc in ast.walk(ev):
        if isinstance(lc, ast.ListComp) and len(lc.generators) == 1 and not lc.generators[0].ifs and isinstance(lc.generators[0].target, ast.Name) \
                and isinstance(lc.generators[0].iter, ast.Call) and call_name(lc.generators[0].iter) == "range" and len(lc.generators[0].iter.args) == 1 \
                and same_expr(lc.generators[0].iter.args[0], "len(self._sequences)"):
            i_ = lc.generators[0].target.id
            ok_r = ok_r or (isinstance(lc.elt, ast.Subscript) and same_expr(lc.elt.slice, f"str({i_})"))
    ctx.ob("R6.msa-rows-by-label", MSA, "MSAApp.evaluate", "out_seq_str[i] = seq_dict[str(i)] for i in range(len(self._sequences))", ok_r,
           "row i of the alignment must be the output sequence labelled str(i), whatever order the program wrote them in", ev.lineno)
    # order: for position, label in enumerate(<output in file order>): order[position] = int(label)
    ok_o = False
    for lp in loops(ev):
        if isinstance(lp.iter, ast.Call) and call_name(lp.iter) == "enumerate" and isinstance(lp.target, ast.Tuple) and len(lp.target.elts) == 2 \
                and all(isinstance(e, ast.Name) for e in lp.target.elts):
            pos_, key_ = (e.id for e in lp.target.elts)
            for b in lp.body:
                if isinstance(b, ast.Assign) and isinstance(b.targets[0], ast.Subscript) and same_expr(b.targets[0].value, "self._order"):
                    ok_o = same_expr(b.targets[0].slice, pos_) and same_expr(b.value, f"int({key_})")
    # the same written as one expression: the labels in file order, each converted with int()
    for st in ast.walk(ev):
        if isinstance(st, ast.Assign) and same_expr(st.targets[0], "self._order"):
            for comp in ast.walk(st.value):
                if isinstance(comp, (ast.ListComp, ast.GeneratorExp)) and len(comp.generators) == 1 and not comp.generators[0].ifs \
                        and isinstance(comp.generators[0].target, ast.Name) and same_expr(comp.elt, f"int({comp.generators[0].target.id})"):
                    outer = st.value
                    wraps = isinstance(outer, ast.Call) and (call_name(outer) or "") in ("np.array", "np.asarray", "np.fromiter", "list") \
                        and outer.args and outer.args[0] is comp
                    ok_o = ok_o or wraps or outer is comp
    ctx.ob("R6.msa-order-is-output-order", MSA, "MSAApp.evaluate", "self._order[position] = int(label)", ok_o,
           "get_alignment_order() is documented as the input indices in the order of the program's output (alignment[:, order] rebuilds "
           "that order): entry `position` is the label found there, not the other way round (that is the inverse permutation)", ev.lineno)


def construction_and_output_rules(ctx, idx, apps, files):
    """(a) a constructor that can still refuse (wrong program version, invalid arguments) does so BEFORE it creates anything that only
    clean_up() removes - there is no object yet on which clean_up() could be called; (b) the child's output is read through
    communicate() only (which keeps what it has read: a direct read of the pipes makes the later communicate() return nothing);
    (c) the read files of the SRA dump wrappers are exactly `<prefix>.fastq` and `<prefix>_*.fastq`"""
    from ..lints import raising_functions
    from ..exprnorm import summarize, field_of, same_expr
    raising = raising_functions(ctx, files)

    def own_acquires(fn):
        return any(isinstance(c, ast.Call) and (call_name(c) or "").split(".")[-1] == "NamedTemporaryFile"
                   and any(k.arg == "delete" and isinstance(k.value, ast.Constant) and k.value.value is False for k in c.keywords) for c in ast.walk(fn))
    acquiring = set()
    for cname in apps:
        for anc in idx.mro(cname):
            ci = idx.classes.get(anc)
            init = ci.methods.get("__init__") if ci is not None else None
            if init is not None and own_acquires(init):
                acquiring.add(cname)
    n = 0
    for cname in apps:
        ci = idx.classes.get(cname)
        init = ci.methods.get("__init__") if ci is not None else None
        if init is None:
            continue

        def acquires(st):
            for c in ast.walk(st):
                if isinstance(c, ast.Call):
                    cn = call_name(c) or ""
                    if cn.split(".")[-1] == "NamedTemporaryFile" and any(k.arg == "delete" and isinstance(k.value, ast.Constant) and k.value.value is False for k in c.keywords):
                        return True
                    if cn == "super().__init__" and any(b in acquiring for b in idx.mro(cname)[1:]):
                        return True
            return False

        def refuses(st):
            return [x for x in ast.walk(st) if isinstance(x, ast.Raise)
                    or isinstance(x, ast.Call) and (call_name(x) or "").split(".")[-1] in raising and (call_name(x) or "") != "super().__init__"]
        first = next((k for k, st in enumerate(init.body) if acquires(st)), None)
        if first is None:
            continue
        n += 1
        late = [x for st in init.body[first + 1:] for x in refuses(st)]
        ctx.ob("R3.constructor-refuses-before-acquiring", ci.rel, f"{cname}.__init__", f"first temporary file at statement {first + 1}", not late,
               (f"`{ast.unparse(late[0])[:60]}` (line {late[0].lineno}) can still make the constructor fail after temporary files were created "
                "(delete=False): they stay on disk, no object exists whose clean_up() would remove them" if late else ""), init.lineno)
    ctx.floor("acquiring-constructors", n, 5)
    # (b)
    n_pipe = 0
    for rel in files:
        for x in ast.walk(ctx.src(rel).tree):
            if isinstance(x, ast.Attribute) and x.attr in ("stdout", "stderr") and isinstance(x.value, ast.Attribute) and x.value.attr == "_process":
                n_pipe += 1
                ctx.ob("R5.output-through-communicate", rel, "<module>", ast.unparse(x), False,
                       "the pipes of the child are read directly: Popen.communicate() (used by join()) then returns empty output and overwrites what was read", x.lineno)
    ctx.count("direct-pipe-reads", n_pipe)
    probe = ast.parse("self._process.stdout.read()")
    ctx.need(any(isinstance(x, ast.Attribute) and x.attr == "stdout" and isinstance(x.value, ast.Attribute) and x.value.attr == "_process" for x in ast.walk(probe)),
             "positive control of R5.output-through-communicate")
    comm = [c for rel in files for c in ast.walk(ctx.src(rel).tree) if isinstance(c, ast.Call) and (call_name(c) or "").endswith("_process.communicate")]
    ctx.ob("R5.output-through-communicate", "application/localapp.py", "<module>", f"{len(comm)} communicate() calls, {n_pipe} direct pipe reads",
           len(comm) >= 4 and n_pipe == 0, "", 1, nontrivial=False)
    # (c)
    SRA = "application/sra/app.py"
    ev = ctx.src(SRA).func("_DumpApp.evaluate")
    fn_ = field_of(summarize(ev), "self", "_file_names")
    ctx.ob("R6.dump-files", SRA, "_DumpApp.evaluate", "glob(prefix + '.fastq') + glob(prefix + '_*.fastq')",
           fn_ is not None and same_expr(fn_, "glob.glob(self._prefix + '.fastq') + glob.glob(self._prefix + '_*.fastq')"),
           "the reads of an accession are <prefix>.fastq or <prefix>_<n>.fastq: a looser pattern (<prefix>*.fastq) also returns the files of "
           "other accessions whose name starts with the same characters; the code computes " + (ast.unparse(fn_)[:120] if fn_ is not None else "nothing"), ev.lineno)


def run(ctx):
    files = app_files(ctx)
    ctx.need(len(files) >= 15, "application package files")
    idx = ClassIndex(ctx, files)
    ctx.need("Application" in idx.classes, "class Application")
    apps = ["Application"] + idx.subclasses("Application")
    from ..program import inline_inherited_new_helpers
    if inline_inherited_new_helpers(ctx, idx, apps):
        idx = ClassIndex(ctx, files)
    # a timeout of 0 seconds is a timeout (cancel at once), only None means "wait for ever"
    from ..lints import optional_numbers_tested_for_none
    optional_numbers_tested_for_none(ctx, "application/application.py", "R2.timeout-zero-honoured", 1)
    # the same for every optional number / index / key of the other application modules (`sequence_index=0` is the first sequence)
    for rel_ in sorted(files):
        if rel_ != "application/application.py" and rel_.endswith(".py"):
            optional_numbers_tested_for_none(ctx, rel_, "R6.optional-index-tested-for-none", 0)
    # the results are parsed with the library's own FASTA reader (tantan masks, alignments): one record per header of the tool's output
    from .C12 import text_layer_rules
    text_layer_rules(ctx, "R6")
    # clean_up removes what the application created, whatever else it removes: a step that can fail (a file the tool did not write,
    # a request) comes after the temporary files are gone
    n_cu = 0
    for rel_ in sorted(files):
        if not rel_.endswith(".py"):
            continue
        for q_, f_ in ctx.src(rel_).funcs.items():
            if q_.split(".")[-1] != "clean_up" or q_.count(".") != 1:
                continue
            calls_ = [(k_, st.value) for k_, st in enumerate(f_.body) if isinstance(st, ast.Expr) and isinstance(st.value, ast.Call)]
            temp_ = [k_ for k_, c_ in calls_ if call_name(c_) == "cleanup_tempfile"]
            risky_ = [k_ for k_, c_ in calls_ if call_name(c_) not in ("cleanup_tempfile", "super().clean_up")]
            all_temp_ = [c_ for c_ in ast.walk(f_) if isinstance(c_, ast.Call) and call_name(c_) == "cleanup_tempfile"]
            if not all_temp_:
                continue
            n_cu += 1
            # ... and whatever the run did: a temporary file is removed on every way through clean_up (a run that failed, was cancelled or
            # timed out never reached the state a condition may ask for)
            # (`if self._x_file is not None: cleanup_tempfile(self._x_file)` asks whether THAT file was created at all: as good as a statement)
            own_test_ = [c_ for st_ in f_.body if isinstance(st_, ast.If) and not st_.orelse and len(st_.body) == 1 and isinstance(st_.body[0], ast.Expr)
                         for c_ in [st_.body[0].value] if isinstance(c_, ast.Call) and call_name(c_) == "cleanup_tempfile" and len(c_.args) == 1
                         and same_expr(st_.test, ast.unparse(c_.args[0]) + " is not None")]
            ctx.ob("R2.tempfiles-removed-unconditionally", rel_, q_, f"{len(all_temp_)} cleanup_tempfile call(s), {len(temp_) + len(own_test_)} on every way through clean_up",
                   len(all_temp_) == len(temp_) + len(own_test_),
                   "a temporary file that is removed only under a condition stays behind when the run ends another way", f_.lineno)
            ctx.ob("R2.tempfiles-removed-first", rel_, q_, f"{len(temp_)} cleanup_tempfile call(s), {len(risky_)} other call(s)",
                   not risky_ or max(temp_) < min(risky_),
                   "a call that raises (removing a file the tool never wrote because the run failed or was cancelled) leaves the temporary "
                   "files that come after it on disk", f_.lineno)
    ctx.floor("clean_up-with-tempfiles", n_cu, 5)
    # ... and ONLY clean_up removes files: evaluate() runs on the way through a successful join and nowhere else - a file that is removed
    # there (because "it is only needed for reading") stays behind after a failing exit code, unparsable output, a timeout or a cancel
    n_rm, misplaced = 0, []
    for rel_ in sorted(files):
        if not rel_.endswith(".py"):
            continue
        for q_, f_ in ctx.src(rel_).funcs.items():
            if any(q_ != q2_ and q_.startswith(q2_ + ".") and q2_ in ctx.src(rel_).funcs for q2_ in ctx.src(rel_).funcs):
                continue            # nested functions are walked with their owners
            for c_ in ast.walk(f_):
                if isinstance(c_, ast.Call) and (call_name(c_) or "").split(".")[-1] in ("remove", "unlink", "cleanup_tempfile", "rmtree") \
                        and not (isinstance(c_.func, ast.Attribute) and isinstance(c_.func.value, ast.Name) and c_.func.value.id not in ("os", "shutil", "self")):
                    n_rm += 1
                    if q_.split(".")[-1] not in ("clean_up", "cleanup_tempfile"):
                        # (a private helper that only clean_up() calls is part of clean_up)
                        short_ = q_.split(".")[-1]
                        callers_ = [q2_ for q2_, f2_ in ctx.src(rel_).funcs.items() if q2_ != q_ and any(
                            isinstance(x, ast.Call) and (call_name(x) or "").split(".")[-1] == short_ for x in ast.walk(f2_))]
                        if short_.startswith("_") and callers_ and all(q2_.split(".")[-1] in ("clean_up", "cleanup_tempfile") for q2_ in callers_):
                            continue
                        misplaced.append((rel_, q_, c_))
    ctx.floor("file-removals-in-applications", n_rm, 20)
    for rel_, q_, c_ in misplaced or [(None, None, None)]:
        ctx.ob("R2.files-removed-in-clean-up-only", rel_ or "application/application.py", q_ or "<package>",
               c_ if c_ is not None else f"{n_rm} removal(s), all inside clean_up() / cleanup_tempfile()", c_ is None,
               "a file that is removed outside clean_up() is removed only on the way that reaches this statement: after a failed, cancelled or "
               "timed-out run it stays behind", getattr(c_, "lineno", 1))
    # MAFFT labels the leaves of its guide tree `<n>_<name>`: the prefix that is cut off is a number of ANY length followed by `_`
    # (the pattern is a literal: it is evaluated on three labels)
    import re as _re

    def _prefix_cut(f_):
        """the pattern is applied to the whole text with the empty replacement: `re.sub(_prefix_pattern, '', text)` or
        `_prefix_pattern.sub('', text)` (the same call), no count"""
        for c_ in ast.walk(f_):
            if not isinstance(c_, ast.Call) or c_.keywords:
                continue
            cn_ = call_name(c_)
            a_ = c_.args
            if cn_ == "re.sub" and len(a_) == 3 and isinstance(a_[0], ast.Name) and a_[0].id == "_prefix_pattern":
                rep_ = a_[1]
            elif cn_ == "_prefix_pattern.sub" and len(a_) == 2:
                rep_ = a_[0]
            else:
                continue
            if isinstance(rep_, ast.Constant) and rep_.value == "":
                return True
        return False
    mf = ctx.src("application/mafft/app.py")
    pat = mf.module_assign("_prefix_pattern")
    lit = pat.args[0] if isinstance(pat, ast.Call) and call_name(pat) == "re.compile" and pat.args and isinstance(pat.args[0], ast.Constant) else None
    ok_pat = False
    if lit is not None and isinstance(lit.value, str) and len(pat.args) == 1 and not pat.keywords:
        try:
            rx = _re.compile(lit.value)
            ok_pat = all(_re.sub(rx, "", a_) == b_ for a_, b_ in (("(1_0:1.0,10_9:2.0);", "(0:1.0,9:2.0);"), ("123_45", "45"), ("7_x", "x")))
        except _re.error:
            ok_pat = False
    ctx.ob("R6.mafft-tree-labels", "application/mafft/app.py", "<module>", f"_prefix_pattern = {ast.unparse(pat)[:40]}",
           ok_pat and _prefix_cut(mf.func("MafftApp.evaluate")),
           "with ten or more sequences the running number has two digits: a pattern for one digit leaves `1` in front of the index (leaf 10_9 "
           "becomes 19)", 1)
    # the polling join gives up only on a job that is NOT finished: the TimeoutError is raised under the fact
    # `get_app_state() != FINISHED` of the same iteration (a job that finished long ago and is joined late is evaluated, not cancelled)
    from ..facts import facts_at as _facts_at
    from ..exprnorm import spec as _spec
    jn = ctx.src("application/application.py").func("Application.join")
    rs = [st for st in ast.walk(jn) if isinstance(st, ast.Raise) and st.exc is not None and "TimeoutError" in ast.unparse(st.exc)]
    ctx.need(bool(rs), "TimeoutError of Application.join")
    for r_ in rs:
        # (the facts at the test that decides to give up: the body's own self.cancel() changes the state afterwards)
        decide = [i_ for i_ in ast.walk(jn) if isinstance(i_, ast.If) and any(x is r_ for b_ in i_.body for x in ast.walk(b_))]
        at = min(decide, key=lambda i_: sum(1 for _ in ast.walk(i_))) if decide else r_
        if not decide:
            # the decision written as a guard clause (`if <keep waiting>: continue` .. cancel .. raise): the facts are those in force right
            # behind the last guard clause in front of the raise
            for blk_ in [b_ for n_ in ast.walk(jn) for b_ in (getattr(n_, "body", None), getattr(n_, "orelse", None)) if isinstance(b_, list)]:
                if any(x is r_ for x in blk_):
                    k_r = next(k_ for k_, x in enumerate(blk_) if x is r_)
                    guards_ = [k_ for k_ in range(k_r) if isinstance(blk_[k_], ast.If) and not blk_[k_].orelse and blk_[k_].body
                               and isinstance(blk_[k_].body[-1], (ast.Continue, ast.Return, ast.Break))]
                    if guards_:
                        at = blk_[guards_[-1] + 1]
        fs = {repr(x) for x in _facts_at(jn, at)}
        ctx.ob("R2.timeout-only-while-unfinished", "application/application.py", "Application.join", "raise TimeoutError under get_app_state() != FINISHED",
               repr(_spec("self.get_app_state() != AppState.FINISHED")) in fs,
               "the timeout is checked before the state: an application that has finished but is joined later than `timeout` seconds "
               "after its start is cancelled and its results are thrown away", r_.lineno)
        # ... and every number is a timeout (0 means "give up at once"): what the test says about `timeout` is that it is given and
        # that it is exceeded, nothing else
        if decide:
            from ..facts import conjuncts as _conj
            import copy as _copy
            from ..exprnorm import canon as _canon
            allowed = {repr(_spec("timeout is not None")), repr(_spec("time.time() - self._start_time > timeout")),
                       repr(_spec("time.time() - self._start_time >= timeout"))}
            extra = [ast.unparse(c_) for c_ in _conj(_copy.deepcopy(at.test)) if any(isinstance(x, ast.Name) and x.id == "timeout" for x in ast.walk(c_))
                     and repr(_canon(c_)) not in allowed]
            ctx.ob("R2.timeout-zero-honoured", "application/application.py", "Application.join", "the timeout test: given, and exceeded", not extra,
                   f"the decision to give up also depends on {extra}: a timeout for which that is false (0, a negative number) never expires", at.lineno)
    msa_order_rules(ctx)
    construction_and_output_rules(ctx, idx, apps, files)
    ctx.count("application_classes", len(apps))
    ctx.floor("classes", len(apps), 15)

    # ------------------------------------------------------------------
    # R1d  the gate itself
    s_app = ctx.src("application/application.py")
    wrapper = s_app.func("requires_state.decorator.wrapper")
    g = CFG(wrapper, lambda st: isinstance(st, ast.Raise))
    gate = None
    for n in g.nodes:
        if n.kind == "test" and isinstance(n.ast, ast.If):
            names = {d for d in (dotted(x) for x in ast.walk(n.ast.test)) if d}
            if any(d.endswith("._state") for d in names) and "app_state" in names:
                gate = n
    ctx.need(gate is not None, "state test in requires_state wrapper")
    t = gate.ast.test
    ok_shape = (
        isinstance(t, ast.UnaryOp)
        and isinstance(t.op, ast.Not)
        and isinstance(t.operand, ast.BinOp)
        and isinstance(t.operand.op, ast.BitAnd)
        and {
            (dotted(t.operand.left) or "").split(".")[-1],
            (dotted(t.operand.right) or "").split(".")[-1],
        }
        == {"_state", "app_state"}
    )
    raises = any(
        isinstance(s, ast.Raise)
        and s.exc is not None
        and "AppStateError" in ast.unparse(s.exc)
        for s in gate.ast.body
    )
    ctx.ob(
        "R1.gate-test", "application/application.py", "requires_state.decorator.wrapper",
        t, ok_shape and raises,
        "the state gate must raise AppStateError exactly when (state & required) is empty",
        gate.line,
    )
    call_nodes = [
        n for n in g.nodes
        if n.ast is not None and n.kind == "stmt"
        and any(call_name(c) == "func" for c in head_calls(n.ast))
    ]
    ctx.need(call_nodes, "call of the wrapped function in requires_state")
    dom = g.dominators()
    for cn in call_nodes:
        # the call must be dominated by the gate and only reachable over its false edge
        via_false = gate.id in dom.get(cn.id, set()) and cn.id not in g.reachable(
            [b for b in g.succ[gate.id] if g.ekind[(gate.id, b)] == "t"]
        )
        ctx.ob(
            "R1.gate-dominates", "application/application.py",
            "requires_state.decorator.wrapper", cn.ast, via_false,
            "wrapped method reachable without passing the state test (side effects before the state error)",
            cn.line,
        )

    # ------------------------------------------------------------------
    # field roles per class
    def mro_funcs(cls, name):
        out = []
        for c in idx.mro(cls):
            ci = idx.classes.get(c)
            if ci and name in ci.methods:
                out.append((ci, ci.methods[name]))
        return out

    def result_fields(cls):
        out = set()
        for ci, f in mro_funcs(cls, "evaluate"):
            out |= {a for a, st, t in attr_writes(f) if not isinstance(t, ast.Subscript)}
        return out

    def input_fields(cls):
        out = set()
        for ci, f in mro_funcs(cls, "run"):
            for n in ast.walk(f):
                if (
                    isinstance(n, ast.Attribute)
                    and isinstance(n.ctx, ast.Load)
                    and isinstance(n.value, ast.Name)
                    and n.value.id == "self"
                ):
                    out.add(n.attr)
        # fields, not methods
        meths = set()
        for c in idx.mro(cls):
            ci = idx.classes.get(c)
            if ci:
                meths |= set(ci.methods)
        return out - meths

    n_public = 0
    for cls in apps:
        ci = idx.get(cls)
        res = result_fields(cls)
        inp = input_fields(cls)
        for name, f in ci.methods.items():
            qual = f"{cls}.{name}"
            states = decorator_states(f)
            if name in EXPECTED_STATES:
                ctx.ob(
                    "R1.lifecycle-states", ci.rel, qual,
                    f"requires_state({'|'.join(sorted(states or []))})",
                    states == EXPECTED_STATES[name],
                    f"{name} must be gated by {sorted(EXPECTED_STATES[name])}",
                    f.lineno,
                )
            if name.startswith("_") or name in HOOKS or name in LIFECYCLE:
                continue
            if is_static(f):
                continue
            n_public += 1
            # getter of a result field
            returned = set()
            for r in walk_local(f):
                if isinstance(r, ast.Return) and r.value is not None:
                    for a in ast.walk(r.value):
                        if (
                            isinstance(a, ast.Attribute)
                            and isinstance(a.value, ast.Name)
                            and a.value.id == "self"
                            and isinstance(a.ctx, ast.Load)
                        ):
                            returned.add(a.attr)
            hit = sorted(returned & res)
            if hit:
                ctx.ob(
                    "R1.result-getter", ci.rel, qual,
                    "returns " + ",".join("self." + h for h in hit),
                    states == {"JOINED"},
                    f"returns result field(s) {hit} assigned only by evaluate(); must require "
                    f"AppState.JOINED, found {sorted(states) if states else 'no state requirement'}",
                    f.lineno,
                )
            written = sorted(
                {a for a, st, t in attr_writes(f)} & inp
            )
            if written:
                ctx.ob(
                    "R1.input-setter", ci.rel, qual,
                    "assigns " + ",".join("self." + w for w in written),
                    states == {"CREATED"},
                    f"assigns input field(s) {written} read by run(); must require "
                    f"AppState.CREATED, found {sorted(states) if states else 'no state requirement'}",
                    f.lineno,
                )
    ctx.count("public_methods_classified", n_public)

    # ------------------------------------------------------------------
    # R2 clean-up on every exit
    # summary: which self.<m>() are cleaners (all normal paths pass clean_up)
    cleaners = {"clean_up"}
    c_app, f_cancel = idx.resolve("Application", "cancel")
    ctx.need(f_cancel is not None, "Application.cancel")

    def is_cleanup_node(n):
        for c in head_calls(n.ast):
            cn = call_name(c) or ""
            if cn.startswith("self.") and cn[5:] in cleaners:
                return True
        return False

    for cls in apps:
        ci = idx.get(cls)
        if "cancel" in ci.methods:
            f = ci.methods["cancel"]
            g = CFG(f, lifecycle_may_raise)
            w = g.path(g.entry.id, g.exit.id,
                       blocked={n.id for n in g.nodes if n.ast is not None and is_cleanup_node(n)})
            ok = w is None
            ctx.ob("R2.cleanup-all-exits", ci.rel, f"{cls}.cancel", "exit without clean_up()",
                   ok, "path leaves cancel() without clean_up(): " + (fmt_path(w) if w else ""),
                   f.lineno)
            if ok and cls == "Application":
                cleaners.add("cancel")
    ctx.need("cancel" in cleaners or True, "cancel summary")

    # which clean_up implementations look at the state?
    state_sensitive_cleanup = []
    for cls in apps:
        ci = idx.get(cls)
        f = ci.methods.get("clean_up")
        if f is None:
            continue
        reads = any(call_name(c) == "self.get_app_state" for c in calls(f)) or "_state" in attrs_in(f)
        if reads:
            state_sensitive_cleanup.append(f"{cls}.clean_up")
    ctx.floor("state-sensitive-cleanups", len(state_sensitive_cleanup), 1)
    n_join = 0
    for cls in apps:
        ci = idx.get(cls)
        for name in ("join", "cancel", "start"):
            if name not in ci.methods:
                continue
            f = ci.methods[name]
            g = CFG(f, lifecycle_may_raise)
            targets = {n.id for n in g.nodes if n.ast is not None and n.kind != "join"
                       and n.kind != "dispatch" and n.kind != "handler" and is_cleanup_node(n)}
            exempt = {
                n.id for n in g.nodes
                if n.kind == "handler" and n.ast.type is not None
                and "AppStateError" in ast.unparse(n.ast.type)
            }
            blocked = targets | exempt
            if name == "join":
                n_join += 1
                for goal, gname in ((g.exit.id, "normal return"), (g.raise_.id, "exception")):
                    w = g.path(g.entry.id, goal, blocked=blocked)
                    ctx.ob(
                        "R2.cleanup-all-exits", ci.rel, f"{cls}.join",
                        f"exit by {gname} without clean_up()", w is None,
                        "a run that ended leaves join() without clean_up(): "
                        + (fmt_path(w) if w else ""),
                        (w[-2].line if w and len(w) > 1 else f.lineno),
                    )
                # JOINED only after a successful evaluate
                ev = [n.id for n in g.nodes if n.ast is not None and n.kind == "stmt"
                      and any(call_name(c) == "self.evaluate" for c in head_calls(n.ast))]
                ctx.need(ev, f"{cls}.join calls self.evaluate()")
                for n in g.nodes:
                    if n.ast is None or n.kind != "stmt":
                        continue
                    for a, st, tg in attr_writes(ast.Module(body=[n.ast], type_ignores=[])) if False else []:
                        pass
                    if (
                        isinstance(n.ast, ast.Assign)
                        and any(dotted(t) == "self._state" for t in n.ast.targets)
                        and (dotted(n.ast.value) or "").endswith("JOINED")
                    ):
                        # reachable without evaluate node at all?
                        w1 = g.path(g.entry.id, n.id, blocked=set(ev))
                        # reachable over an exception edge of evaluate?
                        exc_succ = [b for e in ev for b in g.succ[e] if g.ekind[(e, b)] == "exc"]
                        w2 = None
                        for b in exc_succ:
                            w2 = w2 or g.path(b, n.id)
                        ctx.ob(
                            "R1.joined-after-evaluate", ci.rel, f"{cls}.join", n.ast,
                            w1 is None and w2 is None,
                            "state JOINED reachable without a successful evaluate()",
                            n.line,
                        )
            elif name == "start":
                runs = [n.id for n in g.nodes if n.ast is not None and n.kind == "stmt"
                        and any(call_name(c) == "self.run" for c in head_calls(n.ast))]
                ctx.need(runs, f"{cls}.start calls self.run()")
                w = None
                for r in runs:
                    for b in g.succ[r]:
                        if g.ekind[(r, b)] == "exc":
                            w = w or g.path(b, g.raise_.id, blocked=blocked) if b != g.raise_.id else [g.nodes[r], g.nodes[b]]
                ctx.ob(
                    "R2.cleanup-after-failed-launch", ci.rel, f"{cls}.start",
                    "run() raises -> exit without clean_up()", w is None,
                    "a failure to launch leaves start() without clean_up() (temp files stay): "
                    + (fmt_path(w) if w else ""),
                    f.lineno,
                )
                # RUNNING only after run() returned
                for n in g.nodes:
                    if (
                        n.ast is not None and isinstance(n.ast, ast.Assign)
                        and any(dotted(t) == "self._state" for t in n.ast.targets)
                        and (dotted(n.ast.value) or "").endswith("RUNNING")
                    ):
                        w1 = g.path(g.entry.id, n.id, blocked=set(runs))
                        ctx.ob("R1.running-after-run", ci.rel, f"{cls}.start", n.ast,
                               w1 is None, "state RUNNING reachable without run()", n.line)
            # the state flag is terminal before clean_up() runs: clean_up
            # implementations branch on it (kill the child only when CANCELLED)
            if name in ("join", "cancel") and state_sensitive_cleanup:
                terminal = {
                    n.id for n in g.nodes
                    if n.ast is not None and isinstance(n.ast, ast.Assign)
                    and any(dotted(t) == "self._state" for t in n.ast.targets)
                    and (dotted(n.ast.value) or "").split(".")[-1] in ("CANCELLED", "JOINED")
                }
                for t in sorted(targets):
                    tn = g.nodes[t]
                    if not any(call_name(c) == "self.clean_up" for c in head_calls(tn.ast)):
                        continue  # self.cancel() sets the state itself
                    w = g.path(g.entry.id, t, blocked=terminal)
                    ctx.ob(
                        "R2.state-terminal-before-cleanup", ci.rel, f"{cls}.{name}", tn.ast,
                        w is None,
                        "clean_up() is reached before the state is set to CANCELLED/JOINED, but "
                        f"{', '.join(state_sensitive_cleanup)} decide(s) by the state whether to "
                        "kill the child process: " + (fmt_path(w) if w else ""),
                        tn.line,
                    )
            # exactly once
            if name in ("join", "cancel"):
                twice = None
                for t in targets:
                    r = g.reachable(list(g.succ[t]))
                    if r & targets:
                        twice = g.nodes[t]
                ctx.ob(
                    "R2.cleanup-at-most-once", ci.rel, f"{cls}.{name}",
                    "two clean_up() on one path", twice is None,
                    f"a path passes clean_up() twice (first at line {twice.line if twice else ''})",
                    twice.line if twice else f.lineno,
                )
    ctx.floor("join", n_join, 3)

    # ------------------------------------------------------------------
    # R3a chdir pairing, every function of the package
    n_chdir = 0
    for rel in files:
        s = ctx.src(rel)
        for qual, f in s.funcs.items():
            chd = [c for c in calls(f) if (call_name(c) or "").split(".")[-1] == "chdir"]
            if not chd:
                continue
            # a context manager CLASS: __enter__ saves the directory in an attribute and changes it, __exit__ (which Python runs on every way
            # out of the `with` block) changes back to that attribute on every way through it
            if qual.endswith((".__enter__", ".__exit__")) and qual.count(".") == 1:
                cls_ = qual.split(".")[0]
                en_, ex_ = s.funcs.get(f"{cls_}.__enter__"), s.funcs.get(f"{cls_}.__exit__")
                if en_ is not None and ex_ is not None:
                    if qual.endswith(".__exit__"):
                        continue
                    saved_attrs = {t.attr for st in stmts(en_) if isinstance(st, ast.Assign) and isinstance(st.value, ast.Call)
                                   and (call_name(st.value) or "").split(".")[-1] == "getcwd" for t in st.targets
                                   if isinstance(t, ast.Attribute) and isinstance(t.value, ast.Name) and t.value.id == "self"}
                    gx = CFG(ex_, io_may_raise)
                    back = {n.id for n in gx.nodes if n.ast is not None and n.kind == "stmt" and any(
                        (call_name(c) or "").split(".")[-1] == "chdir" and c.args and isinstance(c.args[0], ast.Attribute) and c.args[0].attr in saved_attrs
                        for c in head_calls(n.ast))}
                    first_save = min([st.lineno for st in stmts(en_) if isinstance(st, ast.Assign) and isinstance(st.value, ast.Call)
                                      and (call_name(st.value) or "").split(".")[-1] == "getcwd"] or [10 ** 9])
                    n_chdir += 1
                    ctx.ob("R3.chdir-restored", rel, qual, chd[0],
                           bool(saved_attrs) and bool(back) and gx.path(gx.entry.id, gx.exit.id, blocked=back) is None and first_save < chd[0].lineno,
                           f"context manager {cls_}: __enter__ must save the directory before it changes it and __exit__ must change back to the saved one "
                           "on every way through", chd[0].lineno)
                    continue
            saved = set()
            for st in stmts(f):
                if isinstance(st, ast.Assign) and isinstance(st.value, ast.Call) and (
                    call_name(st.value) or ""
                ).split(".")[-1] == "getcwd":
                    for t in st.targets:
                        if isinstance(t, ast.Name):
                            saved.add(t.id)
            g = CFG(f, io_may_raise)

            def kind_of(n):
                for c in head_calls(n.ast):
                    if (call_name(c) or "").split(".")[-1] == "chdir" and c.args:
                        a = c.args[0]
                        if isinstance(a, ast.Name) and a.id in saved:
                            return "restore"
                        return "change"
                return None

            restores = {n.id for n in g.nodes if n.ast is not None and n.kind == "stmt" and kind_of(n) == "restore"}
            for n in g.nodes:
                if n.ast is None or n.kind != "stmt" or kind_of(n) != "change":
                    continue
                n_chdir += 1
                starts = [b for b in g.succ[n.id] if g.ekind[(n.id, b)] != "exc"]
                w = None
                for s0 in starts:
                    for goal in (g.exit.id, g.raise_.id):
                        if w is None:
                            w = g.path(s0, goal, blocked=restores)
                ctx.ob(
                    "R3.chdir-restored", rel, qual, n.ast, w is None,
                    "working directory changed and not restored on the path: "
                    + (fmt_path(w) if w else ""),
                    n.line,
                )
    ctx.floor("chdir", n_chdir, 1)

    # ------------------------------------------------------------------
    # R3b temp files, R3c super chains
    n_tmp = 0
    for cls in apps:
        ci = idx.get(cls)
        created = {}
        for name, f in ci.methods.items():
            for st in stmts(f):
                if isinstance(st, ast.Assign) and isinstance(st.value, ast.Call) and (
                    call_name(st.value) or ""
                ).split(".")[-1] == "NamedTemporaryFile":
                    for t in st.targets:
                        d = dotted(t)
                        if d and d.startswith("self."):
                            created[d[5:]] = st
        cleaned = set()
        if "clean_up" in ci.methods:
            for c in calls(ci.methods["clean_up"]):
                if (call_name(c) or "").split(".")[-1] == "cleanup_tempfile" and c.args:
                    d = dotted(c.args[0])
                    if d and d.startswith("self."):
                        cleaned.add(d[5:])
        for attr, st in sorted(created.items()):
            n_tmp += 1
            ctx.ob(
                "R3.tempfile-released", ci.rel, f"{cls}.clean_up", f"self.{attr}",
                attr in cleaned,
                f"temporary file self.{attr} created by {cls} is not passed to "
                f"cleanup_tempfile in {cls}.clean_up",
                st.lineno,
            )
        for extra in sorted(cleaned - set(created)):
            ctx.ob(
                "R3.tempfile-released", ci.rel, f"{cls}.clean_up", f"self.{extra} (cleanup only)",
                False or _inherited_tempfile(idx, cls, extra),
                f"cleanup_tempfile(self.{extra}) but {cls} never creates it",
                ci.methods["clean_up"].lineno, nontrivial=False,
            )
        for h in ("run", "evaluate", "clean_up"):
            if h not in ci.methods or cls == "Application":
                continue
            pc, pf = idx.resolve(cls, h, after=cls)
            if pf is None or is_abstract(pf) or trivial_body(pf):
                continue
            f = ci.methods[h]
            g = CFG(f, lambda st: isinstance(st, ast.Raise))
            sup = {n.id for n in g.nodes if n.ast is not None and super_call_pred(h)(n)}
            w = g.path(g.entry.id, g.exit.id, blocked=sup)
            ctx.ob(
                "R3.hook-chains-to-super", ci.rel, f"{cls}.{h}", f"super().{h}()",
                w is None,
                f"{cls}.{h} overrides {pc.name}.{h} (which "
                + {"run": "launches the process", "evaluate": "checks the exit code",
                   "clean_up": "kills the process / releases temp files"}[h]
                + f") without calling super().{h}() on every path",
                f.lineno,
            )
    ctx.floor("tempfiles", n_tmp, 20)

    # ------------------------------------------------------------------
    # R4 who may write the state flag
    n_w = 0
    for rel in files:
        s = ctx.src(rel)
        for qual, f in s.funcs.items():
            for st in stmts(f):
                for t in (st.targets if isinstance(st, ast.Assign) else
                          [st.target] if isinstance(st, (ast.AugAssign, ast.AnnAssign)) else []):
                    if isinstance(t, ast.Attribute) and t.attr == "_state":
                        n_w += 1
                        meth = qual.split(".")[-1]
                        ctx.ob(
                            "R4.state-writer", rel, qual, st,
                            meth in STATE_WRITERS and qual.count(".") == 1,
                            "the state flag is written outside the life-cycle methods "
                            "(start/join/cancel/get_app_state/__init__)",
                            st.lineno, nontrivial=False,
                        )
    ctx.floor("state-writes", n_w, 10)

    # ------------------------------------------------------------------
    # R5 success means exit code 0: every evaluate() that looks at the exit code refuses *every* non-zero code
    n_ec = 0
    for rel in files:
        s = ctx.src(rel)
        for qual, f in s.funcs.items():
            if qual.split(".")[-1] != "evaluate":
                continue
            codes = set()
            for st in stmts(f):
                if isinstance(st, ast.Assign) and isinstance(st.targets[0], ast.Name):
                    v = ast.unparse(st.value)
                    if v.endswith(".returncode") or "get_exit_code()" in v:
                        codes.add(st.targets[0].id)
            for st in stmts(f):
                if not isinstance(st, ast.If):
                    continue
                for c in ast.walk(st.test):
                    if isinstance(c, ast.Compare) and len(c.ops) == 1 and isinstance(c.comparators[0], ast.Constant) \
                            and c.comparators[0].value == 0 and (
                                (isinstance(c.left, ast.Name) and c.left.id in codes)
                                or ast.unparse(c.left).endswith(".returncode") or has_code(c.left, "get_exit_code()")):
                        n_ec += 1
                        raises_t = any(isinstance(b, ast.Raise) for b in st.body)
                        raises_f = any(isinstance(b, ast.Raise) for b in st.orelse)
                        ok = (isinstance(c.ops[0], ast.NotEq) and raises_t) or (isinstance(c.ops[0], ast.Eq) and raises_f)
                        ctx.ob("R5.nonzero-exit-refused", rel, qual, c, ok,
                               "results may be read only after a successful run: every exit code other than 0 must make evaluate() fail "
                               "(a child killed by a signal has a negative code)", c.lineno)
    ctx.floor("exit-code-checks", n_ec, 2)


def _inherited_tempfile(idx, cls, attr):
    for c in idx.mro(cls)[1:]:
        ci = idx.classes.get(c)
        if not ci:
            continue
        for f in ci.methods.values():
            for st in stmts(f):
                if isinstance(st, ast.Assign) and isinstance(st.value, ast.Call) and (
                    call_name(st.value) or ""
                ).split(".")[-1] == "NamedTemporaryFile":
                    if any(dotted(t) == f"self.{attr}" for t in st.targets):
                        return True
    return False


MUTANTS = [
    Mutant("muscle-version-check-after-super", "application/muscle/app3.py", "        major_version = get_version(bin_path, \"-version\")[0]\n        if major_version != 3:\n            raise VersionError(f\"Muscle 3 is required, got version {major_version}\")\n\n        super().__init__(sequences, bin_path, matrix)\n",
           "        super().__init__(sequences, bin_path, matrix)\n        major_version = get_version(bin_path, \"-version\")[0]\n        if major_version != 3:\n            raise VersionError(f\"Muscle 3 is required, got version {major_version}\")\n",
           "R3.constructor-refuses-before-acquiring"),
    Mutant("is-finished-reads-pipes", "application/localapp.py", "            self._stdout, self._stderr = self._process.communicate()\n", "            self._stdout = self._process.stdout.read()\n            self._stderr = self._process.stderr.read()\n",
           "R5.output-through-communicate"),
    Mutant("dump-files-loose-pattern", "application/sra/app.py", "            glob.glob(self._prefix + \"_*.fastq\")\n", "            glob.glob(self._prefix + \"*.fastq\")\n", "R6.dump-files"),
    Mutant("msa-order-inverted", "application/msaapp.py", "            self._order[i] = int(seq_index)\n", "            self._order[int(seq_index)] = i\n", "R6.msa-order-is-output-order"),
    Mutant("msa-rows-in-file-order", "application/msaapp.py", "            out_seq_str[i] = seq_dict[str(i)]\n", "            out_seq_str[i] = list(seq_dict.values())[i]\n", "R6.msa-rows-by-label"),
    Mutant("msa-labels-from-one", "application/msaapp.py", "            sequences_file[str(i)] = str(seq)\n", "            sequences_file[str(i + 1)] = str(seq)\n", "R6.msa-input-labels"),
    Mutant("join-timeout-truthiness", "application/application.py", "            if timeout is not None and time.time() - self._start_time > timeout:\n",
           "            if timeout and time.time() - self._start_time > timeout:\n", "R2.timeout-zero-honoured"),
    Mutant("exit-code-positive-only", "application/localapp.py", "        if exit_code != 0:", "        if exit_code > 0:", "R5.nonzero-exit-refused"),
    Mutant("cancel-drops-cleanup", "application/application.py",
           "        self._state = AppState.CANCELLED\n        self.clean_up()\n\n    def get_app_state",
           "        self._state = AppState.CANCELLED\n\n    def get_app_state",
           "R2.cleanup-all-exits"),
    Mutant("getter-loses-gate", "application/msaapp.py",
           "    @requires_state(AppState.JOINED)\n    def get_alignment(self):",
           "    def get_alignment(self):", "R1.result-getter", "MSAApp.get_alignment"),
    Mutant("getter-gate-widened", "application/msaapp.py",
           "    @requires_state(AppState.JOINED)\n    def get_alignment_order(self):",
           "    @requires_state(AppState.JOINED | AppState.FINISHED)\n    def get_alignment_order(self):",
           "R1.result-getter", "MSAApp.get_alignment_order"),
    Mutant("setter-loses-gate", "application/localapp.py",
           "    @requires_state(AppState.CREATED)\n    def set_exec_dir(",
           "    def set_exec_dir(", "R1.input-setter", "LocalApp.set_exec_dir"),
    Mutant("tempfile-not-released", "application/msaapp.py",
           "        cleanup_tempfile(self._out_file)\n", "", "R3.tempfile-released"),
    Mutant("clustalo-tempfile", "application/clustalo/app.py",
           "        cleanup_tempfile(self._in_tree_file)\n", "", "R3.tempfile-released"),
    Mutant("msa-cleanup-no-super", "application/msaapp.py",
           "    def clean_up(self):\n        super().clean_up()\n", "    def clean_up(self):\n",
           "R3.hook-chains-to-super", "MSAApp.clean_up"),
    Mutant("msa-evaluate-no-super", "application/msaapp.py",
           "    def evaluate(self):\n        super().evaluate()\n", "    def evaluate(self):\n",
           "R3.hook-chains-to-super", "MSAApp.evaluate"),
    Mutant("state-written-elsewhere", "application/localapp.py",
           "    def is_finished(self):\n        code = self._process.poll()\n",
           "    def is_finished(self):\n        code = self._process.poll()\n        self._state = AppState.FINISHED\n",
           "R4.state-writer"),
    Mutant("gate-polarity", "application/application.py",
           "if not instance._state & app_state:", "if instance._state & app_state:",
           "R1.gate-test"),
    Mutant("gate-after-call", "application/application.py",
           "            return func(*args, **kwargs)\n",
           "            pass\n            return func(*args, **kwargs)\n",
           "R1.gate-dominates", kind="break") if False else
    Mutant("join-gate", "application/localapp.py",
           "    @requires_state(AppState.RUNNING | AppState.FINISHED)\n    def join(",
           "    @requires_state(AppState.RUNNING | AppState.FINISHED | AppState.CREATED)\n    def join(",
           "R1.lifecycle-states", "LocalApp.join"),
    Mutant("joined-before-evaluate", "application/application.py",
           "        try:\n            self.evaluate()\n        except AppStateError:\n            raise\n        except:\n            self._state = AppState.CANCELLED\n",
           "        try:\n            self.evaluate()\n        except AppStateError:\n            raise\n        except:\n            self._state = AppState.JOINED\n",
           "R1.joined-after-evaluate", "Application.join"),
    Mutant("double-cleanup", "application/application.py",
           "            self._state = AppState.JOINED\n        self.clean_up()\n",
           "            self._state = AppState.JOINED\n            self.clean_up()\n        self.clean_up()\n",
           "R2.cleanup-at-most-once", "Application.join"),
    Mutant("regress-join-cleanup", "application/application.py",
           "            self._state = AppState.CANCELLED\n            self.clean_up()\n            raise\n",
           "            self._state = AppState.CANCELLED\n            raise\n",
           "R2.cleanup-all-exits", "Application.join"),
    Mutant("regress-localjoin-cleanup", "application/localapp.py",
           "            self._state = AppState.CANCELLED\n            self.clean_up()\n            raise\n",
           "            self._state = AppState.CANCELLED\n            raise\n",
           "R2.cleanup-all-exits", "LocalApp.join"),
    Mutant("regress-chdir", "application/localapp.py",
           "        finally:\n            chdir(cwd)\n", "        finally:\n            pass\n        chdir(cwd)\n",
           "R3.chdir-restored", "LocalApp.run"),
    Mutant("regress-mafft-super", "application/mafft/app.py",
           "    def clean_up(self):\n        super().clean_up()\n", "    def clean_up(self):\n",
           "R3.hook-chains-to-super", "MafftApp.clean_up"),
    Mutant("repair-start-cleanup", "application/application.py",
           "        self.run()\n        self._start_time",
           "        try:\n            self.run()\n        except BaseException:\n            self._state = AppState.CANCELLED\n            self.clean_up()\n            raise\n        self._start_time",
           "R2.cleanup-after-failed-launch", "Application.start", kind="repair"),
    Mutant("cancel-cleanup-before-state", "application/application.py",
           "        self._state = AppState.CANCELLED\n        self.clean_up()\n\n    def get_app_state",
           "        self.clean_up()\n        self._state = AppState.CANCELLED\n\n    def get_app_state",
           "R2.state-terminal-before-cleanup", "Application.cancel"),
    Mutant("timeout-no-cancel", "application/localapp.py",
           "        except TimeoutExpired:\n            self.cancel()\n",
           "        except TimeoutExpired:\n",
           "R2.cleanup-all-exits", "LocalApp.join"),
    Mutant("gate-warns-only", "application/application.py",
           "                raise AppStateError(\n                    f\"The application is in {instance.get_app_state()} state, \"\n                    f\"but {app_state} state is required\"\n                )\n",
           "                print(\n                    f\"The application is in {instance.get_app_state()} state, \"\n                    f\"but {app_state} state is required\"\n                )\n",
           "R1.gate-dominates", "requires_state.decorator.wrapper"),
    Mutant("gate-call-in-try-before-test", "application/application.py",
           "                instance = args[0]\n            except IndexError:",
           "                instance = args[0]\n                func(*args, **kwargs)\n            except IndexError:",
           "R1.gate-dominates", "requires_state.decorator.wrapper"),
    Mutant("running-before-run", "application/application.py",
           "        self.run()\n        self._start_time = time.time()\n        self._state = AppState.RUNNING\n",
           "        self._state = AppState.RUNNING\n        self.run()\n        self._start_time = time.time()\n",
           "R1.running-after-run", "Application.start"),
    Mutant("running-when-run-skipped", "application/application.py",
           "        self.run()\n        self._start_time = time.time()\n",
           "        if self._start_time is None:\n            self.run()\n        self._start_time = time.time()\n",
           "R1.running-after-run", "Application.start"),
]
