"""
C17 - residue, chain and molecule segmentation.

R1  change masks: get_residue_starts ORs exactly the consecutive-atom changes
    of {chain_id, res_id, ins_code, res_name}; get_chain_starts exactly
    chain_id change OR res_id decrease; both add 1 and prepend 0.
R2  wrappers: the six residue and six chain wrappers call their *_starts(...,
    add_exclusive_stop=True) and forward to the like-named segment function
    with the arguments in order.
R3  no recursion reachable from the molecule functions (bond paths tens of
    thousands of atoms long overflow the C stack).
R4  a boolean mode parameter is honoured on every return path.
R5  segment functions: searchsorted(side='right') - 1 on starts without the
    stop; range checks on both sides; iteration by consecutive starts.
"""

import ast

from ..astutil import call_name, calls, dotted, names_in, param_names, stmts, walk_local
from ..cfg import CFG
from ..core import AnalysisError, Mutant
from ..exprnorm import canon, check_spec, same_expr, show, spec, summarize
from ..exprnorm import has_code

EXPLANATION = (
    "Change-mask term extraction, wrapper forwarding shape, call-graph cycle detection over "
    "molecules.py/bonds.pyx (lowered), control dependence of returns on mode parameters, "
    "segment lookup idiom - from the ASTs of residues.py, chains.py, segments.py, molecules.py."
)
ASSUMPTIONS = ["annotation arrays are compared between consecutive atoms with x[1:] != x[:-1]"]
MIN_OBLIGATIONS = 45

RES = "structure/residues.py"
CHA = "structure/chains.py"
SEG = "structure/segments.py"
MOL = "structure/molecules.py"
BONDS = "structure/bonds.pyx"

WRAPPERS = {
    "apply_{}_wise": ("apply_segment_wise", ["data", "function", "axis"]),
    "spread_{}_wise": ("spread_segment_wise", ["input_data"]),
    "get_{}_masks": ("get_segment_masks", ["indices"]),
    "get_{}_starts_for": ("get_segment_starts_for", ["indices"]),
    "get_{}_positions": ("get_segment_positions", ["indices"]),
}


def change_terms(func):
    """{local: annotation} for  local = array.X[1:] != array.X[:-1]"""
    out = {}
    for st in stmts(func):
        if isinstance(st, ast.Assign) and isinstance(st.value, ast.Compare) and isinstance(st.targets[0], ast.Name):
            c = st.value
            if len(c.ops) == 1 and isinstance(c.ops[0], ast.NotEq):
                l, r = c.left, c.comparators[0]
                if isinstance(l, ast.Subscript) and isinstance(r, ast.Subscript):
                    a, b = dotted(l.value), dotted(r.value)
                    ls, rs = ast.unparse(l.slice), ast.unparse(r.slice)
                    if a and a == b and {ls, rs} == {"1:", ":-1"}:
                        out[st.targets[0].id] = a.split(".")[-1]
    return out


def or_terms(e):
    if isinstance(e, ast.BinOp) and isinstance(e.op, ast.BitOr):
        return or_terms(e.left) + or_terms(e.right)
    return [e]


def consecutive_segments(f, pattern, yields):
    """one loop `for I in range(len(starts) - 1)` without break/continue/early return whose body takes PATTERN(I)"""
    loops = [st for st in ast.walk(f) if isinstance(st, ast.For)]
    for lp in loops:
        if not (isinstance(lp.target, ast.Name) and same_expr(lp.iter, "range(len(starts) - 1)")):
            continue
        if lp.orelse or any(isinstance(x, (ast.Break, ast.Continue, ast.Return)) for x in ast.walk(lp)):
            continue
        want = pattern.replace("{i}", lp.target.id)
        hits = [x for x in ast.walk(lp) if isinstance(x, ast.Subscript) and same_expr(x, want)]
        if not hits:
            continue
        if yields and not any(isinstance(x, ast.Yield) and x.value is not None and any(h is y for h in hits for y in ast.walk(x.value)) for x in ast.walk(lp)):
            continue
        return True
    return False


def mode_ignored_somewhere(f, p):
    """For a summarisable function: the list of conditions (truth assignments of the other tests) under which the result
    is identical for p=True and p=False; [] if none; None if the function cannot be summarised."""
    import itertools
    try:
        sm = summarize(f)
    except Exception:
        return None
    if sm.result is None or any(isinstance(n, ast.Name) and n.id.endswith("'") for n in ast.walk(sm.result)):
        return None
    c = canon(sm.result)
    tests = []

    def collect(x):
        if isinstance(x, tuple):
            if len(x) == 4 and x[0] == "if" and x[1] != p and x[1] not in tests:
                tests.append(x[1])
            for y in x:
                collect(y)
    collect(c)
    if len(tests) > 5:
        return None

    def fix(x, assign):
        if not isinstance(x, tuple):
            return x
        if len(x) == 4 and x[0] == "if" and x[1] in assign:
            return fix(x[2] if assign[x[1]] else x[3], assign)
        return tuple(fix(y, assign) for y in x)

    bad = []
    for vals in itertools.product([True, False], repeat=len(tests)):
        a = dict(zip(tests, vals))
        t_, f_ = fix(c, {**a, p: True}), fix(c, {**a, p: False})
        if t_ == f_:
            bad.append({(show(k, 60)): v for k, v in a.items()})
    return bad


def residue_definition_rule(ctx, rule):
    """what a residue is (shared: the altloc filters and the bond classification of the PDBx converter stand on it)"""
    def starts_spec(mask):
        st = f"np.where({mask})[0] + 1"
        return (f"(np.array([0], dtype=int) if add_exclusive_stop else np.array([], dtype=int)) if array.array_length() == 0 else "
                f"(np.concatenate(([0], {st}, [array.array_length()])) if add_exclusive_stop else np.concatenate(([0], {st})))")
    res_mask = " | ".join(f"(array.{a}[1:] != array.{a}[:-1])" for a in ("chain_id", "res_id", "ins_code", "res_name"))
    check_spec(ctx, rule, RES, "get_residue_starts", starts_spec(res_mask),
               "a residue starts at 0 and at i+1 wherever chain_id, res_id, ins_code or res_name differ between atoms i and i+1; "
               "with add_exclusive_stop the array length is appended (also for an empty array: [0])")


def run(ctx):
    # the segment functions read annotation arrays of equal length: a model taken out of a stack must not share the stack's table
    from .C01 import model_table_rule
    model_table_rule(ctx, "R6.model-has-its-own-table")
    from .C01 import subarray_keeps_bonds_rule
    subarray_keeps_bonds_rule(ctx, "R6.segment-keeps-bond-list")
    # every view of this property is laid over array_length() atoms and bonds.get_atom_count() atoms: both agree with the arrays
    from .C01 import length_rules
    length_rules(ctx, "R6")
    from .C01 import annotation_value_rules
    annotation_value_rules(ctx, "R6")
    res, cha, seg, mol = ctx.src(RES), ctx.src(CHA), ctx.src(SEG), ctx.src(MOL)

    # ---------------- R1 start definitions (whole function, composed symbolically) ----------------
    # robust to temporaries, renames, operand order, early-return/else forms, table loops (see exprnorm/normalize)
    def starts_spec(mask):
        st = f"np.where({mask})[0] + 1"
        return (f"(np.array([0], dtype=int) if add_exclusive_stop else np.array([], dtype=int)) if array.array_length() == 0 else "
                f"(np.concatenate(([0], {st}, [array.array_length()])) if add_exclusive_stop else np.concatenate(([0], {st})))")

    residue_definition_rule(ctx, "R1.residue-starts-definition")
    cha_mask = "(np.diff(array.res_id) < 0) | (array.chain_id[1:] != array.chain_id[:-1])"
    check_spec(ctx, "R1.chain-starts-definition", CHA, "get_chain_starts", starts_spec(cha_mask),
               "a chain starts at 0 and at i+1 wherever the chain id changes or the residue id decreases between atoms i and i+1; "
               "with add_exclusive_stop the array length is appended (also for an empty array: [0])")

    # ---------------- R2 wrappers -------------------------------------------
    n_wr = 0
    for kind, rel, src, starts_fn in (("residue", RES, res, "get_residue_starts"), ("chain", CHA, cha, "get_chain_starts")):
        for pat, (target, extra) in WRAPPERS.items():
            name = pat.format(kind)
            f = src.func(name)
            n_wr += 1
            cs = calls(f)
            st_calls = [c for c in cs if call_name(c) == starts_fn]
            ok_start = (len(st_calls) == 1 and [ast.unparse(a) for a in st_calls[0].args] == ["array"]
                        and [(k.arg, ast.unparse(k.value)) for k in st_calls[0].keywords] == [("add_exclusive_stop", "True")])
            ctx.ob("R2.wrapper-starts", rel, name, f"{starts_fn}(array, add_exclusive_stop=True)", ok_start,
                   f"{name} must compute its segments with {starts_fn}(array, add_exclusive_stop=True)",
                   f.lineno)
            tg = [c for c in cs if (call_name(c) or "").endswith("_segment_wise") or (call_name(c) or "").startswith("get_segment_")]
            ok_fwd = len(tg) == 1 and call_name(tg[0]) == target and \
                [ast.unparse(a) for a in tg[0].args] == ["starts"] + extra and not tg[0].keywords
            ctx.ob("R2.wrapper-forwards", rel, name,
                   ast.unparse(tg[0]) if tg else "-", ok_fwd,
                   f"{name} must forward to {target}(starts, {', '.join(extra)})", f.lineno)
            ctx.ob("R2.wrapper-params", rel, name, str(param_names(f)),
                   param_names(f) == ["array"] + extra, "wrapper parameters differ from the segment function's",
                   f.lineno, nontrivial=False)
        it = src.func(f"{kind}_iter")
        n_wr += 1
        ctx.ob("R2.wrapper-forwards", rel, f"{kind}_iter", "segment_iter(array, starts)",
               any(call_name(c) == "segment_iter" and [ast.unparse(a) for a in c.args] == ["array", "starts"] for c in calls(it))
               and any(call_name(c) == starts_fn and any(k.arg == "add_exclusive_stop" and ast.unparse(k.value) == "True" for k in c.keywords) for c in calls(it)),
               f"{kind}_iter must iterate segment_iter(array, starts) with the exclusive stop", it.lineno)
        cnt = src.func(f"get_{kind}_count")
        ctx.ob("R2.count", rel, f"get_{kind}_count", ast.unparse(cnt.body[-1]),
               any(call_name(c) == starts_fn and not c.keywords and len(c.args) == 1 for c in calls(cnt))
               and any(call_name(c) == "len" for c in calls(cnt)),
               "the count is the number of starts without the exclusive stop", cnt.lineno)
    ctx.floor("wrappers", n_wr, 12)
    gr = res.func("get_residues")
    ctx.ob("R2.names", RES, "get_residues", ast.unparse(gr.body[-1]),
           has_code(gr, "array.res_id[starts]") and has_code(gr, "array.res_name[starts]")
           and any(call_name(c) == "get_residue_starts" and not c.keywords for c in calls(gr)),
           "ids and names are taken at the residue starts (without stop)", gr.lineno, nontrivial=False)

    # ---------------- R4 mode parameter --------------------------------------
    n_mode = 0
    for rel, src in ((RES, res), (CHA, cha), (SEG, seg), (MOL, mol)):
        for qual, f in src.funcs.items():
            ps = param_names(f)
            a = f.args
            defaults = dict(zip([x.arg for x in a.args][len(a.args) - len(a.defaults):], a.defaults))
            for p, d in defaults.items():
                if not (isinstance(d, ast.Constant) and isinstance(d.value, bool)):
                    continue
                g = CFG(f, lambda st: isinstance(st, ast.Raise))
                tests = {n.id for n in g.nodes if n.kind == "test" and hasattr(n.ast, "test") and p in names_in(n.ast.test)}
                if any(isinstance(x, ast.Match) for x in ast.walk(f)):
                    raise AnalysisError(f"{qual}: match statement - the mode dispatch cannot be followed")
                if not tests:
                    continue
                ignored = mode_ignored_somewhere(f, p)
                if ignored is not None:
                    n_mode += 1
                    ctx.ob("R4.mode-honoured", rel, qual, f"result depends on `{p}` under every condition", not ignored,
                           f"under the condition(s) {ignored} the result of {qual} is the same for both values of `{p}`: the mode is "
                           "ignored there (e.g. no exclusive stop for an empty array)", f.lineno)
                    continue
                cd = g.control_deps()
                for n in g.nodes:
                    if n.ast is None or not isinstance(n.ast, ast.Return):
                        continue
                    n_mode += 1
                    dep = any(t in tests for t, _ in cd.get(n.id, ())) or p in names_in(n.ast)
                    ctx.ob("R4.mode-honoured", rel, qual, f"return `{ast.unparse(n.ast)[7:60]}` vs `{p}`", dep,
                           f"this return is taken regardless of `{p}`, while other returns of {qual} depend "
                           f"on it: the result has the wrong shape for one value of `{p}` (e.g. no "
                           "exclusive stop for an empty array)", n.line)
    ctx.floor("mode-returns", n_mode, 1)       # (two returns that differ only in the mode may be one return of a conditional expression)

    # ---------------- R5 segment lookup --------------------------------------
    from ..program import expand_sibling_calls
    for name in ("get_segment_masks", "get_segment_starts_for", "get_segment_positions"):
        # (one of the three may delegate validation and look-up to another: judged with that call written out)
        f = expand_sibling_calls(seg, name, ("get_segment_masks", "get_segment_starts_for", "get_segment_positions"))
        ss = [c for c in calls(f) if call_name(c) == "np.searchsorted"]
        def is_indices(a):
            # the parameter itself, or the local that holds np.asarray(indices) (under whatever name a written-out sibling gave it)
            return ast.unparse(a) == "indices" or isinstance(a, ast.Name) and any(
                isinstance(st, ast.Assign) and isinstance(st.targets[0], ast.Name) and st.targets[0].id == a.id
                and ast.unparse(st.value) == "np.asarray(indices)" for st in ast.walk(f))
        ok = len(ss) == 1 and len(ss[0].args) == 2 and ast.unparse(ss[0].args[0]) == "starts" and is_indices(ss[0].args[1]) \
            and [(k.arg, ast.unparse(k.value)) for k in ss[0].keywords] == [("side", "'right'")]
        minus1 = any(isinstance(n, ast.BinOp) and isinstance(n.op, ast.Sub) and n.left is ss[0]
                     and isinstance(n.right, ast.Constant) and n.right.value == 1 for n in walk_local(f)) if ss else False
        # both range tests are guards (they raise) and both precede the lookup; `length` is the exclusive stop
        sm_ = summarize(f)
        # (in terms of the function's inputs when the result can be composed - whatever the locals are called)
        from ..exprnorm import contains_expr as _contains
        composed = sm_.result is not None and not sm_.unsupported and \
            _contains(sm_.result, "np.searchsorted(starts[:-1], np.asarray(indices), side='right') - 1")
        ctx.ob("R5.segment-lookup", SEG, name, "np.searchsorted(starts, indices, side='right') - 1", (ok and minus1) or composed,
               "the segment of an atom is the last start <= index", f.lineno)
        gtxt = [canon(g_) for g_ in sm_.guards]
        lo = spec("np.any(np.asarray(indices) < 0)") in gtxt or spec("(np.asarray(indices) < 0).any()") in gtxt
        hi = spec("(np.asarray(indices) >= starts[-1]).any()") in gtxt
        ctx.ob("R5.range-checked", SEG, name, "(indices < 0).any() / (indices >= length).any() raise", lo and hi,
               "indices must be refused (an exception) on both sides: negative, and at or beyond the exclusive stop starts[-1]; "
               f"the function's refusing conditions are {[ast.unparse(g_)[:60] for g_ in sm_.guards]}", f.lineno)
    si = seg.func("segment_iter")
    ctx.ob("R5.iteration", SEG, "segment_iter", "array[..., starts[i]:starts[i + 1]] for i in range(len(starts) - 1)",
           consecutive_segments(si, "array[..., starts[{i}]:starts[{i} + 1]]", yields=True),
           "iteration must yield exactly the consecutive start pairs, in order, with nothing skipped", si.lineno)
    sp = seg.func("spread_segment_wise")
    check_spec(ctx, "R5.spread", SEG, "spread_segment_wise", "np.repeat(input_data, starts[1:] - starts[:-1], axis=0)",
               "values are repeated by the segment lengths starts[k+1] - starts[k]")
    ap = seg.func("apply_segment_wise")
    allocs = [c for c in calls(ap) if call_name(c) == "np.zeros"]
    ctx.need(len(allocs) == 2, "result allocations of apply_segment_wise")
    for c in allocs:
        dt = [k.value for k in c.keywords if k.arg == "dtype"]
        ctx.ob("R5.apply-result-dtype", SEG, "apply_segment_wise", c,
               bool(dt) and "value" in names_in(dt[0]) and "data" not in names_in(dt[0]),
               "the result array holds the function's values: its dtype must come from the value, not from "
               "the input data (a count of a boolean mask would collapse to True/False, a mean of integers "
               "would be truncated)", c.lineno)
    ctx.ob("R5.apply", SEG, "apply_segment_wise", "data[starts[i]:starts[i + 1]]",
           consecutive_segments(ap, "data[starts[{i}]:starts[{i} + 1]]", yields=False)
           and any(isinstance(st, ast.Assign) and same_expr(st.targets[0], "processed_data[i]") for st in ast.walk(ap)),
           "the function is applied to every consecutive segment and result k is stored at position k", ap.lineno)

    # ---------------- R3 recursion -------------------------------------------
    b = ctx.src(BONDS)
    graph = {}
    funcs = dict(b.funcs)
    for q, f in funcs.items():
        graph[q] = {call_name(c) for c in calls(f) if call_name(c) in funcs}
    mgraph = {}
    for q, f in mol.funcs.items():
        mgraph[q] = {call_name(c) for c in calls(f) if call_name(c) in mol.funcs or call_name(c) in funcs}
    reach = {}
    for entry in ("get_molecule_indices", "get_molecule_masks", "molecule_iter"):
        ctx.need(entry in mgraph, entry)
        seen, stack = set(), [entry]
        while stack:
            q = stack.pop()
            if q in seen:
                continue
            seen.add(q)
            for c in (mgraph.get(q) or graph.get(q) or ()):
                if c in graph and c in graph.get(c, ()):
                    reach.setdefault(c, []).append(entry)
                stack.append(c)
        ctx.ob("R3.entry-analysed", MOL, entry, f"{len(seen)} functions reachable", len(seen) >= 2,
               "call graph of the molecule functions could not be resolved", mol.funcs[entry].lineno,
               nontrivial=False)
    ctx.need(any("find_connected" in (mgraph.get(e) or ()) for e in mgraph), "molecule functions call find_connected")
    for cyc, entries in sorted(reach.items()):
        ctx.ob("R3.no-recursion", BONDS, cyc, f"{cyc} calls itself", False,
               f"{cyc} is recursive and reachable from {', '.join(sorted(set(entries)))}: the recursion depth "
               "equals the length of the bond path, a chain of ~100 000 bonded atoms overflows the C "
               "stack (segmentation fault) instead of returning the connected component",
               funcs[cyc].lineno)
    if not reach:
        ctx.ob("R3.no-recursion", BONDS, "find_connected", "no recursive function reachable", True)
    # every atom is visited: loop until visited_mask.all(), root = first unvisited
    gm = mol.func("get_molecule_indices")
    t = ast.unparse(gm)
    wl = [st for st in ast.walk(gm) if isinstance(st, ast.While)]
    ctx.ob("R3.component-loop", MOL, "get_molecule_indices", "while not visited_mask.all(): root = np.argmin(visited_mask)",
           "while not visited_mask.all()" in t and has_code(gm, "np.argmin(visited_mask)") and has_code(gm, "visited_mask[connected] = True")
           and len(wl) == 1 and not wl[0].orelse and not any(isinstance(x, (ast.Break, ast.Return)) for x in ast.walk(wl[0])),
           "components are collected until every atom is visited", gm.lineno, nontrivial=False)

    # the components are those of the *whole* bond graph: the bond list searched is the caller's, unfiltered
    n_bg = 0
    for q, callee in (("get_molecule_indices", "find_connected"), ("molecule_iter", "find_connected"), ("get_molecule_masks", "get_molecule_indices")):
        f = mol.func(q)
        par = param_names(f)[0]
        for c in calls(f):
            if call_name(c) != callee or not c.args:
                continue
            n_bg += 1
            a0 = c.args[0]
            ok = False
            why = ast.unparse(a0)
            if isinstance(a0, ast.Name):
                defs = [st.value for st in stmts(f) if isinstance(st, ast.Assign) and any(isinstance(t, ast.Name) and t.id == a0.id for t in st.targets)]
                other = [st for st in stmts(f) if isinstance(st, (ast.AugAssign, ast.AnnAssign)) and isinstance(st.target, ast.Name) and st.target.id == a0.id]
                def leaves(e):
                    return leaves(e.body) + leaves(e.orelse) if isinstance(e, ast.IfExp) else [e]

                ok = (a0.id == par and not defs) or (bool(defs) and not other and all(
                    ast.unparse(lf) in (par, f"{par}.bonds") for d in defs for lf in leaves(d)))
                why = f"{a0.id} = " + " | ".join(ast.unparse(d)[:60] for d in defs)
            elif ast.unparse(a0) in (par, f"{par}.bonds"):
                ok = True
            ctx.ob("R3.whole-bond-graph", MOL, q, f"{callee}({ast.unparse(a0)}, ...)", ok,
                   f"molecules are the connected components of the bond graph as given: the bond list searched must be the caller's "
                   f"({par} or {par}.bonds), not a filtered or rebuilt one ({why})", c.lineno)
    ctx.floor("R3.whole-bond-graph", n_bg, 3)


MUTANTS = [
    Mutant("bonds-shorter-accepted", "structure/atoms.py", "                if value.get_atom_count() != self._array_length:\n", "                if value.get_atom_count() > self._array_length:\n", "R6.bonds-length-checked"),
    Mutant("spread-lengths-minus-one", SEG, "    seg_lens = starts[1:] - starts[:-1]\n", "    seg_lens = starts[1:] - starts[:-1] - 1\n", "R5.spread"),
    Mutant("range-check-only-prints", SEG, "    if (indices < 0).any():\n        raise ValueError(\"This function does not support negative indices\")\n    if (indices >= length).any():\n        index = np.min(np.where(indices >= length)[0])\n        raise ValueError(\n            f\"Index {index} is out of range for an atom array with length {length}\"\n        )\n\n    return np.searchsorted", "    if (indices < 0).any():\n        print(\"This function does not support negative indices\")\n    if (indices >= length).any():\n        index = np.min(np.where(indices >= length)[0])\n        raise ValueError(\n            f\"Index {index} is out of range for an atom array with length {length}\"\n        )\n\n    return np.searchsorted", "R5.range-checked"),
    Mutant("component-loop-breaks", MOL, "        visited_mask[connected] = True\n        molecule_indices.append(connected)\n", "        visited_mask[connected] = True\n        molecule_indices.append(connected)\n        break\n", "R3.component-loop"),
    Mutant("molecules-ignore-coordination", MOL, "    molecule_indices = []\n    visited_mask = np.zeros(bonds.get_atom_count(), dtype=bool)", "    bonds = BondList(bonds.get_atom_count(), bonds.as_array()[bonds.as_array()[:, 2] != 7])\n    molecule_indices = []\n    visited_mask = np.zeros(bonds.get_atom_count(), dtype=bool)", "R3.whole-bond-graph"),
    Mutant("drop-ins-code", RES, "chain_id_changes | res_id_changes | ins_code_changes | res_name_changes", "chain_id_changes | res_id_changes | res_name_changes", "R1.residue-starts-definition"),
    Mutant("chain-increment", CHA, "res_id_decrement = diff < 0", "res_id_decrement = diff > 0", "R1.chain-starts-definition"),
    Mutant("wrapper-no-stop", CHA, "def get_chain_masks(array, indices):", "def get_chain_masks(array, indices, _x=None):", "R2.wrapper-params") if False else
    Mutant("wrapper-wrong-target", RES, "    return get_segment_positions(starts, indices)", "    return get_segment_starts_for(starts, indices)",
           "R2.wrapper-forwards", "get_residue_positions"),
    Mutant("regress-empty-mode", RES, "        if add_exclusive_stop:\n            # The exclusive stop of an empty array is index 0\n            return np.array([0], dtype=int)\n", "",
           "R4.mode-honoured", "get_residue_starts"),
    Mutant("regress-empty-mode-chain", CHA, "        if add_exclusive_stop:\n            # The exclusive stop of an empty array is index 0\n            return np.array([0], dtype=int)\n", "",
           "R4.mode-honoured", "get_chain_starts"),
    Mutant("apply-dtype-data", SEG, "processed_data = np.zeros(len(starts) - 1, dtype=type(value))", "processed_data = np.zeros(len(starts) - 1, dtype=data.dtype)",
           "R5.apply-result-dtype"),
    Mutant("searchsorted-left", SEG, 'return np.searchsorted(starts, indices, side="right") - 1', 'return np.searchsorted(starts, indices, side="left") - 1',
           "R5.segment-lookup", "get_segment_positions"),
    Mutant("start-no-plus1", RES, "residue_starts = np.where(residue_change_mask)[0] + 1", "residue_starts = np.where(residue_change_mask)[0]",
           "R1.residue-starts-definition"),
    Mutant("chain-stop-dropped", CHA, "        return np.concatenate(([0], chain_starts, [array.array_length()]))", "        return np.concatenate(([0], chain_starts))", "R4.mode-honoured", "get_chain_starts"),
    Mutant("refactor-chain-starts", CHA, "    diff = np.diff(array.res_id)\n    res_id_decrement = diff < 0\n", "    res_id_decrement = np.diff(array.res_id) < 0\n", "R1.chain-starts-definition", kind="silent"),
    Mutant("repair-recursion", BONDS, "        _find_connected(\n            bond_list, connected_index, is_connected_mask, all_bonds\n        )\n",
           "        pass\n", "R3.no-recursion", kind="repair"),
    # --- one seeded fault per rule that had none -----------------------------------------------
    Mutant("chain-count-includes-stop", CHA, "    return len(get_chain_starts(array))\n",
           "    return len(get_chain_starts(array, add_exclusive_stop=True))\n", "R2.count", "get_chain_count"),
    Mutant("residue-count-is-last-start", RES, "    return len(get_residue_starts(array))\n",
           "    return get_residue_starts(array)[-1]\n", "R2.count", "get_residue_count"),
    Mutant("residues-names-with-stop", RES, "    starts = get_residue_starts(array)\n    return array.res_id[starts], array.res_name[starts]\n",
           "    starts = get_residue_starts(array, add_exclusive_stop=True)\n    return array.res_id[starts], array.res_name[starts]\n",
           "R2.names", "get_residues"),
    Mutant("residues-names-shifted", RES, "    return array.res_id[starts], array.res_name[starts]\n",
           "    return array.res_id[starts], array.res_name[starts + 1]\n", "R2.names", "get_residues"),
    Mutant("wrapper-params-swapped", CHA, "def get_chain_masks(array, indices):", "def get_chain_masks(indices, array):",
           "R2.wrapper-params", "get_chain_masks"),
    Mutant("wrapper-param-dropped", RES, "def apply_residue_wise(array, data, function, axis=None):", "def apply_residue_wise(array, data, function):",
           "R2.wrapper-params", "apply_residue_wise"),
    Mutant("wrapper-starts-without-stop", CHA,
           "    starts = get_chain_starts(array, add_exclusive_stop=True)\n    return get_segment_masks(starts, indices)\n",
           "    starts = get_chain_starts(array)\n    return get_segment_masks(starts, indices)\n",
           "R2.wrapper-starts", "get_chain_masks"),
    Mutant("wrapper-starts-of-chains", RES,
           "    starts = get_residue_starts(array, add_exclusive_stop=True)\n    return get_segment_positions(starts, indices)\n",
           "    starts = get_chain_starts(array, add_exclusive_stop=True)\n    return get_segment_positions(starts, indices)\n",
           "R2.wrapper-starts", "get_residue_positions"),
    Mutant("component-root-argmax", MOL,
           "        root = np.argmin(visited_mask)\n        connected = find_connected(bonds, root)\n        visited_mask[connected] = True\n        molecule_indices.append(connected)\n",
           "        root = np.argmax(visited_mask)\n        connected = find_connected(bonds, root)\n        visited_mask[connected] = True\n        molecule_indices.append(connected)\n",
           "R3.component-loop", "get_molecule_indices"),
    Mutant("component-visited-not-marked", MOL,
           "        visited_mask[connected] = True\n        molecule_indices.append(connected)\n",
           "        visited_mask[root] = True\n        molecule_indices.append(connected)\n",
           "R3.component-loop", "get_molecule_indices"),
    # R3.entry-analysed cannot end in a finding: whatever makes an entry's callee unresolvable also takes the
    # call away from R3.whole-bond-graph, whose instance floor then stops the run (caught as analysis error)
    Mutant("masks-callee-unresolvable", MOL, "    molecule_indices = get_molecule_indices(bonds)\n",
           "    molecule_indices = bonds.get_molecule_indices()\n", "R3.entry-analysed", "get_molecule_masks"),
    Mutant("apply-segment-end-off-by-one", SEG, "        segment = data[starts[i] : starts[i + 1]]\n",
           "        segment = data[starts[i] : starts[i + 1] - 1]\n", "R5.apply", "apply_segment_wise"),
    Mutant("apply-last-segment-skipped", SEG, "    for i in range(len(starts) - 1):\n        segment = data",
           "    for i in range(len(starts) - 2):\n        segment = data", "R5.apply", "apply_segment_wise"),
    Mutant("iter-last-segment-skipped", SEG, "    for i in range(len(starts) - 1):\n        yield array",
           "    for i in range(len(starts) - 2):\n        yield array", "R5.iteration", "segment_iter"),
    Mutant("iter-overlapping-segments", SEG, "        yield array[..., starts[i] : starts[i + 1]]\n",
           "        yield array[..., starts[i] : starts[i + 1] + 1]\n", "R5.iteration", "segment_iter"),
    Mutant("masks-negative-check-dropped", SEG,
           "    masks = np.zeros((len(indices), length), dtype=bool)\n\n    if (indices < 0).any():\n        raise ValueError(\"This function does not support negative indices\")\n",
           "    masks = np.zeros((len(indices), length), dtype=bool)\n\n", "R5.range-checked", "get_segment_masks"),
    Mutant("upper-range-check-off-by-one", SEG, "    if (indices >= length).any():\n", "    if (indices > length).any():\n",
           "R5.range-checked", "get_segment_positions", count=3),
    Mutant("spread-lengths-negated", SEG, "    seg_lens = starts[1:] - starts[:-1]\n", "    seg_lens = starts[:-1] - starts[1:]\n",
           "R5.spread", "spread_segment_wise"),
    Mutant("spread-wrong-axis", SEG, "    return np.repeat(input_data, seg_lens, axis=0)\n", "    return np.repeat(input_data, seg_lens, axis=-1)\n",
           "R5.spread", "spread_segment_wise"),
]
