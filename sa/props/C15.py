"""
C15 - geometry / periodic helpers (the clauses visible in the code's shape).

Decided here (each a necessary condition of the property):
  R1  index_* variants forward to their coordinate-based sibling with the
      arity of its atom parameters; _call_non_index_function gathers column i
      for parameter i, rejects a wrong last dimension and discards the box
      when not periodic.
  R2  textbook definitions as algebra over the source expressions:
      displacement sign (linear form), distance/angle/dihedral as canonical
      dot/cross trees, scale-homogeneity (what must be normalised), box passed
      to every displacement, backbone dihedral atom table (IUPAC).
  R3  periodic displacement: wrap into [0,1) dominates both helpers, rank
      dispatch 1/2/3 with rejecting else, orthogonal/triclinic selection by
      the orthogonality flag, per-model box indexing, orthorhombic threshold
      0.5/-1, triclinic candidate set contains {-1,0}^3 and each candidate is
      the integer combination of box rows, argmin selection.
  R4  box helpers: fraction<->coord are matmul with box / inv(box) on the same
      side; move_inside_box wraps fractions; repeat_box(_coord) image count
      agrees with the loops (polynomial identity), every parameter of every
      public function is used; remove_pbc pairing; is_orthogonal covers all
      three pairs; unit-cell angle/vector pairing agrees between siblings.
  R5  transform: literal rotation matrices are orthonormal with determinant
      +1 (polynomial identities modulo sin^2+cos^2=1, |axis|=1), composition
      order of rotate, centre/support translation pairing, cross-product
      matrix of align_vectors, inputs are copied before in-place arithmetic.
NOT decided: numerical accuracy, minimality of the triclinic image as a value
statement (only that the candidate set is a superset of the 8 necessary
images and the minimum is selected), bond-graph behaviour of remove_pbc.
"""

import ast
from fractions import Fraction

from .. import poly
from ..astutil import call_name, calls, const_eval, dotted, names_in, param_names, stmts, walk_local, NotConst
from ..cfg import CFG
from ..core import AnalysisError, Mutant
from ..exprnorm import check_spec, same_expr, has_code

EXPLANATION = (
    "Algebraic and structural rules over geometry.py, box.py, transform.py, util.py: canonical "
    "dot/cross trees and homogeneity degrees for angle/dihedral, linear forms for displacement "
    "sign and lattice shifts, enumeration of the literal triclinic image loops, dominance of the "
    "wrap over the image search, exact polynomial identities (mod sin^2+cos^2=1) for the literal "
    "rotation matrices, parameter-use and pairing rules for the box helpers."
)
ASSUMPTIONS = [
    "numpy semantics of matmul/cross/arccos/arctan2/argmin are as documented",
    "vector_dot, norm_vector, matrix_rotate are the util.py helpers checked in R2/R5",
]
MIN_OBLIGATIONS = 70

GEO = "structure/geometry.py"
BOX = "structure/box.py"
TRF = "structure/transform.py"
UTL = "structure/util.py"


# --------------------------------------------------------------------------
# small helpers

def linform(e, env=None):
    """linear form over names: {name: coeff}"""
    env = env or {}
    if isinstance(e, ast.Name):
        return dict(env.get(e.id, {e.id: 1}))
    if isinstance(e, ast.UnaryOp) and isinstance(e.op, ast.USub):
        return {k: -v for k, v in linform(e.operand, env).items()}
    if isinstance(e, ast.BinOp) and isinstance(e.op, (ast.Add, ast.Sub)):
        l, r = linform(e.left, env), linform(e.right, env)
        sg = 1 if isinstance(e.op, ast.Add) else -1
        for k, v in r.items():
            l[k] = l.get(k, 0) + sg * v
        return {k: v for k, v in l.items() if v}
    raise AnalysisError("not a linear form: " + ast.unparse(e))


def assigns(func):
    """name -> list of value expressions (simple `name = expr` statements)"""
    out = {}
    for st in stmts(func):
        if isinstance(st, ast.Assign) and len(st.targets) == 1 and isinstance(st.targets[0], ast.Name):
            out.setdefault(st.targets[0].id, []).append(st.value)
    return out


def single_def(func, name):
    d = assigns(func).get(name, [])
    if len(d) != 1:
        raise AnalysisError(f"anchor vanished: single definition of {name} in {func.name}")
    return d[0]


# canonical dot/cross trees with sign ---------------------------------------

def vtree(e, defs, leaves):
    """(sign, tree) of an expression built from np.cross / vector_dot over
    the leaf vectors; local single definitions are inlined."""
    if isinstance(e, ast.Name):
        if e.id in leaves:
            return 1, e.id
        if e.id in defs and len(defs[e.id]) == 1:
            return vtree(defs[e.id][0], defs, leaves)
        raise AnalysisError("unknown vector " + e.id)
    if isinstance(e, ast.UnaryOp) and isinstance(e.op, ast.USub):
        s, t = vtree(e.operand, defs, leaves)
        return -s, t
    if isinstance(e, ast.Call):
        fn = call_name(e)
        if fn in ("np.cross", "cross") and len(e.args) == 2:
            (s1, a), (s2, b) = vtree(e.args[0], defs, leaves), vtree(e.args[1], defs, leaves)
            s = s1 * s2
            if repr(a) > repr(b):
                a, b, s = b, a, -s
            return s, ("cross", a, b)
        if fn in ("vector_dot", "np.dot", "np.vdot") and len(e.args) == 2:
            (s1, a), (s2, b) = vtree(e.args[0], defs, leaves), vtree(e.args[1], defs, leaves)
            a, b = sorted((a, b), key=repr)
            return s1 * s2, ("dot", a, b)
    raise AnalysisError("not a dot/cross expression: " + ast.unparse(e))


def canon(t):
    """canonicalise an expected tree written by hand"""
    if isinstance(t, str):
        return 1, t
    op, a, b = t
    (s1, a), (s2, b) = canon(a), canon(b)
    s = s1 * s2
    if op == "cross":
        if repr(a) > repr(b):
            a, b, s = b, a, -s
        return s, ("cross", a, b)
    a, b = sorted((a, b), key=repr)
    return s, ("dot", a, b)


def degree(t, norm):
    """homogeneity degree per leaf vector of a canonical tree; normalised
    leaves have degree 0"""
    if isinstance(t, str):
        return {} if t in norm else {t: 1}
    d = {}
    for x in t[1:]:
        for k, v in degree(x, norm).items():
            d[k] = d.get(k, 0) + v
    return d


def displacement_calls(func):
    """var -> (arg0 name, arg1 name, box expr or None) for v = displacement(a, b, box)"""
    out = {}
    for st in stmts(func):
        if isinstance(st, ast.Assign) and isinstance(st.value, ast.Call) and call_name(st.value) == "displacement" \
                and isinstance(st.targets[0], ast.Name):
            c = st.value
            args = list(c.args)
            box = args[2] if len(args) > 2 else next((k.value for k in c.keywords if k.arg == "box"), None)
            if len(args) < 2 or not all(isinstance(a, ast.Name) for a in args[:2]):
                raise AnalysisError("anchor vanished: displacement(atomsA, atomsB, box) call shape")
            out[st.targets[0].id] = (args[0].id, args[1].id, box)
    return out


def normalised(func):
    return {c.args[0].id for c in calls(func) if call_name(c) == "norm_vector" and c.args and isinstance(c.args[0], ast.Name)}


def ret_expr(func):
    r = [st for st in stmts(func) if isinstance(st, ast.Return)]
    if len(r) != 1 or r[0].value is None:
        raise AnalysisError(f"anchor vanished: single return in {func.name}")
    return r[0].value


# --------------------------------------------------------------------------

ATM = "structure/atoms.py"
_COORD_REFERENCE = """
def coord(item):
    if type(item) in (Atom, AtomArray, AtomArrayStack):
        return item.coord
    elif isinstance(item, np.ndarray):
        return item.astype(np.float32, copy=False)
    else:
        return np.array(item, dtype=np.float32)
"""


def r0_coord(ctx):
    """every measurement starts from coord(x): structures hand out their float32 coordinates, anything else - an integer array
    included - is converted to float32 (otherwise fractions and displacements are computed in the caller's integer type)"""
    from ..equiv import same_function
    f = ctx.src(ATM).func("coord")
    ok, shown = same_function(f, _COORD_REFERENCE)
    ctx.ob("R2.coordinates-are-float32", ATM, "coord", "ndarray -> astype(float32, copy=False); other -> np.array(.., float32)", ok,
           "coordinates given as a plain array must be converted to float32 like every other input; the code computes " + shown, f.lineno)


def run(ctx):
    r0_coord(ctx)
    r1_index(ctx)
    r2_definitions(ctx)
    r3_periodic(ctx)
    r4_box(ctx)
    r5_transform(ctx)
    dead_params(ctx, "R4.param-used", [GEO, BOX, TRF, UTL])


# ---------------- R1 ---------------------------------------------------------

def r1_index(ctx):
    g = ctx.src(GEO)
    n = 0
    for q, f in g.funcs.items():
        if not q.startswith("index_"):
            continue
        base = q[len("index_"):]
        ctx.need(base in g.funcs, f"coordinate-based sibling of {q}")
        n += 1
        atom_params = [p for p in param_names(g.funcs[base]) if p != "box"]
        ret = ret_expr(f)
        ok = isinstance(ret, ast.Call) and call_name(ret) == "_call_non_index_function" and len(ret.args) >= 2
        target = ret.args[0].id if ok and isinstance(ret.args[0], ast.Name) else None
        arity = ret.args[1].value if ok and isinstance(ret.args[1], ast.Constant) else None
        ctx.ob("R1.index-forward", GEO, q, ast.unparse(ret), ok and target == base,
               f"{q} must evaluate {base} on the gathered coordinates, it forwards to {target}", f.lineno)
        ctx.ob("R1.index-arity", GEO, q, f"{base}:{arity}", arity == len(atom_params),
               f"{base} takes {len(atom_params)} atom arguments but {q} gathers {arity} index columns", f.lineno)
        star = ok and any(isinstance(a, ast.Starred) for a in ret.args) and any(k.arg is None for k in ret.keywords)
        ctx.ob("R1.index-args", GEO, q, "*args, **kwargs", star,
               "atoms, indices, periodic and box must all reach _call_non_index_function", f.lineno)
    ctx.floor("R1.index-forward", n, 4)
    f = g.func("_call_non_index_function")
    ps = param_names(f)
    ctx.need(ps[:4] == ["function", "expected_amount", "atoms", "indices"], "_call_non_index_function signature")
    # shape guard
    guard = None
    for st in stmts(f):
        if isinstance(st, ast.If) and any(isinstance(b, ast.Raise) for b in st.body):
            t = st.test
            if same_expr(t, "indices.shape[-1] != expected_amount"):
                guard = st
    ctx.ob("R1.column-guard", GEO, f.name, "indices.shape[-1] != expected_amount", guard is not None,
           "an index array with the wrong number of columns must be refused, not silently truncated", f.lineno)
    # gather: element i of the argument list is coord(atoms)[..., indices[:, i], :], i over range(expected_amount)
    # (a for loop with append, or a comprehension)
    ok = False
    con = ""
    iters = []
    for n_ in walk_local(f):
        if isinstance(n_, ast.For) and isinstance(n_.target, ast.Name):
            iters.append((n_.target.id, n_.iter, n_))
        elif isinstance(n_, (ast.ListComp, ast.GeneratorExp)) and len(n_.generators) == 1 and isinstance(n_.generators[0].target, ast.Name):
            iters.append((n_.generators[0].target.id, n_.generators[0].iter, n_))
    for var, it, scope in iters:
        if not same_expr(it, "range(expected_amount)"):
            continue
        for n_ in ast.walk(scope):
            if isinstance(n_, ast.Subscript) and same_expr(n_, f"coord(atoms)[..., indices[:, {var}], :]"):
                ok = True
                con = ast.unparse(n_)
    ctx.ob("R1.gather", GEO, f.name, con or "for i in range(expected_amount)", ok,
           "parameter i of the geometry function must receive coord(atoms)[..., indices[:, i], :]", f.lineno)
    # final call
    ret = ret_expr(f)
    okc = isinstance(ret, ast.Call) and isinstance(ret.func, ast.Name) and ret.func.id == "function" \
        and len(ret.args) >= 1 and isinstance(ret.args[0], ast.Starred) \
        and (len(ret.args) == 2 and not ret.keywords and ast.unparse(ret.args[1]) == "box"
             or len(ret.args) == 1 and [(k.arg, ast.unparse(k.value)) for k in ret.keywords] == [("box", "box")])   # (every wrapped function names it `box`)
    ctx.ob("R1.call", GEO, f.name, ast.unparse(ret), okc,
           "the gathered coordinates are passed in column order followed by the box", f.lineno)
    # box selection as a whole: explicit box wins, the structure's box is the fallback, no box when not periodic
    check_spec(ctx, "R1.box-selection", GEO, "_call_non_index_function",
               "(atoms.box if box is None else box) if periodic else None",
               "periodic=True uses the explicitly given box and falls back to atoms.box only when none is given; periodic=False uses no box",
               var="box")


# ---------------- R2 ---------------------------------------------------------

IUPAC = {
    "phi": [("C", -1), ("N", 0), ("CA", 0), ("C", 0)],
    "psi": [("N", 0), ("CA", 0), ("C", 0), ("N", 1)],
    "omg": [("CA", 0), ("C", 0), ("N", 1), ("CA", 1)],
}


def r2_definitions(ctx):
    g = ctx.src(GEO)
    # displacement sign
    f = g.func("displacement")
    d = assigns(f)
    ctx.need("v1" in d and "v2" in d and "diff" in d, "displacement: v1, v2, diff")
    ctx.need(call_name(d["v1"][0]) == "coord" and ast.unparse(d["v1"][0].args[0]) == "atoms1"
             and ast.unparse(d["v2"][0].args[0]) == "atoms2", "v1 = coord(atoms1), v2 = coord(atoms2)")
    for e in d["diff"]:
        lf = linform(e)
        ctx.ob("R2.displacement-sign", GEO, "displacement", ast.unparse(e), lf == {"v2": 1, "v1": -1},
               f"the displacement from atoms1 to atoms2 is v2 - v1, the expression is {lf}", e.lineno)
    ctx.floor("R2.displacement-sign", len(d["diff"]), 1)
    # distance
    f = g.func("distance")
    dc = displacement_calls(f)
    defs = assigns(f)
    ret = ret_expr(f)
    ok = isinstance(ret, ast.Call) and call_name(ret) in ("np.sqrt", "sqrt")
    tree = None
    if ok:
        try:
            s, tree = vtree(ret.args[0], defs, set(dc))
            ok = s == 1 and len(dc) == 1 and tree == ("dot",) + (next(iter(dc)),) * 2
        except AnalysisError:
            ok = False
    ctx.ob("R2.distance-def", GEO, "distance", ast.unparse(ret), ok,
           "distance is sqrt(d.d) of the displacement d", f.lineno)
    box_forward(ctx, g, "distance", dc)
    # angle
    f = g.func("angle")
    ps = param_names(f)
    dc = displacement_calls(f)
    defs = assigns(f)
    ret = ret_expr(f)
    ctx.need(len(ps) == 4 and len(dc) == 2, "angle: three atom parameters, two displacements")
    vertex = ps[1]
    ends = sorted([ps[0], ps[2]])
    pos = set()
    others = []
    for v, (a, b, _) in dc.items():
        if a == vertex:
            pos.add(0); others.append(b)
        elif b == vertex:
            pos.add(1); others.append(a)
        else:
            pos.add(None)
    ctx.ob("R2.angle-vertex", GEO, "angle", str(sorted((v, a, b) for v, (a, b, _) in dc.items())),
           len(pos) == 1 and None not in pos and sorted(others) == ends,
           f"both arms of the angle must join the vertex {vertex} to {ends[0]} and {ends[1]} in the same orientation", f.lineno)
    ok = isinstance(ret, ast.Call) and call_name(ret) in ("np.arccos", "arccos")
    if ok:
        s, tree = vtree(ret.args[0], defs, set(dc))
        a, b = sorted(dc)
        ok = s == 1 and tree == ("dot", a, b)
        deg = degree(tree, normalised(f))
        ctx.ob("R2.angle-normalised", GEO, "angle", f"degree {sorted(deg.items())}", not deg,
               f"arccos needs the cosine: the dot product must have degree 0 in every arm, not {deg}", f.lineno)
    ctx.ob("R2.angle-def", GEO, "angle", ast.unparse(ret), ok, "angle is arccos of the dot product of the two unit arms", f.lineno)
    box_forward(ctx, g, "angle", dc)
    # dihedral
    f = g.func("dihedral")
    ps = param_names(f)
    dc = displacement_calls(f)
    defs = assigns(f)
    ret = ret_expr(f)
    ctx.need(len(ps) == 5 and len(dc) == 3, "dihedral: four atom parameters, three displacements")
    chain = {}
    for v, (a, b, _) in dc.items():
        chain[(a, b)] = v
    fw = [chain.get((ps[i], ps[i + 1])) for i in range(3)]
    bw = [chain.get((ps[i + 1], ps[i])) for i in range(3)]
    okc = all(fw) or all(bw)
    ctx.ob("R2.dihedral-chain", GEO, "dihedral", str(sorted(chain)), okc,
           "the three bond vectors must be 1->2, 2->3, 3->4 (all in one orientation)", f.lineno)
    if okc:
        b1, b2, b3 = fw if all(fw) else bw
        # reversing all three vectors leaves the dihedral unchanged
        exp_y = canon(("dot", ("cross", ("cross", b1, b2), ("cross", b2, b3)), b2))
        exp_x = canon(("dot", ("cross", b1, b2), ("cross", b2, b3)))
        ok = isinstance(ret, ast.Call) and call_name(ret) in ("np.arctan2", "arctan2") and len(ret.args) == 2
        if ok:
            gy = vtree(ret.args[0], defs, set(dc))
            gx = vtree(ret.args[1], defs, set(dc))
            ok = gy == exp_y and gx == exp_x
            nm = normalised(f)
            dy, dx = degree(gy[1], nm), degree(gx[1], nm)
            ctx.ob("R2.dihedral-homogeneous", GEO, "dihedral", f"y{sorted(dy.items())} x{sorted(dx.items())}", dy == dx,
                   f"arctan2(y, x) is scale free only if y and x have equal degree in every bond vector: y {dy}, x {dx}", f.lineno)
        ctx.ob("R2.dihedral-def", GEO, "dihedral", ast.unparse(ret), ok,
               "IUPAC dihedral: atan2(((b1xb2)x(b2xb3)).b2/|b2|, (b1xb2).(b2xb3))", f.lineno)
    box_forward(ctx, g, "dihedral", dc)
    # util helpers
    u = ctx.src(UTL)
    check_spec(ctx, "R2.vector-dot", UTL, "vector_dot", "np.sum(v1 * v2, axis=-1)",
               "vector_dot sums the products over the last (xyz) axis")
    nv = u.func("norm_vector")
    fac = single_def(nv, "factor")
    okf = call_name(fac) == "np.linalg.norm" and any(k.arg == "axis" and ast.unparse(k.value) == "-1" for k in fac.keywords)
    augs = [st for st in stmts(nv) if isinstance(st, ast.AugAssign)]
    okd = bool(augs) and all(isinstance(a.op, ast.Div) and ast.unparse(a.target) == "v" and "factor" in names_in(a.value) for a in augs)
    ctx.ob("R2.norm-vector", UTL, "norm_vector", "v /= norm(v, axis=-1)", okf and okd,
           "norm_vector divides in place by the Euclidean norm along the last axis", nv.lineno)
    check_spec(ctx, "R2.centroid", GEO, "centroid", "np.mean(coord(atoms), axis=-2)",
               "the centroid averages over the atom axis (-2)")
    backbone(ctx, g)


def box_forward(ctx, g, q, dc):
    for v, (a, b, box) in sorted(dc.items()):
        ctx.ob("R2.box-forwarded", GEO, q, f"{v} = displacement({a}, {b}, ...)", box is not None and ast.unparse(box) == "box",
               "every displacement of a measurement must be taken under the caller's box", g.func(q).lineno)


def _slice_off(sl):
    """start offset and stop offset of a literal slice"""
    lo = const_eval(sl.lower) if sl.lower is not None else 0
    hi = const_eval(sl.upper) if sl.upper is not None else 0
    return lo, hi


def backbone(ctx, g):
    f = g.func("dihedral_backbone")
    # names bound to atom names
    unpack = None
    for st in stmts(f):
        if isinstance(st, ast.Assign) and isinstance(st.targets[0], ast.Tuple) and isinstance(st.value, ast.Call) \
                and call_name(st.value) == "coord_for_atom_name_per_residue":
            unpack = st
    ctx.need(unpack is not None, "coord_for_atom_name_per_residue unpacking")
    names = const_eval(unpack.value.args[1])
    var_atom = {t.id: nm for t, nm in zip(unpack.targets[0].elts, names)}
    ctx.need(len(var_atom) == 3, "three backbone atom arrays")
    table = {}
    for st in stmts(f):
        if isinstance(st, ast.Assign) and isinstance(st.targets[0], ast.Subscript) and isinstance(st.value, ast.Subscript):
            t, v = st.targets[0], st.value
            if not (isinstance(t.value, ast.Name) and t.value.id.startswith("coord_for_") and isinstance(v.value, ast.Name)):
                continue
            ang = t.value.id[len("coord_for_"):]
            te, ve = t.slice.elts, v.slice.elts
            ctx.need(len(te) == 4 and len(ve) == 3 and isinstance(te[1], ast.Slice) and isinstance(ve[1], ast.Slice),
                     "dihedral_backbone slice shape")
            k = const_eval(te[3])
            (dl, dh), (sl, sh) = _slice_off(te[1]), _slice_off(ve[1])
            ctx.ob("R2.backbone-length", GEO, f.name, ast.unparse(st), (dh - dl) == (sh - sl),
                   "source and destination residue ranges must have equal length", st.lineno)
            table.setdefault(ang, {})[k] = (var_atom.get(v.value.id), sl - dl)
    for ang, exp in IUPAC.items():
        got = [table.get(ang, {}).get(k) for k in range(4)]
        ctx.ob("R2.backbone-table", GEO, f.name, f"{ang}: {got}", got == exp,
               f"IUPAC {ang} uses {exp} (atom, residue offset)", f.lineno)
    # calls pass slots 0..3 in order
    n = 0
    for c in calls(f):
        if call_name(c) == "dihedral":
            n += 1
            slots = []
            bases = set()
            for a in c.args:
                if isinstance(a, ast.Subscript) and isinstance(a.value, ast.Name) and isinstance(a.slice, ast.Tuple):
                    slots.append(const_eval(a.slice.elts[-1])); bases.add(a.value.id)
            ctx.ob("R2.backbone-call", GEO, f.name, ast.unparse(c)[:60], slots == [0, 1, 2, 3] and len(bases) == 1,
                   "the four atoms are passed to dihedral() in slot order from one table", c.lineno)
    ctx.floor("R2.backbone-call", n, 3)
    ret = ret_expr(f)
    ctx.ob("R2.backbone-return", GEO, f.name, ast.unparse(ret), ast.unparse(ret) in ("(phi, psi, omg)", "(phi, psi, omega)"),
           "documented return order phi, psi, omega", f.lineno)
    for nm in ("phi", "psi", "omg"):
        v = single_def(f, nm)
        ctx.ob("R2.backbone-bind", GEO, f.name, f"{nm} = dihedral(coord_for_{nm}...)",
               isinstance(v, ast.Call) and all(isinstance(a, ast.Subscript) and a.value.id == f"coord_for_{nm}" for a in v.args),
               f"{nm} must be computed from its own table", f.lineno)


# ---------------- R3 ---------------------------------------------------------

def r3_periodic(ctx):
    g = ctx.src(GEO)
    f = g.func("displacement")
    cfg = CFG(f)
    dom = cfg.dominators()
    helpers = ("_displacement_orthogonal_box", "_displacement_triclinic_box")
    wrap = [n for n in cfg.nodes if n.kind == "stmt" and (
        (isinstance(n.ast, ast.Assign) and isinstance(n.ast.value, ast.BinOp) and isinstance(n.ast.value.op, ast.Mod)
         and ast.unparse(n.ast.value) == "fractions % 1" and ast.unparse(n.ast.targets[0]) == "fractions")
        or (isinstance(n.ast, ast.AugAssign) and isinstance(n.ast.op, ast.Mod) and ast.unparse(n.ast.target) == "fractions"
            and ast.unparse(n.ast.value) == "1"))]
    tofrac = [n for n in cfg.nodes if n.kind == "stmt" and isinstance(n.ast, ast.Assign)
              and isinstance(n.ast.value, ast.Call) and call_name(n.ast.value) == "coord_to_fraction"
              and ast.unparse(n.ast.value.args[0]) == "diff" and ast.unparse(n.ast.value.args[1]) == "box"]
    hn = []
    for n in cfg.nodes:
        if n.kind == "stmt" and isinstance(n.ast, ast.Expr) and isinstance(n.ast.value, ast.Call) \
                and call_name(n.ast.value) in helpers:
            hn.append(n)
    ctx.floor("R3.wrap-dominates", len(hn), 6)
    for n in hn:
        okw = any(w.id in dom[n.id] for w in wrap) and any(t.id in dom[n.id] for t in tofrac)
        ctx.ob("R3.wrap-dominates", GEO, "displacement", ast.unparse(n.ast)[:70], okw,
               "the image search assumes fractions of diff in [0,1): coord_to_fraction(diff, box) and `% 1` must dominate it",
               n.ast.lineno)
    # rank dispatch
    ranks = {}
    chain_else_raise = False
    for st in stmts(f):
        if isinstance(st, ast.If) and isinstance(st.test, ast.Compare) and ast.unparse(st.test.left) == "fractions.ndim" \
                and isinstance(st.test.ops[0], ast.Eq):
            ranks[const_eval(st.test.comparators[0])] = st
            if st.orelse and not (len(st.orelse) == 1 and isinstance(st.orelse[0], ast.If)):
                chain_else_raise = any(isinstance(s, ast.Raise) for s in st.orelse)
    ctx.ob("R3.rank-dispatch", GEO, "displacement", f"fractions.ndim in {sorted(ranks)}", sorted(ranks) == [1, 2, 3],
           "shapes (3,), (n,3) and (m,n,3) each need a branch", f.lineno)
    ctx.ob("R3.rank-else", GEO, "displacement", "else: raise", chain_else_raise,
           "any other rank must be refused instead of returning zeros", f.lineno)
    for rk, st in sorted(ranks.items()):
        sel = []
        for s in ast.walk(ast.Module(body=st.body, type_ignores=[])):
            if isinstance(s, ast.If) and isinstance(s.test, ast.Name) and s.test.id.startswith("orthogonality"):
                bo = [call_name(c) for x in s.body for c in ast.walk(x) if isinstance(c, ast.Call) and call_name(c) in helpers]
                el = [call_name(c) for x in s.orelse for c in ast.walk(x) if isinstance(c, ast.Call) and call_name(c) in helpers]
                sel.append((s, bo, el))
        ctx.ob("R3.box-kind-select", GEO, "displacement", f"rank {rk}",
               len(sel) == 1 and sel[0][1] == [helpers[0]] and sel[0][2] == [helpers[1]],
               "orthogonal boxes go to the threshold rule, all others to the image search", st.lineno)
        if rk == 3:
            loop = next((x for x in st.body if isinstance(x, ast.For)), None)
            ctx.need(loop is not None and isinstance(loop.target, ast.Name), "model loop in rank-3 branch")
            i = loop.target.id
            # every path through the loop body that reaches a helper: which box and which orthogonality flag decide it, and
            # which arrays the helper gets (temporaries substituted, `.astype(..)` wrappers dropped)
            from ..exprnorm import calls_under_paths, canon as _canon, spec as _spec2

            def bare(e):
                while isinstance(e, ast.Call) and isinstance(e.func, ast.Attribute) and e.func.attr == "astype":
                    e = e.func.value
                return ast.unparse(e)
            seen = set()
            ok = True
            for conds, c in calls_under_paths(loop.body, set(helpers)):
                cs = set()
                for t in conds:
                    try:
                        cs.add(repr(_canon(t)))
                    except Exception:
                        pass
                if len(c.args) != 3:
                    ok = False
                    continue
                frac, bx, dsp = bare(c.args[0]), bare(c.args[1]), bare(c.args[2])
                single = bx == "box"
                orth_flag = "orthogonality" if single else f"orthogonality[{i}]"
                want_orth = call_name(c) == helpers[0]
                ok &= frac == f"fractions[{i}]" and dsp == f"disp[{i}]" and bx in ("box", f"box[{i}]")
                ok &= repr(_spec2(orth_flag if want_orth else f"not {orth_flag}")) in cs
                ok &= (repr(_spec2("box.ndim == 2")) in cs) if single else (repr(_spec2("box.ndim == 3")) in cs or repr(_spec2("not box.ndim == 2")) in cs)
                seen.add((single, want_orth))
            ctx.ob("R3.per-model", GEO, "displacement", f"helper calls per path: {sorted(seen)}",
                   ok and seen == {(True, True), (True, False), (False, True), (False, False)},
                   "model i is measured in box i (or the single box) with that box's orthogonality: fractions[i] / disp[i] go with "
                   "`box` and `orthogonality` when box.ndim == 2, with `box[i]` and `orthogonality[i]` when box.ndim == 3; orthogonal "
                   "boxes take the threshold rule, all others the image search", loop.lineno)
        if rk == 1:
            post = [ast.unparse(x) for x in st.body if isinstance(x, ast.Assign)]
            ctx.ob("R3.rank1-unwrap", GEO, "displacement", "disp = disp[0]", "disp = disp[0]" in post
                   and "fractions = fractions[np.newaxis, :]" in post and "disp = disp[np.newaxis, :]" in post,
                   "a single coordinate is lifted to (1,3) and the single row returned", st.lineno)
    # returns
    from .. import facts as _facts
    from ..exprnorm import spec as _spec
    ret_nodes = [st for st in stmts(f) if isinstance(st, ast.Return)]
    rets = sorted(ast.unparse(st.value) for st in ret_nodes)
    under = {ast.unparse(st.value): _facts.facts_at(f, st) for st in ret_nodes}
    ctx.ob("R3.returns", GEO, "displacement", str(rets) + ": disp under `box is not None`, diff otherwise",
           rets == ["diff", "disp"] and _spec("box is not None") in under["disp"] and _spec("box is None") in under["diff"],
           "box given -> the minimum-image displacement, otherwise the plain difference (and not the other way round)", f.lineno)
    # orthogonal helper
    o = g.func("_displacement_orthogonal_box")
    body = [st for st in stmts(o)]
    okt = False
    for st in body:
        if isinstance(st, ast.AugAssign) and isinstance(st.op, ast.Sub) and isinstance(st.target, ast.Subscript):
            t = st.target.slice
            okt = isinstance(t, ast.Compare) and isinstance(t.ops[0], (ast.Gt, ast.GtE)) and ast.unparse(t.left) == "fractions" \
                and const_eval(t.comparators[0]) == 0.5 and const_eval(st.value) == 1 and ast.unparse(st.target.value) == "fractions"
    last = body[-1] if body else None
    okl = isinstance(last, ast.Assign) and ast.unparse(last) == "disp[:] = fraction_to_coord(fractions, box)"
    ctx.ob("R3.orthogonal-threshold", GEO, o.name, "fractions[fractions > 0.5] -= 1", okt,
           "in an orthorhombic box the shortest image has every fraction in (-0.5, 0.5]", o.lineno)
    ctx.ob("R3.orthogonal-result", GEO, o.name, "disp[:] = fraction_to_coord(fractions, box)", okl,
           "the shifted fractions are converted back with the same box after the shift", o.lineno)
    # triclinic helper
    t = g.func("_displacement_triclinic_box")
    # the candidate shifts: three index variables, each running over a literal set, and one list [x, y, z] per combination -
    # written as three nested loops with an append, as a comprehension with three `for` clauses, or over itertools.product
    def index_set(it):
        if isinstance(it, ast.Call) and call_name(it) == "range":
            return set(range(*[const_eval(a) for a in it.args]))
        if isinstance(it, (ast.Tuple, ast.List)):
            return {const_eval(e) for e in it.elts}
        raise AnalysisError("image index set is not a literal range / tuple")

    def product_sets(it, n):
        if isinstance(it, ast.Call) and (call_name(it) or "").split(".")[-1] == "product":
            rep = [k.value for k in it.keywords if k.arg == "repeat"]
            if rep and len(it.args) == 1 and const_eval(rep[0]) == n:
                return [index_set(it.args[0])] * n
            if not it.keywords and len(it.args) == n:
                return [index_set(a) for a in it.args]
        return None
    lv, ranges, elem, comp, anchor = None, None, None, {}, t
    loops = []
    x = t
    while True:
        nxt = [s_ for s_ in x.body if isinstance(s_, ast.For)]
        if not nxt:
            break
        loops.append(nxt[0])
        x = nxt[0]
    def three_components(e):
        """[x, y, z] written out, or `[f(dim) for dim in range(3)]` written out here"""
        if isinstance(e, (ast.List, ast.Tuple)) and len(e.elts) == 3:
            return e
        if isinstance(e, ast.ListComp) and len(e.generators) == 1 and not e.generators[0].ifs and isinstance(e.generators[0].target, ast.Name):
            try:
                dims = sorted(index_set(e.generators[0].iter))
            except (AnalysisError, NotConst):
                return None
            if dims == [0, 1, 2]:
                from ..exprnorm import subst as _sb
                return ast.List(elts=[_sb(e.elt, {e.generators[0].target.id: ast.Constant(d)}) for d in dims], ctx=ast.Load())
        return None
    comps = [n_ for n_ in ast.walk(t) if isinstance(n_, ast.ListComp) and three_components(n_.elt) is not None
             and not (len(n_.generators) == 1 and isinstance(n_.generators[0].target, ast.Name))]
    if len(loops) == 3 and all(isinstance(lp.target, ast.Name) for lp in loops):
        lv = [lp.target.id for lp in loops]
        ranges = [index_set(lp.iter) for lp in loops]
        inner = loops[2]
        for st in inner.body:
            if isinstance(st, ast.Assign) and isinstance(st.targets[0], ast.Name):
                comp[st.targets[0].id] = st.value
        app = [c for c in ast.walk(inner) if isinstance(c, ast.Call) and isinstance(c.func, ast.Attribute) and c.func.attr == "append"]
        ctx.need(len(app) == 1 and three_components(app[0].args[0]) is not None, "periodic_shift.append([x, y, z])")
        elem, anchor = three_components(app[0].args[0]), loops[0]
    elif len(loops) == 1 and isinstance(loops[0].target, (ast.Tuple, ast.List)) and len(loops[0].target.elts) == 3 \
            and product_sets(loops[0].iter, 3) is not None:
        lv = [e.id for e in loops[0].target.elts]
        ranges = product_sets(loops[0].iter, 3)
        for st in loops[0].body:
            if isinstance(st, ast.Assign) and isinstance(st.targets[0], ast.Name):
                comp[st.targets[0].id] = st.value
        app = [c for c in ast.walk(loops[0]) if isinstance(c, ast.Call) and isinstance(c.func, ast.Attribute) and c.func.attr == "append"]
        ctx.need(len(app) == 1 and three_components(app[0].args[0]) is not None, "periodic_shift.append([x, y, z])")
        elem, anchor = three_components(app[0].args[0]), loops[0]
    elif len(comps) == 1:
        c_ = comps[0]
        gens = c_.generators
        ctx.need(not any(g_.ifs for g_ in gens), "unconditional image comprehension")
        if len(gens) == 3 and all(isinstance(g_.target, ast.Name) for g_ in gens):
            lv = [g_.target.id for g_ in gens]
            ranges = [index_set(g_.iter) for g_ in gens]
        elif len(gens) == 1 and isinstance(gens[0].target, (ast.Tuple, ast.List)) and len(gens[0].target.elts) == 3:
            lv = [e.id for e in gens[0].target.elts]
            ranges = product_sets(gens[0].iter, 3)
        elem, anchor = three_components(c_.elt), c_
    ctx.need(lv is not None and ranges is not None and elem is not None,
             "the eight candidate images (three nested loops, a three-fold comprehension or itertools.product over literal index sets)")
    ctx.ob("R3.triclinic-images", GEO, t.name, str([sorted(r) for r in ranges]), all({-1, 0} <= r for r in ranges),
           "with fractions in [0,1) the shortest image needs the shifts -1 and 0 on every axis (8 candidates)", anchor.lineno)

    class _E:
        pass
    app = [_E()]
    app[0].args = [elem]
    env = {}
    for r in range(3):
        for c in range(3):
            env[f"box[{r}, {c}]"] = poly.Poly.sym(f"b{r}{c}")
    for v in lv:
        env[v] = poly.Poly.sym(v)
    for c, el in enumerate(app[0].args[0].elts):
        e = comp.get(el.id) if isinstance(el, ast.Name) else el
        try:
            p = poly.from_ast(e, env)
        except poly.NotPoly as ex:
            raise AnalysisError(f"triclinic shift component not polynomial: {ex}")
        exp = sum((poly.Poly.sym(lv[r]) * poly.Poly.sym(f"b{r}{c}") for r in range(3)), poly.Poly())
        ctx.ob("R3.triclinic-lattice", GEO, t.name, f"component {c}: {ast.unparse(e)}", p == exp,
               f"component {c} of a candidate shift is i*box[0,{c}] + j*box[1,{c}] + k*box[2,{c}] (an integer combination of box vectors)",
               e.lineno)
    d = assigns(t)
    sh = d.get("shifted_diffs", [None])[0]
    oks = sh is not None and ast.unparse(sh) == "diffs[:, np.newaxis, :] + periodic_shift[np.newaxis, :, :]"
    ctx.ob("R3.triclinic-candidates", GEO, t.name, "shifted_diffs", oks and ast.unparse(d["diffs"][0]) == "fraction_to_coord(fractions, box)",
           "every candidate is the wrapped difference plus one lattice shift", t.lineno)
    sq = d.get("sq_distance", [None])[0]
    last = [st for st in stmts(t) if isinstance(st, ast.Assign) and ast.unparse(st.targets[0]) == "disp[:]"]
    okm = sq is not None and ast.unparse(sq) == "vector_dot(shifted_diffs, shifted_diffs)" and len(last) == 1 \
        and ast.unparse(last[0].value) == "shifted_diffs[np.arange(len(shifted_diffs)), np.argmin(sq_distance, axis=1)]"
    ctx.ob("R3.triclinic-argmin", GEO, t.name, ast.unparse(last[0].value) if last else "disp[:] = ...", okm,
           "the candidate of minimal squared length (argmin over the image axis) is returned per row", t.lineno)


# ---------------- R4 ---------------------------------------------------------

def r4_box(ctx):
    b = ctx.src(BOX)
    check_spec(ctx, "R4.fraction-inverse", BOX, "coord_to_fraction", "coord @ np.linalg.inv(box)",
               "fractions are coordinates times the inverse box (row vectors)")
    check_spec(ctx, "R4.fraction-inverse", BOX, "fraction_to_coord", "fraction @ box",
               "coordinates are fractions times the box, on the side coord_to_fraction uses its inverse")
    check_spec(ctx, "R4.move-inside", BOX, "move_inside_box", "fraction_to_coord(coord_to_fraction(coord, box) % 1, box)",
               "move_inside_box wraps the fractions into [0,1): a lattice-vector change")
    # repeat_box_coord: loops vs tile count
    r = b.func("repeat_box_coord")
    loops = []
    x = r
    while True:
        nxt = [s for s in x.body if isinstance(s, ast.For)]
        if not nxt:
            break
        loops.append(nxt[0]); x = nxt[0]
    ctx.need(len(loops) == 3, "repeat_box_coord: three nested loops")
    # (a guard clause `if centre: continue` is the same exclusion written the other way round)
    from ..normalize import _dissolve_continue
    inner_body = _dissolve_continue(list(loops[2].body))
    cond = next((s for s in inner_body if isinstance(s, ast.If)), None)
    ctx.need(cond is not None and any(isinstance(c_, ast.Call) and isinstance(c_.func, ast.Attribute) and c_.func.attr == "append" for c_ in ast.walk(cond)),
             "repeat_box_coord: centre-box exclusion around the statement that adds a copy")
    ret = ret_expr(r)
    ctx.need(isinstance(ret, ast.Tuple) and isinstance(ret.elts[1], ast.Call) and call_name(ret.elts[1]) == "np.tile", "np.tile(...) index return")
    reps = ret.elts[1].args[1]
    lv = [lp.target.id for lp in loops]
    agree = True
    detail = []
    for amount in range(0, 5):   # a cubic identity is decided by 4 points; 5 used
        n = 1
        rngs = [range(*[const_eval(a, {"amount": amount}) for a in lp.iter.args]) for lp in loops]
        for i in rngs[0]:
            for j in rngs[1]:
                for k in rngs[2]:
                    if const_eval(cond.test, dict(zip(lv, (i, j, k)))):
                        n += 1
        want = const_eval(reps, {"amount": amount})
        detail.append((amount, n, want))
        agree &= n == want
    ctx.ob("R4.repeat-count", BOX, r.name, ast.unparse(reps), agree,
           f"number of coordinate copies produced by the loops must equal the tile count of the index array: {detail}", r.lineno)
    sym = [set(range(*[const_eval(a, {"amount": 2}) for a in lp.iter.args])) == {-2, -1, 0, 1, 2} for lp in loops]
    ctx.ob("R4.repeat-range", BOX, r.name, "range(-amount, amount + 1) x3", all(sym),
           "amount boxes in each direction on every axis", r.lineno)
    tv = None
    for st in ast.walk(loops[2]):
        if isinstance(st, ast.Assign) and ast.unparse(st.targets[0]) == "translation_vec":
            tv = st.value
    okv = tv is not None and ast.unparse(tv) == f"np.sum(box * np.array([{lv[0]}, {lv[1]}, {lv[2]}])[:, np.newaxis], axis=-2)"
    ctx.ob("R4.repeat-lattice", BOX, r.name, ast.unparse(tv) if tv is not None else "translation_vec", okv,
           "each copy is shifted by i*a + j*b + k*c with the loop integers in axis order", r.lineno)
    typ = any(isinstance(st, ast.If) and "Integral" in ast.unparse(st.test) and any(isinstance(s, ast.Raise) for s in st.body) for st in stmts(r))
    ctx.ob("R4.repeat-integral", BOX, r.name, "isinstance(amount, Integral)", typ, "a non-integer amount is refused", r.lineno)
    # repeat_box forwards
    rb = b.func("repeat_box")
    fw = [c for c in calls(rb) if call_name(c) == "repeat_box_coord"]
    ctx.need(len(fw) == 1, "repeat_box -> repeat_box_coord")
    got = [ast.unparse(a) for a in fw[0].args] + [f"{k.arg}={ast.unparse(k.value)}" for k in fw[0].keywords]
    ctx.ob("R4.repeat-forward", BOX, rb.name, ast.unparse(fw[0]), got in (["atoms.coord", "atoms.box", "amount"], ["atoms.coord", "atoms.box", "amount=amount"]),
           "repeat_box must repeat the structure's own coordinates and box by the requested amount", fw[0].lineno)
    # remove_pbc
    rp = b.func("remove_pbc")
    loop = next((s for s in rp.body if isinstance(s, ast.For)), None)
    ctx.need(loop is not None, "remove_pbc: molecule loop")
    txt = [ast.unparse(s) for s in loop.body]
    ok1 = any(t == "new_atoms.coord[..., mask, :] = remove_pbc_from_coord(new_atoms.coord[..., mask, :], atoms.box)" for t in txt)
    ok2 = any(t == "new_atoms.coord[..., mask, :] += center_in_box - center" for t in txt) \
        and any(t == "center_in_box = move_inside_box(center, new_atoms.box)" for t in txt)
    ctx.ob("R4.remove-pbc-molecule", BOX, rp.name, "remove_pbc_from_coord per molecule", ok1,
           "each molecule is reassembled from its own coordinates under the structure's box", loop.lineno)
    ctx.ob("R4.remove-pbc-centre", BOX, rp.name, "+= center_in_box - center", ok2,
           "the molecule is moved as a whole by (centre wrapped into box) - centre: a lattice vector", loop.lineno)
    ctx.ob("R4.remove-pbc-copy", BOX, rp.name, "new_atoms = atoms.copy()",
           ast.unparse(single_def(rp, "new_atoms")) == "atoms.copy()", "the input structure is not modified", rp.lineno)
    check_spec(ctx, "R4.pbc-reassembly", BOX, "remove_pbc_from_coord",
               "__set__(__set__(np.zeros(coord.shape, coord.dtype), __idx__[..., 0:1, :], move_inside_box(coord[..., 0:1, :], box)), "
               "__idx__[..., 1:, :], move_inside_box(coord[..., 0:1, :], box) + np.cumsum(index_displacement(coord, "
               "np.stack([np.arange(0, coord.shape[-2] - 1), np.arange(1, coord.shape[-2])], axis=1), box=box, periodic=True), axis=-2))",
               "first atom wrapped into the box, every other atom = first + accumulated minimum-image displacements of consecutive atoms (k, k+1)")
    # is_orthogonal pairs
    io = b.func("is_orthogonal")
    prs = set()
    for c in calls(io):
        if call_name(c) == "vector_dot":
            rows = []
            for a in c.args:
                if isinstance(a, ast.Subscript) and isinstance(a.slice, ast.Tuple):
                    rows.append(const_eval(a.slice.elts[-2]))
            prs.add(tuple(sorted(rows)))
    ands = sum(isinstance(n, ast.BinOp) and isinstance(n.op, ast.BitAnd) for n in ast.walk(ret_expr(io)))
    ctx.ob("R4.orthogonal-pairs", BOX, io.name, str(sorted(prs)), prs == {(0, 1), (0, 2), (1, 2)} and ands == 2,
           "a box is orthogonal only if all three pairs of box vectors are (conjunction)", io.lineno)
    # unit cell angle pairing between siblings
    uv = b.func("unitcell_from_vectors")
    d = assigns(uv)
    vec = {k: const_eval(v[0].slice) for k, v in d.items() if isinstance(v[0], ast.Subscript) and ast.unparse(v[0].value) == "box"}
    ln = {k: v[0].args[0].id for k, v in d.items() if isinstance(v[0], ast.Call) and call_name(v[0]) == "linalg.norm"}
    exp = {"alpha": {1, 2}, "beta": {0, 2}, "gamma": {0, 1}}
    for ang, rows in exp.items():
        e = d.get(ang, [None])[0]
        ok = False
        con = ast.unparse(e) if e is not None else ang
        if isinstance(e, ast.Call) and call_name(e) == "np.arccos" and isinstance(e.args[0], ast.BinOp) and isinstance(e.args[0].op, ast.Div):
            num, den = e.args[0].left, e.args[0].right
            if isinstance(num, ast.Call) and call_name(num) == "np.dot" and isinstance(den, ast.BinOp) and isinstance(den.op, ast.Mult):
                vs = [a.id for a in num.args]
                ls = [ln.get(x.id) for x in (den.left, den.right) if isinstance(x, ast.Name)]
                ok = None not in ls and None not in vs and {vec.get(v) for v in vs} == rows and sorted(ls) == sorted(vs)
        ctx.ob("R4.unitcell-angles", BOX, uv.name, con, ok,
               f"{ang} is the angle between box vectors {sorted(rows)}: arccos(u.v / (|u||v|))", uv.lineno)
    ret = ret_expr(uv)
    ctx.ob("R4.unitcell-order", BOX, uv.name, ast.unparse(ret), ast.unparse(ret) == "(len_a, len_b, len_c, alpha, beta, gamma)",
           "documented return order", uv.lineno)
    vu = b.func("vectors_from_unitcell")
    d = assigns(vu)
    env = {}
    for a in ("alpha", "beta", "gamma"):
        env[f"np.cos({a})"] = poly.Poly.sym("c" + a[0]); env[f"np.sin({a})"] = poly.Poly.sym("s" + a[0])
    for l in ("len_a", "len_b", "len_c"):
        env[l] = poly.Poly.sym(l)
    want = {"a_x": poly.Poly.sym("len_a"), "b_x": poly.Poly.sym("len_b") * poly.Poly.sym("cg"),
            "b_y": poly.Poly.sym("len_b") * poly.Poly.sym("sg"), "c_x": poly.Poly.sym("len_c") * poly.Poly.sym("cb")}
    for k, w in want.items():
        e = d.get(k, [None])[0]
        ctx.need(e is not None, f"vectors_from_unitcell: {k}")
        try:
            ok = poly.from_ast(e, env) == w
        except poly.NotPoly:
            ok = False
        ctx.ob("R4.unitcell-vectors", BOX, vu.name, f"{k} = {ast.unparse(e)}", ok,
               "a along x, b in the xy plane at angle gamma to a, c at angle beta to a", e.lineno)
    cy = d.get("c_y", [None])[0]
    okc = False
    if isinstance(cy, ast.BinOp) and isinstance(cy.op, ast.Div):
        try:
            num = poly.from_ast(cy.left, env)
            den = poly.from_ast(cy.right, env)
            okc = num == poly.Poly.sym("len_c") * (poly.Poly.sym("ca") - poly.Poly.sym("cb") * poly.Poly.sym("cg")) and den == poly.Poly.sym("sg")
        except poly.NotPoly:
            okc = False
    ctx.ob("R4.unitcell-vectors", BOX, vu.name, f"c_y = {ast.unparse(cy) if cy is not None else '?'}", okc,
           "c_y = len_c (cos alpha - cos beta cos gamma) / sin gamma, so that b.c = |b||c| cos alpha", vu.lineno)
    cz = d.get("c_z", [None])[0]
    okz = False
    if isinstance(cz, ast.Call) and call_name(cz) == "np.sqrt":
        try:
            e2 = dict(env); e2.update({k: poly.Poly.sym(k) for k in ("c_x", "c_y")})
            okz = poly.from_ast(cz.args[0], e2) == poly.Poly.sym("len_c") ** 2 - poly.Poly.sym("c_x") ** 2 - poly.Poly.sym("c_y") ** 2
        except poly.NotPoly:
            okz = False
    ctx.ob("R4.unitcell-vectors", BOX, vu.name, f"c_z = {ast.unparse(cz) if cz is not None else '?'}", okz,
           "c_z completes |c| = len_c", vu.lineno)
    bx = d.get("box", [None])[0]
    okb = False
    if bx is not None:
        try:
            rows = [[ast.unparse(x) for x in r.elts] for r in bx.args[0].elts]
            okb = rows == [["a_x", "0", "0"], ["b_x", "b_y", "0"], ["c_x", "c_y", "c_z"]]
        except Exception:
            okb = False
    ctx.ob("R4.unitcell-matrix", BOX, vu.name, "box rows a, b, c", okb, "box vectors are the rows; lower triangular", vu.lineno)
    # box_volume
    check_spec(ctx, "R4.volume", BOX, "box_volume", "np.abs(np.linalg.det(box))", "volume = |det(box)|")


def dead_params(ctx, rule, rels, minimum=40):
    n = 0
    for rel in rels:
        s = ctx.src(rel)
        for q, f in s.funcs.items():
            if "." in q or q.startswith("_"):
                continue
            used = {x.id for x in ast.walk(f) if isinstance(x, ast.Name) and isinstance(x.ctx, (ast.Load, ast.Del))}
            used |= {x.id for st in ast.walk(f) if isinstance(st, ast.AugAssign) for x in [st.target] if isinstance(x, ast.Name)}
            for p in param_names(f):
                n += 1
                ctx.ob(rule, rel, q, p, p in used,
                       f"documented parameter `{p}` of {q}() is never read: the call ignores it", f.lineno, nontrivial=False)
    ctx.floor(rule, n, minimum)


# ---------------- R5 ---------------------------------------------------------

def _trig_env(f, matrix_expr):
    """symbols for cos(x)/sin(x) calls appearing in a literal matrix"""
    env, rules = {}, {}
    k = 0
    for c in ast.walk(matrix_expr):
        if isinstance(c, ast.Call) and call_name(c) in ("cos", "sin", "np.cos", "np.sin"):
            arg = ast.unparse(c.args[0])
            key = ast.unparse(c)
            if key in env:
                continue
            tag = arg
            cs = "c" if call_name(c).endswith("cos") else "s"
            env[key] = poly.Poly.sym(f"{cs}({tag})")
            rules[f"s({tag})"] = poly.Poly.const(1) - poly.Poly.sym(f"c({tag})") ** 2
    return env, rules


def proper_rotation(ctx, rule, rel, q, name, m, rules, line):
    mt = poly.transpose(m)
    orth = poly.mat_eq(poly.matmul(mt, m), poly.identity(3), rules)
    det = poly.reduce(poly.det3(m) - 1, rules).is_zero()
    ctx.ob(rule + "-orthonormal", rel, q, name, orth,
           f"literal matrix {name} is not orthonormal (R^T R != I modulo sin^2+cos^2=1): not a rigid motion", line)
    ctx.ob(rule + "-det", rel, q, name, det, f"literal matrix {name} does not have determinant +1 (a reflection or scaling)", line)


def r5_transform(ctx):
    t = ctx.src(TRF)
    # rotate: three literal matrices
    f = t.func("rotate")
    d = assigns(f)
    mats = {}
    for axis, nm in enumerate(("rot_x", "rot_y", "rot_z")):
        e = d.get(nm, [None])[0]
        ctx.need(e is not None, f"rotate: {nm}")
        env, rules = _trig_env(f, e)
        try:
            m = poly.matrix_from_ast(e, env)
        except poly.NotPoly as ex:
            raise AnalysisError(f"rotate: {nm} is not a literal trigonometric matrix ({ex})")
        mats[nm] = (m, rules)
        proper_rotation(ctx, "R5.rotate", TRF, "rotate", nm, m, rules, e.lineno)
        # rotation about its own axis: the axis is fixed; counter-clockwise
        unit = [[poly.Poly.const(1 if i == axis else 0)] for i in range(3)]
        fixed = poly.mat_eq(poly.matmul(m, unit), unit, rules)
        angs = {ast.unparse(c.args[0]) for c in ast.walk(e) if isinstance(c, ast.Call) and call_name(c) in ("cos", "sin")}
        ctx.ob("R5.rotate-axis", TRF, "rotate", nm, fixed and angs == {f"angles[{axis}]"},
               f"{nm} must leave axis {axis} fixed and use angles[{axis}] only (uses {sorted(angs)})", e.lineno)
        # right-handed: image of the next axis has + sin on the axis after it
        nxt, aft = (axis + 1) % 3, (axis + 2) % 3
        sn = m[aft][nxt]
        ctx.ob("R5.rotate-handedness", TRF, "rotate", nm, sn == poly.Poly.sym(f"s(angles[{axis}])"),
               f"counter-clockwise rotation: element [{aft}][{nxt}] must be +sin", e.lineno)
    comp = [c for c in calls(f) if call_name(c) == "matrix_rotate"]
    ctx.need(len(comp) == 1, "rotate: matrix_rotate call")
    ctx.ob("R5.rotate-order", TRF, "rotate", ast.unparse(comp[0].args[1]), ast.unparse(comp[0].args[1]) == "rot_z @ rot_y @ rot_x",
           "documented order x, then y, then z: with column vectors the product is rot_z @ rot_y @ rot_x", comp[0].lineno)
    # matrix_rotate: R v (column convention) for any rank
    u = ctx.src(UTL)
    check_spec(ctx, "R5.matrix-rotate", UTL, "matrix_rotate",
               "np.dot(matrix, v.reshape(-1, 3).T).T.reshape(*v.shape) if v.ndim > 2 else np.dot(matrix, v.T).T",
               "matrix_rotate applies matrix @ x to every coordinate row; stacks are flattened and restored")
    # rotate_about_axis: Rodrigues matrix
    f = t.func("rotate_about_axis")
    d = assigns(f)
    e = d.get("rot_matrix", [None])[0]
    ctx.need(e is not None, "rotate_about_axis: rot_matrix")
    S = poly.Poly.sym
    env = {"sin_a": S("s"), "cos_a": S("c"), "icos_a": poly.Poly.const(1) - S("c"), "x": S("x"), "y": S("y"), "z": S("z")}
    defs_ok = ast.unparse(d["sin_a"][0]) == "np.sin(angle)" and ast.unparse(d["cos_a"][0]) == "np.cos(angle)" \
        and ast.unparse(d["icos_a"][0]) == "1 - cos_a" and [ast.unparse(d[k][0]) for k in "xyz"] == ["axis[..., 0]", "axis[..., 1]", "axis[..., 2]"]
    ctx.ob("R5.axis-symbols", TRF, f.name, "sin_a, cos_a, icos_a, x, y, z", defs_ok,
           "the symbols of the Rodrigues matrix are sin/cos of the angle and the components of the axis", f.lineno)
    rules = {"s": poly.Poly.const(1) - S("c") ** 2, "z": poly.Poly.const(1) - S("x") ** 2 - S("y") ** 2}
    try:
        m = poly.matrix_from_ast(e, env)
    except poly.NotPoly as ex:
        raise AnalysisError(f"rotate_about_axis: rot_matrix not polynomial ({ex})")
    proper_rotation(ctx, "R5.axis", TRF, f.name, "rot_matrix", m, rules, e.lineno)
    ax = [[S("x")], [S("y")], [S("z")]]
    ctx.ob("R5.axis-fixed", TRF, f.name, "rot_matrix @ axis == axis", poly.mat_eq(poly.matmul(m, ax), ax, rules),
           "the rotation axis itself must be invariant", e.lineno)
    tr = poly.reduce(m[0][0] + m[1][1] + m[2][2] - (poly.Poly.const(1) + 2 * S("c")), rules).is_zero()
    ctx.ob("R5.axis-angle", TRF, f.name, "trace == 1 + 2 cos(angle)", tr, "the rotation angle is `angle`", e.lineno)
    # handedness: antisymmetric part = sin * [axis]_x
    anti = poly.reduce(m[2][1] - m[1][2] - 2 * S("s") * S("x"), rules).is_zero() \
        and poly.reduce(m[0][2] - m[2][0] - 2 * S("s") * S("y"), rules).is_zero() \
        and poly.reduce(m[1][0] - m[0][1] - 2 * S("s") * S("z"), rules).is_zero()
    ctx.ob("R5.axis-handedness", TRF, f.name, "R - R^T == 2 sin(angle) [axis]x", anti, "counter-clockwise about the axis", e.lineno)
    cfg = CFG(f)
    dom, pdom = cfg.dominators(), cfg.postdominators()
    nodes = {ast.unparse(n.ast): n for n in cfg.nodes if n.kind == "stmt"}
    rot = nodes.get("positions = np.dot(rot_matrix, positions.T).T") or nodes.get("positions = matrix_rotate(positions, rot_matrix)")
    nrm = next((n for k, n in nodes.items() if k == "norm_vector(axis)"), None)
    ctx.ob("R5.axis-unit", TRF, f.name, "norm_vector(axis)", rot is not None and nrm is not None and nrm.id in dom[rot.id],
           "the Rodrigues matrix is a rotation only for a unit axis: normalisation must dominate its use", f.lineno)
    pairing(ctx, f, cfg, "positions -= np.asarray(support)", "positions += np.asarray(support)", "support is not None", rot, "R5.support-pairing")
    # align_vectors
    f = t.func("align_vectors")
    d = assigns(f)
    e = d.get("v_c", [None])[0]
    ctx.need(e is not None, "align_vectors: v_c")
    un = [st for st in stmts(f) if isinstance(st, ast.Assign) and isinstance(st.targets[0], ast.Tuple)
          and isinstance(st.value, ast.Call) and call_name(st.value) == "np.cross"]
    ctx.need(len(un) == 1, "align_vectors: vx, vy, vz = np.cross(...)")
    comps = [x.id for x in un[0].targets[0].elts]
    env = {c: S(c) for c in comps}
    m = poly.matrix_from_ast(e, env)
    vx, vy, vz = (S(c) for c in comps)
    want = [[poly.Poly(), -vz, vy], [vz, poly.Poly(), -vx], [-vy, vx, poly.Poly()]]
    ctx.ob("R5.align-cross-matrix", TRF, f.name, "v_c", poly.mat_eq(m, want, {}),
           "v_c must be the cross-product matrix [v]x of v = origin x target", e.lineno)
    ctx.ob("R5.align-cross-order", TRF, f.name, ast.unparse(un[0].value),
           [ast.unparse(a) for a in un[0].value.args] == ["origin_direction", "target_direction"],
           "v = origin x target rotates origin onto target (the reverse order rotates the other way)", un[0].lineno)
    rm = d.get("rot_matrix", [None])[0]
    ctx.ob("R5.align-rodrigues", TRF, f.name, ast.unparse(rm) if rm is not None else "rot_matrix",
           rm is not None and ast.unparse(rm) == "np.identity(3) + v_c + v_c @ v_c / (1 + cos_a)"
           and ast.unparse(d["cos_a"][0]) == "vector_dot(origin_direction, target_direction)",
           "R = I + [v]x + [v]x^2 / (1 + cos)", f.lineno)
    cfg = CFG(f)
    dom = cfg.dominators()
    nodes = {ast.unparse(n.ast): n for n in cfg.nodes if n.kind == "stmt"}
    rot = nodes.get("positions = matrix_rotate(positions, rot_matrix)")
    ctx.need(rot is not None, "align_vectors: rotation statement")
    for v in ("origin_direction", "target_direction"):
        n = nodes.get(f"norm_vector({v})")
        cross = nodes.get(ast.unparse(un[0]))
        ctx.ob("R5.align-unit", TRF, f.name, f"norm_vector({v})", n is not None and cross is not None and n.id in dom[cross.id],
               "the formula holds for unit direction vectors only", f.lineno)
        cp = d.get(v, [])
        cpn = [x for k, x in nodes.items() if k == f"{v} = {v}.copy()"]
        ctx.ob("R5.align-copy", TRF, f.name, f"{v} = {v}.copy()", bool(cpn) and n is not None and cpn[0].id in dom[n.id],
               "the caller's direction vector is not normalised in place", f.lineno)
    pairing(ctx, f, cfg, "positions -= origin_position", None, "origin_position is not None", rot, "R5.origin-pairing")
    pairing(ctx, f, cfg, None, "positions += target_position", "target_position is not None", rot, "R5.target-pairing")
    # rotate_centered
    check_spec(ctx, "R5.centered-sequence", TRF, "rotate_centered",
               "atoms.copy() if len(coord(atoms).shape) == 1 else translate(rotate(translate(atoms, -coord(centroid(atoms))[..., np.newaxis, :]), angles), "
               "coord(centroid(atoms))[..., np.newaxis, :])",
               "move the centroid to the origin, rotate, move back by the same vector")
    check_spec(ctx, "R5.translate", TRF, "translate", "_put_back(atoms, coord(atoms).copy() + np.asarray(vector))",
               "translation adds the vector to a copy of the coordinates")
    # every transformation works on a copy
    n = 0
    for q in ("translate", "rotate", "rotate_about_axis", "align_vectors"):
        f = t.func(q)
        dd = assigns(f).get("positions", [])
        n += 1
        ctx.ob("R5.copy-input", TRF, q, "positions = coord(atoms).copy()", bool(dd) and ast.unparse(dd[0]) == "coord(atoms).copy()",
               "in-place arithmetic must not reach the caller's coordinates", f.lineno)
    pb = t.func("_put_back")
    sts = [ast.unparse(s) for s in stmts(pb)]
    ctx.ob("R5.put-back", TRF, pb.name, "moved_atoms = input_atoms.copy()", "moved_atoms = input_atoms.copy()" in sts
           and "moved_atoms.coord = transformed" in sts, "results are returned in a copy of the structure", pb.lineno)
    # orient_principal_components: reflection correction present
    f = t.func("orient_principal_components")
    fix = [st for st in stmts(f) if isinstance(st, ast.If) and "np.linalg.det" in ast.unparse(st.test)]
    okf = len(fix) == 1 and isinstance(fix[0].test, ast.Compare) and isinstance(fix[0].test.ops[0], ast.Lt) \
        and any(isinstance(s, ast.AugAssign) and ast.unparse(s) == "v[:, -1] *= -1" for s in fix[0].body)
    ctx.ob("R5.principal-proper", TRF, f.name, "if det(v) * det(wt) < 0: v[:, -1] *= -1", okf,
           "an improper SVD solution must be corrected so that the applied matrix is a rotation", f.lineno)
    # the requested order of the axes goes INTO the rotation (the target of the alignment): columns permuted afterwards are a reflection
    # for every odd order
    rets = [st for st in ast.walk(f) if isinstance(st, ast.Return) and st.value is not None]
    ctx.ob("R5.principal-order-by-rotation", TRF, f.name, "idx = sigma.argsort()[::-1][order]; return _put_back(atoms, centered)",
           has_code(f, "idx = sigma.argsort()[::-1][order]") and len(rets) == 1 and same_expr(rets[0].value, "_put_back(atoms, centered)"),
           "what is returned are the coordinates as the (proper) rotations left them: a permutation of the columns applied afterwards mirrors "
           "the structure for the orders (0,2,1), (1,0,2), (2,1,0)", f.lineno)


def ret_expr_last(f):
    r = [st for st in f.body if isinstance(st, ast.Return)]
    if not r:
        raise AnalysisError(f"anchor vanished: final return of {f.name}")
    return r[-1].value


def pairing(ctx, f, cfg, before, after, cond, rot, rule):
    """`before` (guarded by cond) dominates-or-is-control-dependent ahead of rot; `after` follows it"""
    ctx.need(rot is not None, f"{f.name}: rotation statement")
    ok = True
    ifs = [st for st in f.body if isinstance(st, ast.If) and ast.unparse(st.test) == cond]
    order = {id(st): i for i, st in enumerate(f.body)}
    ri = next((i for i, st in enumerate(f.body) if st is rot.ast), None)
    ctx.need(ri is not None, f"{f.name}: rotation at function level")
    for text, want_before in ((before, True), (after, False)):
        if text is None:
            continue
        hit = [st for st in ifs if any(ast.unparse(s) == text for s in st.body)]
        good = len(hit) == 1 and ((order[id(hit[0])] < ri) == want_before)
        ctx.ob(rule, TRF, f.name, f"if {cond}: {text}", good,
               ("the shift to the origin must precede" if want_before else "the shift back must follow") + " the rotation, under the same condition",
               f.lineno)


MUTANTS = [
    Mutant("box-branches-swapped-returns", GEO, "        return disp\n\n    else:\n        return diff\n", "        return diff\n\n    else:\n        return disp\n", "R3.returns"),
    Mutant("index-angle-forwards-dihedral", GEO, "_call_non_index_function(angle, 3,", "_call_non_index_function(dihedral, 3,", "R1.index-forward"),
    Mutant("index-arity", GEO, "_call_non_index_function(distance, 2,", "_call_non_index_function(distance, 3,", "R1.index-arity"),
    Mutant("gather-column", GEO, "indices[:, i], :]", "indices[:, 0], :]", "R1.gather"),
    Mutant("nonperiodic-keeps-box", GEO, "    else:\n        box = None\n", "    else:\n        pass\n", "R1.box-selection"),
    Mutant("explicit-box-overridden", GEO, "        if box is None:\n            if isinstance(atoms, (AtomArray, AtomArrayStack)):\n                box = atoms.box\n            else:\n                raise ValueError(\n                    \"If `atoms` are coordinates, the box must be set explicitly\"\n                )", "        if isinstance(atoms, (AtomArray, AtomArrayStack)):\n            box = atoms.box\n        elif box is None:\n            raise ValueError(\n                \"If `atoms` are coordinates, the box must be set explicitly\"\n            )", "R1.box-selection"),
    Mutant("displacement-sign", GEO, "diff = -(v1 - v2)", "diff = v1 - v2", "R2.displacement-sign"),
    Mutant("angle-not-normalised", GEO, "    norm_vector(v1)\n    norm_vector(v2)\n    return np.arccos", "    norm_vector(v1)\n    return np.arccos", "R2.angle-normalised"),
    Mutant("angle-vertex", GEO, "v2 = displacement(atoms3, atoms2, box)", "v2 = displacement(atoms2, atoms3, box)", "R2.angle-vertex"),
    Mutant("angle-no-box", GEO, "v2 = displacement(atoms3, atoms2, box)", "v2 = displacement(atoms3, atoms2)", "R2.box-forwarded"),
    Mutant("dihedral-v2-not-normalised", GEO, "    norm_vector(v2)\n    norm_vector(v3)", "    norm_vector(v3)", "R2.dihedral-homogeneous"),
    Mutant("dihedral-sign", GEO, "n2 = np.cross(v2, v3)", "n2 = np.cross(v3, v2)", "R2.dihedral-def"),
    Mutant("dihedral-y", GEO, "y = vector_dot(np.cross(n1, n2), v2)", "y = vector_dot(np.cross(n1, n2), v1)", "R2.dihedral-def"),
    Mutant("backbone-psi-offset", GEO, "coord_for_psi[..., 0:-1, :, 3] =  coord_n[..., 1:,   :]", "coord_for_psi[..., 0:-1, :, 3] =  coord_n[..., 0:-1, :]", "R2.backbone-table"),
    Mutant("backbone-omega-atom", GEO, "coord_for_omg[..., 0:-1, :, 1] =  coord_c[..., 0:-1, :]", "coord_for_omg[..., 0:-1, :, 1] =  coord_n[..., 0:-1, :]", "R2.backbone-table"),
    Mutant("centroid-axis", GEO, "np.mean(coord(atoms), axis=-2)", "np.mean(coord(atoms), axis=-1)", "R2.centroid"),
    Mutant("wrap-removed", GEO, "        fractions = fractions % 1\n", "", "R3.wrap-dominates"),
    Mutant("rank-else-silent", GEO, "        else:\n            raise ValueError(f\"{diff.shape} is an invalid shape for atom coordinates\")\n", "", "R3.rank-else"),
    Mutant("box-kind-swapped", GEO, "        if fractions.ndim == 2:\n            # Single model\n            if orthogonality:", "        if fractions.ndim == 2:\n            # Single model\n            if not orthogonality:", "R3.box-kind-select"),
    Mutant("per-model-box", GEO, "box_for_model = box[i]", "box_for_model = box[0]", "R3.per-model"),
    Mutant("orthogonal-threshold", GEO, "fractions[fractions > 0.5] -= 1", "fractions[fractions > 0.75] -= 1", "R3.orthogonal-threshold"),
    Mutant("triclinic-images", GEO, "    for i in range(-1, 1):\n        for j in range(-1, 1):\n            for k in range(-1, 1):", "    for i in range(-1, 1):\n        for j in range(-1, 1):\n            for k in range(0, 1):", "R3.triclinic-images"),
    Mutant("triclinic-lattice", GEO, "y = i * box[0, 1] + j * box[1, 1] + k * box[2, 1]", "y = i * box[0, 1] + j * box[1, 1] + k * box[1, 2]", "R3.triclinic-lattice"),
    Mutant("triclinic-argmax", GEO, "np.argmin(sq_distance, axis=1)", "np.argmax(sq_distance, axis=1)", "R3.triclinic-argmin"),
    Mutant("fraction-side", BOX, "return np.matmul(fraction, box)", "return np.matmul(box, fraction)", "R4.fraction-inverse"),
    Mutant("repeat-count", BOX, "(1 + 2 * amount) ** 3),", "(2 * amount) ** 3 + 1),", "R4.repeat-count"),
    Mutant("repeat-amount-dropped", BOX, "repeat_box_coord(atoms.coord, atoms.box, amount)", "repeat_box_coord(atoms.coord, atoms.box)", "R4.repeat-forward"),
    Mutant("repeat-amount-dead", BOX, "repeat_box_coord(atoms.coord, atoms.box, amount)", "repeat_box_coord(atoms.coord, atoms.box)", "R4.param-used"),
    Mutant("remove-pbc-centre", BOX, "new_atoms.coord[..., mask, :] += center_in_box - center", "new_atoms.coord[..., mask, :] += center_in_box", "R4.remove-pbc-centre"),
    Mutant("pbc-not-periodic", BOX, "coord, index_pairs, box=box, periodic=True", "coord, index_pairs, box=box, periodic=False", "R4.pbc-reassembly"),
    Mutant("orthogonal-two-pairs", BOX, "& (np.abs(vector_dot(box[..., 1, :], box[..., 2, :])) < tol)", "& (np.abs(vector_dot(box[..., 0, :], box[..., 2, :])) < tol)", "R4.orthogonal-pairs"),
    Mutant("unitcell-alpha-beta", BOX, "alpha = np.arccos(np.dot(b, c) / (len_b * len_c))", "alpha = np.arccos(np.dot(a, c) / (len_a * len_c))", "R4.unitcell-angles"),
    Mutant("unitcell-cx", BOX, "c_x = len_c * np.cos(beta)", "c_x = len_c * np.cos(alpha)", "R4.unitcell-vectors"),
    Mutant("rot-y-sign", TRF, "[-sin(angles[1]), 0, cos(angles[1])],", "[sin(angles[1]), 0, cos(angles[1])],", "R5.rotate-orthonormal"),
    Mutant("rot-z-clockwise", TRF, "[cos(angles[2]), -sin(angles[2]), 0],\n            [sin(angles[2]), cos(angles[2]), 0],", "[cos(angles[2]), sin(angles[2]), 0],\n            [-sin(angles[2]), cos(angles[2]), 0],", "R5.rotate-handedness"),
    Mutant("rotate-order", TRF, "rot_z @ rot_y @ rot_x", "rot_x @ rot_y @ rot_z", "R5.rotate-order"),
    Mutant("rodrigues-entry", TRF, "icos_a * x * y - z * sin_a", "icos_a * x * y + z * sin_a", "R5.axis-orthonormal"),
    Mutant("axis-not-normalised", TRF, "    norm_vector(axis)\n    # Save some interim", "    # Save some interim", "R5.axis-unit"),
    Mutant("support-not-restored", TRF, "    if support is not None:\n        # Transform coordinates back to original support vector position\n        positions += np.asarray(support)", "    if support is not None:\n        # Transform coordinates back to original support vector position\n        positions -= np.asarray(support)", "R5.support-pairing"),
    Mutant("align-cross-order", TRF, "np.cross(origin_direction, target_direction)", "np.cross(target_direction, origin_direction)", "R5.align-cross-order"),
    Mutant("align-matrix-sign", TRF, "[vz, 0, -vx]", "[vz, 0, vx]", "R5.align-cross-matrix"),
    Mutant("centered-back", TRF, "translated_back = translate(rotated, center)", "translated_back = translate(rotated, -center)", "R5.centered-sequence"),
    Mutant("translate-in-place", TRF, "    positions = coord(atoms).copy()\n    vector = np.asarray(vector)", "    positions = coord(atoms)\n    vector = np.asarray(vector)", "R5.copy-input"),
    Mutant("pbc-base-not-wrapped", BOX, "base_coord = move_inside_box(coord[..., 0:1, :], box)", "base_coord = coord[..., 0:1, :]", "R4.pbc-reassembly", kind="break"),
    Mutant("refactor-matmul-operator", BOX, "return np.matmul(fraction, box)", "return fraction @ box", "R4.fraction-inverse", kind="silent"),
    Mutant("refactor-temporaries", BOX, "    fractions = coord_to_fraction(coord, box)\n    fractions_rem = fractions % 1\n    return fraction_to_coord(fractions_rem, box)", "    return fraction_to_coord(coord_to_fraction(coord, box) % 1, box)", "R4.move-inside", kind="silent"),
    Mutant("refactor-sum-function", UTL, "return (v1 * v2).sum(axis=-1)", "return np.sum(v2 * v1, axis=-1)", "R2.vector-dot", kind="silent"),
    Mutant("principal-no-reflection-fix", TRF, "            v[:, -1] *= -1", "            pass", "R5.principal-proper"),
    # one seeded fault per rule that had none
    Mutant("index-call-drops-box", GEO, "    return function(*coord_list, box)", "    return function(*coord_list)", "R1.call"),
    Mutant("column-guard-only-too-few", GEO, "    if indices.shape[-1] != expected_amount:", "    if indices.shape[-1] < expected_amount:", "R1.column-guard"),
    Mutant("index-angle-drops-kwargs", GEO, "_call_non_index_function(angle, 3, *args, **kwargs)", "_call_non_index_function(angle, 3, *args)", "R1.index-args", qualname="index_angle"),
    Mutant("angle-self-dot", GEO, "return np.arccos(vector_dot(v1, v2))", "return np.arccos(vector_dot(v1, v1))", "R2.angle-def"),
    Mutant("angle-supplement", GEO, "return np.arccos(vector_dot(v1, v2))", "return np.arccos(-vector_dot(v1, v2))", "R2.angle-def"),
    Mutant("backbone-psi-from-phi-table", GEO, "        coord_for_psi[..., 2],\n", "        coord_for_phi[..., 2],\n", "R2.backbone-bind"),
    Mutant("backbone-phi-slots-swapped", GEO, "        coord_for_phi[..., 1],\n        coord_for_phi[..., 2],\n", "        coord_for_phi[..., 2],\n        coord_for_phi[..., 1],\n", "R2.backbone-call"),
    Mutant("backbone-phi-source-range", GEO, "coord_for_phi[..., 1:,   :, 0] =  coord_c[..., 0:-1, :]", "coord_for_phi[..., 1:,   :, 0] =  coord_c[..., 0:,   :]", "R2.backbone-length"),
    Mutant("backbone-return-order", GEO, "    return phi, psi, omg", "    return phi, omg, psi", "R2.backbone-return"),
    Mutant("dihedral-middle-bond-reversed", GEO, "v2 = displacement(atoms2, atoms3, box)", "v2 = displacement(atoms3, atoms2, box)", "R2.dihedral-chain"),
    Mutant("distance-squared", GEO, "return np.sqrt(vector_dot(diff, diff))", "return vector_dot(diff, diff)", "R2.distance-def"),
    Mutant("norm-vector-axis", UTL, "factor = np.linalg.norm(v, axis=-1)", "factor = np.linalg.norm(v, axis=0)", "R2.norm-vector"),
    Mutant("norm-vector-multiplies", UTL, "        v /= factor[..., np.newaxis]", "        v *= factor[..., np.newaxis]", "R2.norm-vector"),
    Mutant("vector-dot-axis", UTL, "return (v1 * v2).sum(axis=-1)", "return (v1 * v2).sum(axis=-2)", "R2.vector-dot"),
    Mutant("orthogonal-convert-before-shift", GEO, "    fractions[fractions > 0.5] -= 1\n    disp[:] = fraction_to_coord(fractions, box)", "    disp[:] = fraction_to_coord(fractions, box)\n    fractions[fractions > 0.5] -= 1", "R3.orthogonal-result"),
    Mutant("rank-3-branch-mistyped", GEO, "        elif fractions.ndim == 3:", "        elif fractions.ndim == 4:", "R3.rank-dispatch"),
    Mutant("rank1-not-unwrapped", GEO, "            # Transform back\n            disp = disp[0]\n", "", "R3.rank1-unwrap"),
    Mutant("box-result-discarded", GEO, "        return disp\n", "        return diff\n", "R3.returns"),
    Mutant("triclinic-diffs-wrong-conversion", GEO, "diffs = fraction_to_coord(fractions, box)", "diffs = coord_to_fraction(fractions, box)", "R3.triclinic-candidates"),
    Mutant("triclinic-shift-subtracted", GEO, "shifted_diffs = diffs[:, np.newaxis, :] + periodic_shift[np.newaxis, :, :]", "shifted_diffs = diffs[:, np.newaxis, :] - periodic_shift[np.newaxis, :, :]", "R3.triclinic-candidates"),
    Mutant("move-inside-unwrapped", BOX, "return fraction_to_coord(fractions_rem, box)", "return fraction_to_coord(fractions, box)", "R4.move-inside"),
    Mutant("remove-pbc-in-place", BOX, "    new_atoms = atoms.copy()\n", "    new_atoms = atoms\n", "R4.remove-pbc-copy"),
    Mutant("remove-pbc-whole-structure", BOX, "remove_pbc_from_coord(\n            new_atoms.coord[..., mask, :], atoms.box\n        )", "remove_pbc_from_coord(\n            new_atoms.coord, atoms.box\n        )[..., mask, :]", "R4.remove-pbc-molecule"),
    Mutant("repeat-amount-unchecked", BOX, "    if not isinstance(amount, Integral):\n        raise TypeError(\"The amount must be an integer\")\n", "", "R4.repeat-integral"),
    Mutant("repeat-lattice-axes-swapped", BOX, "box * np.array([i, j, k])[:, np.newaxis]", "box * np.array([i, k, j])[:, np.newaxis]", "R4.repeat-lattice"),
    Mutant("repeat-range-off-by-one", BOX, "            for k in range(-amount, amount + 1):", "            for k in range(-amount, amount):", "R4.repeat-range"),
    Mutant("unitcell-matrix-row-b", BOX, "[[a_x, 0, 0], [b_x, b_y, 0], [c_x, c_y, c_z]]", "[[a_x, 0, 0], [b_y, b_x, 0], [c_x, c_y, c_z]]", "R4.unitcell-matrix"),
    Mutant("unitcell-matrix-columns", BOX, "[[a_x, 0, 0], [b_x, b_y, 0], [c_x, c_y, c_z]]", "[[a_x, b_x, c_x], [0, b_y, c_y], [0, 0, c_z]]", "R4.unitcell-matrix"),
    Mutant("unitcell-return-order", BOX, "    return len_a, len_b, len_c, alpha, beta, gamma", "    return len_a, len_b, len_c, gamma, beta, alpha", "R4.unitcell-order"),
    Mutant("volume-signed", BOX, "return np.abs(linalg.det(box))", "return linalg.det(box)", "R4.volume"),
    Mutant("align-origin-copied-after-normalising", TRF, "    origin_direction = origin_direction.copy()\n    norm_vector(origin_direction)\n", "    norm_vector(origin_direction)\n    origin_direction = origin_direction.copy()\n", "R5.align-copy"),
    Mutant("align-origin-not-copied", TRF, "    origin_direction = origin_direction.copy()\n", "", "R5.align-copy"),
    Mutant("align-rodrigues-denominator", TRF, "(v_c @ v_c) / (1 + cos_a)", "(v_c @ v_c) / (1 - cos_a)", "R5.align-rodrigues"),
    Mutant("align-cos-self", TRF, "cos_a = vector_dot(origin_direction, target_direction)", "cos_a = vector_dot(origin_direction, origin_direction)", "R5.align-rodrigues"),
    Mutant("align-target-not-normalised", TRF, "    norm_vector(target_direction)\n", "", "R5.align-unit"),
    Mutant("rodrigues-diagonal-not-squared", TRF, "                cos_a + icos_a * y**2,", "                cos_a + icos_a * y,", "R5.axis-angle"),
    Mutant("rodrigues-rows-swapped", TRF, "            [\n                icos_a * x * y + z * sin_a,\n                cos_a + icos_a * y**2,\n                icos_a * y * z - x * sin_a,\n            ],\n            [\n                icos_a * x * z - y * sin_a,\n                icos_a * y * z + x * sin_a,\n                cos_a + icos_a * z**2,\n            ],\n", "            [\n                icos_a * x * z - y * sin_a,\n                icos_a * y * z + x * sin_a,\n                cos_a + icos_a * z**2,\n            ],\n            [\n                icos_a * x * y + z * sin_a,\n                cos_a + icos_a * y**2,\n                icos_a * y * z - x * sin_a,\n            ],\n", "R5.axis-det"),
    Mutant("rodrigues-wrong-component", TRF, "icos_a * x * z + y * sin_a", "icos_a * x * z + x * sin_a", "R5.axis-fixed"),
    Mutant("rodrigues-clockwise", TRF, "                icos_a * x * y - z * sin_a,\n                icos_a * x * z + y * sin_a,\n            ],\n            [\n                icos_a * x * y + z * sin_a,\n                cos_a + icos_a * y**2,\n                icos_a * y * z - x * sin_a,\n            ],\n            [\n                icos_a * x * z - y * sin_a,\n                icos_a * y * z + x * sin_a,\n", "                icos_a * x * y + z * sin_a,\n                icos_a * x * z - y * sin_a,\n            ],\n            [\n                icos_a * x * y - z * sin_a,\n                cos_a + icos_a * y**2,\n                icos_a * y * z + x * sin_a,\n            ],\n            [\n                icos_a * x * z + y * sin_a,\n                icos_a * y * z - x * sin_a,\n", "R5.axis-handedness"),
    Mutant("rodrigues-sin-cos-swapped", TRF, "    sin_a = np.sin(angle)\n    cos_a = np.cos(angle)\n", "    sin_a = np.cos(angle)\n    cos_a = np.sin(angle)\n", "R5.axis-symbols"),
    Mutant("rodrigues-z-component", TRF, "    z = axis[..., 2]", "    z = axis[..., 1]", "R5.axis-symbols"),
    Mutant("matrix-rotate-row-convention", UTL, "    v = np.dot(matrix, v.T).T", "    v = np.dot(v, matrix)", "R5.matrix-rotate"),
    Mutant("align-origin-shift-sign", TRF, "        positions -= origin_position", "        positions += origin_position", "R5.origin-pairing"),
    Mutant("align-target-shift-before-rotation", TRF, "    positions = matrix_rotate(positions, rot_matrix)\n\n    if target_position is not None:\n        # Transform coordinates to position of the target vector\n        positions += target_position\n", "    if target_position is not None:\n        # Transform coordinates to position of the target vector\n        positions += target_position\n\n    positions = matrix_rotate(positions, rot_matrix)\n", "R5.target-pairing"),
    Mutant("put-back-in-place", TRF, "        moved_atoms = input_atoms.copy()", "        moved_atoms = input_atoms", "R5.put-back"),
    Mutant("rot-y-wrong-angle", TRF, "            [cos(angles[1]), 0, sin(angles[1])],", "            [cos(angles[0]), 0, sin(angles[0])],", "R5.rotate-axis"),
    Mutant("rot-x-reflection", TRF, "            [1, 0, 0],", "            [-1, 0, 0],", "R5.rotate-det"),
    Mutant("translate-subtracts", TRF, "    positions += vector\n", "    positions -= vector\n", "R5.translate"),
]
