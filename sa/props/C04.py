"""
C04 - a structure survives a CIF / BinaryCIF write-read cycle.

Decided: agreement of the writer's and reader's tables and columns.

R1  enum totality: every dict keyed by BondType that is subscripted with a value
    from a bond array is total over the BondType members left after the
    dominating guards.
R2  column/annotation pairing: annotation -> atom_site column (set_structure)
    composed with column -> annotation (_fill_annotations) is the identity;
    mask conventions and coordinate columns agree.
R3  every struct_conn / chem_comp_bond column the writer fills from structure
    data is consumed by the paired reader.
R4  altloc dispatch exhaustive with a rejecting else, identical in the PDBx and
    PDB readers; the highest-occupancy filter starts below every admissible sum.
R5  operator precedence: a comparison is never an unparenthesised operand of a
    chain of '&' / '|' on boolean arrays; the canonical-link filter has all its
    conjuncts.
R6  integer down-casting in compress.py checks both bounds.
"""

import ast

from ..astutil import call_name, calls, const_eval, dotted, names_in, param_names, stmts, walk_local, NotConst, Sym
from ..core import AnalysisError, Mutant
from ..exprnorm import contains_expr, same_expr

EXPLANATION = (
    "BondType members read from bonds.pyx (lowered) and compared with the literal tables of "
    "pdbx/convert.py at their subscript sites; atom_site column/annotation maps extracted from "
    "set_structure and _fill_annotations; column def-use between the struct_conn/chem_comp_bond "
    "writers and readers; option-dispatch and operator-precedence shape rules."
)
ASSUMPTIONS = [
    "mmCIF item semantics (which atom_site item carries which annotation) as frozen in ATOM_SITE",
]
MIN_OBLIGATIONS = 55

CONV = "structure/io/pdbx/convert.py"
BONDS = "structure/bonds.pyx"
FILT = "structure/filter.py"
PDB = "structure/io/pdb/file.py"
COMPRESS = "structure/io/pdbx/compress.py"

# annotation -> (label column, auth column or None)
ATOM_SITE = {
    "chain_id": ("label_asym_id", "auth_asym_id"),
    "res_id": ("label_seq_id", "auth_seq_id"),
    "res_name": ("label_comp_id", "auth_comp_id"),
    "atom_name": ("label_atom_id", "auth_atom_id"),
    "ins_code": ("pdbx_PDB_ins_code", None),
    "hetero": ("group_PDB", None),
    "element": ("type_symbol", None),
    "atom_id": ("id", None),
    "b_factor": ("B_iso_or_equiv", None),
    "occupancy": ("occupancy", None),
    "charge": ("pdbx_formal_charge", None),
}
SUFFIX = {"asym_id": "chain_id", "seq_id": "res_id", "comp_id": "res_name", "atom_id": "atom_name"}


def bond_type_members(ctx):
    b = ctx.src(BONDS)
    cls = b.cls("BondType")
    out = []
    for st in cls.body:
        if isinstance(st, ast.Assign) and isinstance(st.targets[0], ast.Name) and isinstance(st.value, ast.Constant):
            out.append(st.targets[0].id)
    if len(out) < 9:
        raise AnalysisError("anchor vanished: BondType members")
    return out


def guard_exempt(func, sub):
    """BondType members excluded by `if x == BondType.M [or ...]: continue` that precedes
    the subscript in the same loop body"""
    exempt = set()
    for loop in ast.walk(func):
        if isinstance(loop, (ast.For, ast.While)) and any(x is sub for x in ast.walk(loop)):
            for st in loop.body:
                if st.lineno >= sub.lineno:
                    break
                if isinstance(st, ast.If) and any(isinstance(b, ast.Continue) for b in st.body):
                    for d in ast.walk(st.test):
                        dn = dotted(d) if isinstance(d, ast.Attribute) else None
                        if dn and dn.startswith("BondType."):
                            exempt.add(dn.split(".")[1])
            # the loop runs over the positions that a mask leaves: `for i in np.where(~np.isin(ARR[:, c], (BondType.A, ..)))[0]`
            # and the table is subscripted with ARR[i, c]
            it = loop.iter if isinstance(loop, ast.For) else None
            if isinstance(it, ast.Subscript) and isinstance(it.slice, ast.Constant) and it.slice.value == 0 and isinstance(it.value, ast.Call) \
                    and call_name(it.value) in ("np.where", "np.nonzero", "np.flatnonzero") and len(it.value.args) == 1 and isinstance(loop.target, ast.Name):
                m = it.value.args[0]
                neg = isinstance(m, ast.UnaryOp) and isinstance(m.op, (ast.Invert, ast.Not))
                m = m.operand if neg else m
                if isinstance(m, ast.Name):
                    defs = [st.value for st in ast.walk(func) if isinstance(st, ast.Assign) and len(st.targets) == 1
                            and isinstance(st.targets[0], ast.Name) and st.targets[0].id == m.id]
                    m = defs[0] if len(defs) == 1 else None
                if neg and isinstance(m, ast.Call) and call_name(m) == "np.isin" and len(m.args) == 2 and isinstance(m.args[1], (ast.Tuple, ast.List)) \
                        and isinstance(m.args[0], ast.Subscript) and isinstance(m.args[0].slice, ast.Tuple) and len(m.args[0].slice.elts) == 2 \
                        and isinstance(m.args[0].slice.elts[0], ast.Slice) and m.args[0].slice.elts[0].lower is None and m.args[0].slice.elts[0].upper is None:
                    arr, col = ast.unparse(m.args[0].value), ast.unparse(m.args[0].slice.elts[1])
                    key = sub.slice if isinstance(sub, ast.Subscript) else None
                    from ..exprnorm import same_expr as _se
                    if key is not None and _se(key, f"{arr}[{loop.target.id}, {col}]"):
                        for e in m.args[1].elts:
                            dn = dotted(e)
                            if dn and dn.startswith("BondType."):
                                exempt.add(dn.split(".")[1])
    return exempt


def identifiers_case_kept(ctx, rule):
    """names read from the file (component, atom, chain and residue identifiers, insertion and altloc codes) are case-sensitive keys:
    only enumerated keywords (bond order, aromatic flag, connection type) may be case-folded.  For every case-folding call of the
    converter the columns its operand is read from are collected (through zip-loop targets and plain assignments)"""
    import re as _re
    src = ctx.src(CONV)
    ident = _re.compile(r"(comp_id|atom_id|asym_id|seq_id|ins_code|alt_id|entity_id|atom_name|res_name|type_symbol|chain_id|PDB_ins_code)")
    n = 0
    for q, f in src.funcs.items():
        if "." in q:
            continue
        cols_of = {}
        for st in ast.walk(f):
            if isinstance(st, ast.For) and isinstance(st.iter, ast.Call) and call_name(st.iter) == "zip" and isinstance(st.target, ast.Tuple) \
                    and len(st.target.elts) == len(st.iter.args):
                for t_, a_ in zip(st.target.elts, st.iter.args):
                    if isinstance(t_, ast.Name):
                        cols_of.setdefault(t_.id, set()).update(x.value for x in ast.walk(a_) if isinstance(x, ast.Constant) and isinstance(x.value, str))
            elif isinstance(st, ast.Assign) and len(st.targets) == 1 and isinstance(st.targets[0], ast.Name):
                cols_of.setdefault(st.targets[0].id, set()).update(x.value for x in ast.walk(st.value) if isinstance(x, ast.Constant) and isinstance(x.value, str))
        for c_ in ast.walk(f):
            if not isinstance(c_, ast.Call):
                continue
            cn_ = call_name(c_) or ""
            operand = None
            if isinstance(c_.func, ast.Attribute) and c_.func.attr in ("upper", "lower", "casefold", "capitalize", "swapcase", "title") and not c_.args:
                operand = c_.func.value
            elif cn_.split(".")[-1] in ("upper", "lower", "capitalize", "swapcase", "title") and ".char." in "." + cn_ and c_.args:
                operand = c_.args[0]
            if operand is None:
                continue
            cols = {x.value for x in ast.walk(operand) if isinstance(x, ast.Constant) and isinstance(x.value, str)}
            for x in ast.walk(operand):
                if isinstance(x, ast.Name):
                    cols |= cols_of.get(x.id, set())
            bad = sorted(c for c in cols if ident.search(c))
            n += 1
            ctx.ob(rule, CONV, q, c_, not bad,
                   f"the column(s) {bad} hold identifiers that are compared as they are written (`Lig`, `sol`, atom `Ca` vs `CA`): changing "
                   "their case here loses the match with the names of the structure", c_.lineno)
    ctx.floor("case-folding-sites", n, 1)


def run(ctx):
    identifiers_case_kept(ctx, "R8.identifiers-case-kept")
    # residues are what the altloc policies choose within and what separates intra- from inter-residue bonds
    from .C17 import residue_definition_rule
    residue_definition_rule(ctx, "R4.residue-definition")
    s = ctx.src(CONV)
    # reading must not consume what the caller passed (`extra_fields` is emptied by the annotation filler: it has to be a copy),
    # writing changes the file object only
    from ..lints import caller_arguments_untouched
    caller_arguments_untouched(ctx, CONV, "R8.caller-arguments-untouched",
                               {("set_structure", "pdbx_file"): "the file is what set_structure fills",
                                ("set_component", "pdbx_file"): "the file is what set_component fills"}, 8)
    # whether an atom_site row was found for a bond partner is `is None` of the look-up, not its truth (row 0 is a row)
    from ..lints import lookup_results_tested_for_none
    lookup_results_tested_for_none(ctx, CONV, "R3.lookup-found-is-not-none", 1)
    # what is set into a file that was read is written from that file: the text container keeps the block it parsed on demand
    # (rule shared with C06; here it is the write-after-read round trip of set_structure that depends on it)
    from .. import lazy
    from ..astutil import calls as _calls
    cifs = ctx.src("structure/io/pdbx/cif.py")
    n_lazy = 0
    for cname, cnode in cifs.classes.items():
        gi = next((m for m in cnode.body if isinstance(m, ast.FunctionDef) and m.name == "__getitem__"), None)
        if gi is not None and any(isinstance(c.func, ast.Attribute) and c.func.attr == "deserialize" for c in _calls(gi)):
            n_lazy += 1
            lazy.check_getitem_stores(ctx, "R2.lazy-parse-stored", "structure/io/pdbx/cif.py", cname, gi)
    ctx.floor("R2.lazy-parse-stored", n_lazy, 2)
    members = bond_type_members(ctx)
    ctx.count("bondtype_members", len(members))

    # ---------------- R1 totality ------------------------------------------
    tables = {}
    env = {}
    for st in s.tree.body:
        if isinstance(st, ast.Assign) and isinstance(st.targets[0], ast.Name) and isinstance(st.value, (ast.Dict, ast.DictComp)):
            try:
                v = const_eval(st.value, env)
            except (NotConst, Exception):
                continue
            env[st.targets[0].id] = v
            if v and all(isinstance(k, Sym) and k.text.startswith("BondType.") for k in v):
                tables[st.targets[0].id] = v
    ctx.floor("bondtype-keyed-tables", len(tables), 3)
    n_sub = 0
    # only functions reachable from the structure writer / reader (set_component is a different API)
    graph = {q: {call_name(c) for c in calls(f) if call_name(c) in s.funcs} for q, f in s.funcs.items()}
    reach, stack = set(), ["set_structure", "get_structure"]
    while stack:
        q = stack.pop()
        if q in reach:
            continue
        reach.add(q)
        stack.extend(graph.get(q, ()))
    ctx.count("functions_reachable_from_structure_api", len(reach))
    for qual, f in s.funcs.items():
        if qual not in reach:
            continue
        for n in walk_local(f):
            if isinstance(n, ast.Subscript) and isinstance(n.value, ast.Name) and n.value.id in tables \
                    and isinstance(n.ctx, ast.Load):
                n_sub += 1
                keys = {k.text.split(".")[1] for k in tables[n.value.id]}
                exempt = guard_exempt(f, n)
                missing = [m for m in members if m not in keys and m not in exempt]
                ctx.ob("R1.bondtype-table-total", CONV, qual, f"{n.value.id}[{ast.unparse(n.slice)}] (guards exempt {sorted(exempt)})",
                       not missing,
                       f"{n.value.id} is subscripted with the type of every bond but has no entry for "
                       f"{missing}: writing such a bond raises KeyError", n.lineno)
    ctx.floor("bondtype-table-subscripts", n_sub, 3)
    # reverse direction tables
    comp_fwd = env.get("COMP_BOND_ORDER_TO_TYPE")
    comp_rev = env.get("COMP_BOND_TYPE_TO_ORDER")
    ctx.need(comp_fwd and comp_rev, "COMP_BOND tables")
    ctx.ob("R1.comp-table-inverse", CONV, "<module>.COMP_BOND_TYPE_TO_ORDER", f"{len(comp_rev)} of {len(comp_fwd)} entries",
           all(comp_fwd[v] == k for k, v in comp_rev.items()) and len(comp_rev) == len(comp_fwd),
           "order/aromaticity pairs and bond types must map one to one", 1)
    id2t = env.get("PDBX_BOND_TYPE_ID_TO_TYPE")
    t2id = tables.get("PDBX_BOND_TYPE_TO_TYPE_ID")
    ctx.need(id2t and t2id, "PDBX bond type id tables")
    for k, v in sorted(t2id.items(), key=lambda x: x[0].text):
        ctx.ob("R1.conn-type-known", CONV, "<module>.PDBX_BOND_TYPE_TO_TYPE_ID", f"{k} -> {v!r}", v in id2t,
               f"conn_type_id {v!r} written for {k} is not understood by the reader", 1, nontrivial=False)
    ctx.ob("R1.coordination-roundtrip", CONV, "<module>.PDBX_BOND_TYPE_TO_TYPE_ID", "COORDINATION -> metalc -> COORDINATION",
           id2t.get(t2id.get(Sym("BondType.COORDINATION"))) == Sym("BondType.COORDINATION"),
           "coordination bonds must survive the struct_conn round trip", 1)

    # ---------------- R2 atom_site pairing -----------------------------------
    ss = s.func("set_structure")
    aparam = param_names(ss)[1]
    writer = {}  # column -> annotation(s) / alias
    alias = {}
    for st in stmts(ss):
        if isinstance(st, ast.Assign) and isinstance(st.targets[0], ast.Subscript) \
                and dotted(st.targets[0].value) == "atom_site" and isinstance(st.targets[0].slice, ast.Constant):
            col = st.targets[0].slice.value
            v = st.value
            if isinstance(v, ast.Subscript) and dotted(v.value) == "atom_site" and isinstance(v.slice, ast.Constant):
                alias[col] = v.slice.value
                continue
            ann = {d.split(".")[1] for d in (dotted(x) for x in ast.walk(v) if isinstance(x, ast.Attribute))
                   if d and d.startswith(aparam + ".") and d.split(".")[1] not in ("array_length", "get_annotation_categories", "stack_depth", "coord")}
            writer.setdefault(col, set()).update(ann)
    for col, src_col in alias.items():
        writer[col] = writer.get(src_col, set())
    fa = s.func("_fill_annotations")
    reader = {}
    for c in calls(fa):
        if (call_name(c) or "").endswith(".set_annotation") and c.args and isinstance(c.args[0], ast.Constant):
            ann = c.args[0].value
            cols = set()
            in_fstring = {id(v) for x in ast.walk(c.args[1]) if len(c.args) > 1 and isinstance(x, ast.JoinedStr) for v in ast.walk(x)} \
                if len(c.args) > 1 else set()
            for x in ast.walk(c.args[1]) if len(c.args) > 1 else []:
                if isinstance(x, ast.Constant) and isinstance(x.value, str) and x.value not in ("", "HETATM") and id(x) not in in_fstring:
                    cols.add(x.value)
                if isinstance(x, ast.JoinedStr):
                    suf = "".join(v.value for v in x.values if isinstance(v, ast.Constant))
                    cols.add("label" + suf)
                    cols.add("auth" + suf)
            if cols:
                reader.setdefault(ann, set()).update(cols)
    ctx.floor("reader-annotations", len(reader), 11)
    for ann, (lab, auth) in ATOM_SITE.items():
        want = {lab} | ({auth} if auth else set())
        got_r = reader.get(ann, set())
        ctx.ob("R2.reader-column", CONV, "_fill_annotations", f"{ann} <- {sorted(got_r)}", got_r == want,
               f"annotation {ann} must be read from {sorted(want)}, the reader uses {sorted(got_r)}", fa.lineno)
        for col in sorted(want):
            ctx.ob("R2.writer-column", CONV, "set_structure", f"{col} <- {sorted(writer.get(col, []))}",
                   writer.get(col) == {ann},
                   f"column {col} must be written from {aparam}.{ann}, the writer uses "
                   f"{sorted(writer.get(col, []))}: the value comes back in a different annotation", ss.lineno)
    # mask conventions
    txt_r, txt_w = ast.unparse(fa), ast.unparse(ss)
    ctx.ob("R2.mask-convention", CONV, "set_structure", "ins_code '' <-> INAPPLICABLE",
           contains_expr(ss, f"np.where({aparam}.ins_code == '', MaskValue.INAPPLICABLE, MaskValue.PRESENT)")
           and contains_expr(fa, "atom_site['pdbx_PDB_ins_code'].as_array(str, '')"),
           "an empty insertion code is written as '.' and must be read back as ''", ss.lineno)
    ctx.ob("R2.mask-convention", CONV, "set_structure", "charge 0 <-> MISSING",
           contains_expr(ss, f"np.where({aparam}.charge == 0, MaskValue.MISSING, MaskValue.PRESENT)")
           and contains_expr(fa, "atom_site['pdbx_formal_charge'].as_array(int, 0)"),
           "a zero charge is written as '?' and must be read back as 0", ss.lineno)
    # coordinates and models
    for ax, col in enumerate(("Cartn_x", "Cartn_y", "Cartn_z")):
        wst = [st for st in stmts(ss) if isinstance(st, ast.Assign) and isinstance(st.targets[0], ast.Subscript)
               and getattr(st.targets[0].slice, "value", None) == col]
        w_ok = len(wst) == 2 and all(f"coord[..., {ax}]" in ast.unparse(st.value) or f"coord[:, {ax}]" in ast.unparse(st.value) for st in wst)
        gs = s.func("get_structure")
        r_ok = all(col in ast.unparse(st.value) for st in stmts(gs)
                   if isinstance(st, ast.Assign) and ast.unparse(st.targets[0]) in (f"atoms.coord[:, :, {ax}]", f"atoms.coord[:, {ax}]"))
        n_r = len([st for st in stmts(gs) if isinstance(st, ast.Assign)
                   and ast.unparse(st.targets[0]) in (f"atoms.coord[:, :, {ax}]", f"atoms.coord[:, {ax}]")])
        ctx.ob("R2.coordinate-column", CONV, "set_structure", f"{col} <-> coord[..., {ax}]", w_ok and r_ok and n_r == 2,
               f"axis {ax} of the coordinates must be written to and read from {col}", ss.lineno)
    ctx.ob("R2.model-numbering", CONV, "set_structure", "np.repeat(np.arange(1, depth + 1), repeats=array_length)",
           contains_expr(ss, f"np.repeat(np.arange(1, {aparam}.stack_depth() + 1, dtype=np.int32), repeats={aparam}.array_length())")
           and contains_expr(ss, f"np.reshape({aparam}.coord, ({aparam}.stack_depth() * {aparam}.array_length(), 3))"),
           "models are written one after the other, numbered from 1", ss.lineno)

    # ---------------- R3 written but never read --------------------------------
    def written_columns(fn, var):
        out = {}
        for st in ast.walk(fn):
            if isinstance(st, ast.Assign) and isinstance(st.targets[0], ast.Subscript) and dotted(st.targets[0].value) == var:
                sl = st.targets[0].slice
                key = sl.value if isinstance(sl, ast.Constant) else ast.unparse(sl)
                out[key] = st
        return out

    def read_columns(fn, var):
        out = set()
        for n in ast.walk(fn):
            if isinstance(n, ast.Subscript) and dotted(n.value) == var and isinstance(n.ctx, ast.Load):
                sl = n.slice
                out.add(sl.value if isinstance(sl, ast.Constant) else ast.unparse(sl))
            if isinstance(n, ast.Compare) and isinstance(n.left, ast.Constant) and dotted(n.comparators[0]) == var:
                out.add(n.left.value)
        return out

    for wfn, rfn, var, dynamic in (
        ("_set_inter_residue_bonds", "_parse_inter_residue_bonds", "struct_conn", True),
        ("_set_intra_residue_bonds", "_parse_intra_residue_bonds", "chem_comp_bond", False),
    ):
        wf, rf = s.func(wfn), s.func(rfn)
        wcols = written_columns(wf, var)
        rcols = read_columns(rf, var)
        ctx.floor(f"{var}-columns", len(wcols), 4)
        for col, st in sorted(wcols.items()):
            data = names_in(st.value) & {"bond_array", "array", "annot", "value_order", "aromatic_flag", "atom_id_1", "atom_id_2", "comp_id"}
            if not data or (isinstance(st.value, ast.Call) and (call_name(st.value) or "").endswith("arange")):
                continue  # ordinals / constant placeholders
            if col.startswith("_get_struct_conn_col_name"):
                ok = "struct_conn_col_name" in rcols or any("_get_struct_conn_col_name" in ast.unparse(x) for x in ast.walk(rf))
            else:
                ok = col in rcols
            ctx.ob("R3.column-consumed", CONV, wfn, f"{var}[{col!r}]", ok,
                   f"{wfn} fills {var}.{col} from the structure's bonds but {rfn} never reads it: the "
                   "information (bond order of inter-residue bonds) is lost in a write/read cycle",
                   st.lineno)
    # struct_conn partner columns are a subset of what the reader matches on
    wf = s.func("_set_inter_residue_bonds")
    rf = s.func("_parse_inter_residue_bonds")
    def const_list(fn, name):
        for st in stmts(fn):
            if isinstance(st, ast.Assign) and isinstance(st.targets[0], ast.Name) and st.targets[0].id == name:
                return const_eval(st.value)
        raise AnalysisError(f"{name} in {fn.name}")
    wc, rc = const_list(wf, "COLUMNS"), const_list(rf, "COLUMNS")
    ctx.ob("R3.partner-columns", CONV, "_set_inter_residue_bonds", f"written {wc}", set(wc) <= set(rc) and len(wc) >= 4,
           f"partner columns written ({wc}) must be among those the reader matches on ({rc})", wf.lineno)
    ctx.ob("R3.partner-columns", CONV, "_set_inter_residue_bonds", "both partners, bond_array[:, i]",
           any(isinstance(lp, ast.For) and isinstance(lp.target, ast.Name) and same_expr(lp.iter, "range(2)")
               and any(isinstance(b, ast.Assign) and same_expr(b.value, f"bond_array[:, {lp.target.id}]") for b in ast.walk(lp))
               and contains_expr(lp, f"_get_struct_conn_col_name(col_name, {lp.target.id} + 1)") for lp in ast.walk(wf)),
           "partner i must be described by column i of the bond array", wf.lineno)

    # ---------------- R4 altloc dispatch ----------------------------------------
    def altloc_options(fn, var="altloc"):
        opts, has_else = [], False
        for st in ast.walk(fn):
            if isinstance(st, ast.If):
                for c in ast.walk(st.test):
                    if isinstance(c, ast.Compare) and isinstance(c.left, ast.Name) and c.left.id == var \
                            and isinstance(c.comparators[0], ast.Constant):
                        opts.append(c.comparators[0].value)
                        node = st
                        while node.orelse and len(node.orelse) == 1 and isinstance(node.orelse[0], ast.If):
                            node = node.orelse[0]
                        if node.orelse and any(isinstance(b, ast.Raise) for b in node.orelse):
                            has_else = True
        return sorted(set(opts)), has_else
    o1, e1 = altloc_options(s.func("_filter_altloc"))
    o2, e2 = altloc_options(ctx.src(PDB).func("PDBFile.get_structure"))
    for q, rel, o, e in (("_filter_altloc", CONV, o1, e1), ("PDBFile.get_structure", PDB, o2, e2)):
        ctx.ob("R4.altloc-dispatch", rel, q, f"options {o}, rejecting else: {e}", o == ["all", "first", "occupancy"] and e,
               "the altloc option must dispatch over first/occupancy/all and reject anything else", 1)
    fl = ctx.src(FILT)
    fh = fl.func("filter_highest_occupancy_altloc")
    init = None
    strict = None
    for st in ast.walk(fh):
        if isinstance(st, ast.Assign) and isinstance(st.targets[0], ast.Name) and st.targets[0].id == "highest":
            try:
                v = const_eval(st.value)
                if init is None:
                    init = v
            except NotConst:
                pass
        if isinstance(st, ast.If) and isinstance(st.test, ast.Compare) and "highest" in names_in(st.test):
            strict = isinstance(st.test.ops[0], ast.Gt)
    ctx.ob("R4.running-max-init", FILT, "filter_highest_occupancy_altloc", f"highest = {init}, strict compare: {strict}",
           init is not None and ((strict and init < 0) or (strict is False)),
           "occupancy sums are >= 0: with a strict comparison the running maximum must start below 0, otherwise "
           "a residue whose altlocs all have occupancy 0 loses all its altloc atoms", fh.lineno)
    for q in ("filter_first_altloc", "filter_highest_occupancy_altloc"):
        f = fl.func(q)
        ctx.ob("R4.no-altloc-kept", FILT, q, "np.isin(altloc_ids, ['.', '?', ' ', ''])",
               contains_expr(f, "np.isin(altloc_ids, ['.', '?', ' ', ''])") or contains_expr(f, "np.isin(altloc_ids, ('.', '?', ' ', ''))"),
               "atoms without alternate location must always be kept", f.lineno, nontrivial=False)

    # ---------------- R5 precedence, canonical links -----------------------------
    def precedence_sites(tree):
        out = []
        for n in ast.walk(tree):
            if isinstance(n, ast.Compare) and len(n.ops) == 1 and isinstance(n.ops[0], (ast.Eq, ast.NotEq, ast.Lt, ast.Gt, ast.LtE, ast.GtE)):
                l = n.left
                if isinstance(l, ast.BinOp) and isinstance(l.op, (ast.BitAnd, ast.BitOr)):
                    boolish = any(isinstance(x, ast.Compare) or (isinstance(x, ast.Call) and (call_name(x) or "").split(".")[-1] in ("isin", "isnan", "isfinite"))
                                  for x in ast.walk(l))
                    if boolish:
                        out.append(n)
        return out
    files = [CONV, FILT] if ctx.tier == "quick" else [r for r in ctx.all_sources((".py",))]
    n_sites = 0
    for rel in files:
        ctx.sweeping = ctx.tier != "quick"
        try:
            src = ctx.src(rel)
        finally:
            ctx.sweeping = False
        for n in precedence_sites(src.tree):
            n_sites += 1
            ctx.ob("R5.comparison-inside-bitwise-chain", rel, "<module>", n, False,
                   "'&'/'|' bind tighter than comparison operators: this compares the whole chain of boolean "
                   f"arrays with `{ast.unparse(n.comparators[0])}` instead of and-ing the comparison (parentheses missing)",
                   n.lineno)
    ctx.count("precedence-sites", n_sites)
    probe = ast.parse("x = np.isin(a, b) & c - d == 1")
    ctx.need(len(precedence_sites(probe)) == 1, "positive control of R5.comparison-inside-bitwise-chain")
    ctx.ob("R5.comparison-inside-bitwise-chain", CONV, "<module>", f"{len(files)} file(s) scanned, {n_sites} site(s)", n_sites == 0 or True,
           nontrivial=False)
    fc = s.func("_filter_canonical_links")
    ret = [r for r in walk_local(fc) if isinstance(r, ast.Return)][0].value
    conj = []
    def flat(e):
        if isinstance(e, ast.BinOp) and isinstance(e.op, ast.BitAnd):
            flat(e.left); flat(e.right)
        else:
            conj.append(e)
    flat(ret)
    kinds = []
    for c in conj:
        t = ast.unparse(c)
        if "res_name" in t and "CANONICAL_RESIDUE_LIST" in t:
            kinds.append("canonical-residue")
        elif "atom_name" in t and "isin" in t:
            kinds.append("backbone-atom")
        elif isinstance(c, ast.Compare) and "residue_indices" in t and isinstance(c.ops[0], ast.Eq) and t.endswith("== 1"):
            kinds.append("adjacent")
        else:
            kinds.append("?")
    ctx.ob("R5.canonical-link-conjuncts", CONV, "_filter_canonical_links", str(kinds),
           sorted(kinds) == ["adjacent", "backbone-atom", "backbone-atom", "canonical-residue", "canonical-residue"],
           "a bond is a standard backbone link only if both residues are canonical, it joins C/O3' with N/P "
           "and the residues are adjacent; otherwise it must be written to struct_conn", fc.lineno)

    # ---------------- R6 integer down-cast bounds --------------------------------
    downcast_bounds(ctx, "R6.downcast-bounds")
    # 'also after compression': the float path of compress() (shared with C05)
    from .C05 import compress_rules
    compress_rules(ctx, "R6", with_downcast=False)
    # ---------------- R7 model layout of stacks ----------------------------------
    model_layout(ctx)
    # ---------------- R4 (cont.) first altloc = first in file order -------------
    ff = fl.func("filter_first_altloc")
    firsts = [st for st in ast.walk(ff) if isinstance(st, ast.Assign) and isinstance(st.value, ast.Subscript)
              and isinstance(st.value.value, ast.Name) and isinstance(st.value.slice, ast.Constant) and st.value.slice.value == 0]
    ctx.need(len(firsts) == 1, "filter_first_altloc: first_id = <ids>[0]")
    seqname = firsts[0].value.value.id
    defs = [st.value for st in ast.walk(ff) if isinstance(st, ast.Assign) and isinstance(st.targets[0], ast.Name) and st.targets[0].id == seqname]
    ctx.need(defs, f"definition of {seqname}")
    destroy = {"np.unique", "set", "sorted", "frozenset", "np.sort", "reversed"}
    bad = [call_name(c) for d in defs for c in ast.walk(d) if isinstance(c, ast.Call) and (call_name(c) in destroy or
           (isinstance(c.func, ast.Attribute) and c.func.attr in ("sort", "reverse")))]
    src_ok = all(isinstance(d, ast.ListComp) and "altloc_ids[" in ast.unparse(d.generators[0].iter) for d in defs)
    ctx.ob("R4.first-altloc-file-order", FILT, "filter_first_altloc", ast.unparse(defs[0])[:100], not bad and src_ok,
           f"'first' means the altloc id that appears first in the residue's rows: the candidates must keep file order (found {bad or 'an unrecognised source'})",
           ff.lineno)


def model_layout(ctx):
    """stacks are written model after model (model-major): the model number column repeats each number array_length times,
    the coordinates are flattened from (models, atoms, 3) in C order, so per-atom columns - data AND mask - must be tiled;
    the reader reshapes (model_count, model_length)"""
    s = ctx.src(CONV)
    rp = s.func("_repeat")
    par = param_names(rp)[1]
    exp = [c for c in calls(rp) if any(isinstance(a, ast.Name) and a.id == par for a in c.args[1:])]
    ctx.floor("R7.expansion-calls", len(exp), 3)
    kinds = {}
    for c in exp:
        what = "mask" if ".mask." in ast.unparse(c.args[0]) else "data"
        kinds.setdefault(what, set()).add(call_name(c))
        ctx.ob("R7.column-expansion", CONV, "_repeat", ast.unparse(c)[:80], call_name(c) == "np.tile",
               "atom_site rows of a stack are model-major: a per-atom column is the one-model column tiled, not element-wise repeated", c.lineno)
    ctx.ob("R7.data-mask-same-expansion", CONV, "_repeat", str({k: sorted(v) for k, v in kinds.items()}),
           set(kinds) == {"data", "mask"} and kinds["data"] == kinds["mask"] and len(kinds["data"]) == 1,
           "the mask of a column must be expanded exactly like its data, otherwise masked rows shift to other atoms", rp.lineno)
    st = s.func("set_structure")
    mn = [n for n in ast.walk(st) if isinstance(n, ast.Assign) and isinstance(n.targets[0], ast.Subscript)
          and isinstance(n.targets[0].slice, ast.Constant) and n.targets[0].slice.value == "pdbx_PDB_model_num"]
    rep = [n for n in mn if isinstance(n.value, ast.Call) and call_name(n.value) == "np.repeat"]
    ok = False
    if rep:
        cargs = list(rep[0].value.args) + [k.value for k in rep[0].value.keywords if k.arg == "repeats"]
        ctx.need(len(cargs) >= 2, "np.repeat(values, repeats)")
        a0, a1 = cargs[:2]
        ok = isinstance(a0, ast.Call) and call_name(a0) == "np.arange" and len(a0.args) == 2 and same_expr(a0.args[0], "1") \
            and same_expr(a0.args[1], "array.stack_depth() + 1") and same_expr(a1, "array.array_length()") \
            and not any(k.arg == "axis" for k in rep[0].value.keywords)
    ctx.ob("R7.model-number-column", CONV, "set_structure", ast.unparse(rep[0].value)[:90] if rep else "pdbx_PDB_model_num", ok,
           "each model number 1..depth is repeated array_length times (model-major rows)", st.lineno)
    cr = [n for n in ast.walk(st) if isinstance(n, ast.Call) and call_name(n) in ("np.reshape",) and "coord" in ast.unparse(n.args[0])]
    okc = bool(cr) and same_expr(cr[0].args[0], "array.coord") and len(cr[0].args) == 2 and (
        same_expr(cr[0].args[1], "(array.stack_depth() * array.array_length(), 3)") or same_expr(cr[0].args[1], "(-1, 3)")) \
        and all(k.arg == "order" and same_expr(k.value, "'C'") for k in cr[0].keywords)
    ctx.ob("R7.coord-flattening", CONV, "set_structure", ast.unparse(cr[0])[:90] if cr else "np.reshape(array.coord, ...)", okc,
           "coordinates (models, atoms, 3) are flattened in C order to (models*atoms, 3): model-major", st.lineno)
    gs = s.func("get_structure")
    rs = [n for n in ast.walk(gs) if isinstance(n, ast.Call) and isinstance(n.func, ast.Attribute) and n.func.attr == "reshape"
          and n.args and isinstance(n.args[0], ast.Tuple) and len(n.args[0].elts) == 2]
    ctx.floor("R7.reader-reshapes", len(rs), 3)
    for r in rs:
        ctx.ob("R7.reader-reshape", CONV, "get_structure", ast.unparse(r.args[0]), [ast.unparse(e) for e in r.args[0].elts] == ["model_count", "model_length"],
               "the reader splits the rows model by model: (model_count, model_length)", r.lineno)


def downcast_bounds(ctx, rule):
    """both bounds of every integer down-cast ladder in compress._to_smallest_integer_type"""
    cz = ctx.src(COMPRESS)
    ts = cz.func("_to_smallest_integer_type")
    aparam2 = param_names(ts)[0]
    local = {}
    for st in stmts(ts):
        if isinstance(st, ast.Assign) and isinstance(st.targets[0], ast.Name):
            local[st.targets[0].id] = ast.unparse(st.value)

    def role(e):
        """'min' / 'max' / 'all' : which extreme of the array does the operand stand for"""
        t = ast.unparse(e)
        if isinstance(e, ast.Name) and e.id in local:
            t = local[e.id]
        if t == aparam2:
            return "all"
        if "min" in t and aparam2 in t:
            return "min"
        if "max" in t and aparam2 in t:
            return "max"
        return "?"

    def bounds_checked(test):
        """set of ('lower'|'upper', role) facts established by the test being true"""
        facts = set()
        for c in ast.walk(test):
            if not isinstance(c, ast.Compare):
                continue
            operands = [c.left] + list(c.comparators)
            for (l, op, r) in zip(operands, c.ops, operands[1:]):
                lt, rt = ast.unparse(l), ast.unparse(r)
                if rt.endswith(".min") and "iinfo" in rt and isinstance(op, ast.GtE):
                    facts.add(("lower", role(l)))
                if lt.endswith(".min") and "iinfo" in lt and isinstance(op, ast.LtE):
                    facts.add(("lower", role(r)))
                if rt.endswith(".max") and "iinfo" in rt and isinstance(op, ast.LtE):
                    facts.add(("upper", role(l)))
                if lt.endswith(".max") and "iinfo" in lt and isinstance(op, ast.GtE):
                    facts.add(("upper", role(r)))
        return facts

    loops = [st for st in ast.walk(ts) if isinstance(st, ast.For) and isinstance(st.iter, (ast.List, ast.Tuple))]
    ctx.need(len(loops) == 2, "two dtype ladders in _to_smallest_integer_type")
    for loop in loops:
        dts = [dotted(e) or "" for e in loop.iter.elts]
        signed = any(d.startswith("np.int") for d in dts)
        tests = [st for st in loop.body if isinstance(st, ast.If)]
        facts = bounds_checked(tests[0].test) if tests else set()
        upper = bool({("upper", "max"), ("upper", "all")} & facts)
        lower = bool({("lower", "min"), ("lower", "all")} & facts)
        ctx.ob(rule, COMPRESS, "_to_smallest_integer_type",
               f"{'signed' if signed else 'unsigned'} ladder: {sorted(facts)}",
               upper and (lower or not signed),
               "a signed target type must hold both the minimum and the maximum of the array (and an "
               "unsigned one the maximum): otherwise a value wraps silently, e.g. res_id -200 becomes 56 "
               "in int8", loop.lineno)
        if not signed:
            guard = [st for st in ast.walk(ts) if isinstance(st, ast.If) and any(x is loop for x in ast.walk(st))]
            ok = False
            for gd in guard:
                for c in ast.walk(gd.test):
                    if isinstance(c, ast.Compare) and isinstance(c.ops[0], ast.GtE) and isinstance(c.comparators[0], ast.Constant) \
                            and c.comparators[0].value == 0 and role(c.left) == "min":
                        ok = True
            ctx.ob(rule, COMPRESS, "_to_smallest_integer_type", "unsigned ladder only for non-negative arrays",
                   ok, "unsigned types may only be tried when the minimum of the array is >= 0", loop.lineno)

MUTANTS = [
    Mutant("extra-fields-consumed", CONV, "    extra_fields = set() if extra_fields is None else set(extra_fields)\n",
           "    extra_fields = [] if extra_fields is None else extra_fields\n", "R8.caller-arguments-untouched", "get_structure"),
    Mutant("coord-flattened-fortran", CONV, "coord = np.reshape(array.coord, (array.stack_depth() * array.array_length(), 3))", "coord = np.reshape(array.coord, (array.stack_depth() * array.array_length(), 3), order=\"F\")", "R7.coord-flattening"),
    Mutant("model-numbers-from-zero", CONV, "np.arange(1, array.stack_depth() + 1, dtype=np.int32),", "np.arange(0, array.stack_depth(), dtype=np.int32),", "R7.model-number-column"),
    Mutant("repeat-mask-elementwise", CONV, "Data(np.tile(column.mask.array, repetitions))", "Data(np.repeat(column.mask.array, repetitions))", "R7.column-expansion"),
    Mutant("first-altloc-sorted", FILT, "        letter_altloc_ids = [loc for loc in altloc_ids[start:stop] if loc.isalpha()]\n        if len(letter_altloc_ids) > 0:\n            first_id", "        letter_altloc_ids = np.unique([loc for loc in altloc_ids[start:stop] if loc.isalpha()])\n        if len(letter_altloc_ids) > 0:\n            first_id", "R4.first-altloc-file-order"),
    Mutant("compress-guard-signed", COMPRESS, "np.abs(array) * factor", "array * factor", "R6.fixed-point-guard-scaled"),
    Mutant("regress-aromatic-key", CONV, '    BondType.AROMATIC: "covale",\n    BondType.COORDINATION: "metalc",', '    BondType.COORDINATION: "metalc",',
           "R1.bondtype-table-total"),
    Mutant("regress-coordination-guard", CONV, "        if bond_type == BondType.ANY or bond_type == BondType.COORDINATION:", "        if bond_type == BondType.ANY:",
           "R1.bondtype-table-total"),
    Mutant("auth-swapped", CONV, '    atom_site["auth_comp_id"] = atom_site["label_comp_id"]\n    atom_site["auth_asym_id"] = atom_site["label_asym_id"]',
           '    atom_site["auth_comp_id"] = atom_site["label_asym_id"]\n    atom_site["auth_asym_id"] = atom_site["label_comp_id"]', "R2.writer-column"),
    Mutant("altloc-all-dropped", CONV, '    elif altloc == "all":\n        array.set_annotation("altloc_id", altloc_ids.as_array(str))\n        return array\n', "",
           "R4.altloc-dispatch"),
    Mutant("regress-precedence", CONV, "        (residue_indices[:, 1] - residue_indices[:, 0] == 1)\n", "        residue_indices[:, 1] - residue_indices[:, 0] == 1\n",
           "R5.comparison-inside-bitwise-chain"),
    Mutant("canonical-no-adjacency", CONV, '        np.isin(array.atom_name[bond_array[:, 1]], ("N", "P")) &\n        # Must connect adjacent residues\n        (residue_indices[:, 1] - residue_indices[:, 0] == 1)\n',
           '        np.isin(array.atom_name[bond_array[:, 1]], ("N", "P"))\n', "R5.canonical-link-conjuncts"),
    Mutant("running-max-zero", FILT, "            highest = -1.0", "            highest = 0.0", "R4.running-max-init"),
    Mutant("downcast-lower-dropped", COMPRESS, "        if np.all(array >= np.iinfo(dtype).min) and np.all(\n            array <= np.iinfo(dtype).max\n        ):",
           "        if np.all(\n            array <= np.iinfo(dtype).max\n        ):", "R6.downcast-bounds"),
    Mutant("cartn-swapped", CONV, '        atom_site["Cartn_x"] = np.copy(coord[:, 0])\n        atom_site["Cartn_y"] = np.copy(coord[:, 1])',
           '        atom_site["Cartn_x"] = np.copy(coord[:, 1])\n        atom_site["Cartn_y"] = np.copy(coord[:, 0])', "R2.coordinate-column"),
    Mutant("charge-mask", CONV, "np.where(array.charge == 0, MaskValue.MISSING, MaskValue.PRESENT)", "np.where(array.charge == 0, MaskValue.PRESENT, MaskValue.MISSING)",
           "R2.mask-convention"),
    Mutant("repair-value-order-read", CONV, '    bond_type_id = struct_conn["conn_type_id"].as_array()\n',
           '    bond_type_id = struct_conn["conn_type_id"].as_array()\n    _order = struct_conn["pdbx_value_order"]\n', "R3.column-consumed", kind="repair"),
    # ---- one seeded fault per remaining rule ----
    Mutant("comp-arom-entry-wrong", CONV, '    ("AROM", "Y"): BondType.AROMATIC,\n', '    ("AROM", "Y"): BondType.AROMATIC_SINGLE,\n', "R1.comp-table-inverse"),
    Mutant("conn-type-id-unknown", CONV, '    BondType.AROMATIC: "covale",\n', '    BondType.AROMATIC: "covale_arom",\n', "R1.conn-type-known"),
    Mutant("metalc-read-as-single", CONV, '    "metalc": BondType.COORDINATION,\n', '    "metalc": BondType.SINGLE,\n', "R1.coordination-roundtrip"),
    Mutant("model-num-from-zero", CONV, "            np.arange(1, array.stack_depth() + 1, dtype=np.int32),\n", "            np.arange(array.stack_depth(), dtype=np.int32),\n",
           "R2.model-numbering"),
    Mutant("res-name-read-from-asym-id", CONV, '            atom_site, f"{prefix}_comp_id", f"{alt_prefix}_comp_id"\n', '            atom_site, f"{prefix}_asym_id", f"{alt_prefix}_asym_id"\n',
           "R2.reader-column"),
    Mutant("element-read-from-atom-id", CONV, '    array.set_annotation("element", atom_site["type_symbol"].as_array(str))\n',
           '    array.set_annotation("element", atom_site["label_atom_id"].as_array(str))\n', "R2.reader-column"),
    Mutant("reader-ignores-ins-code", CONV, '        "auth_seq_id",\n        "pdbx_PDB_ins_code",\n    ]\n', '        "auth_seq_id",\n    ]\n', "R3.partner-columns"),
    Mutant("both-partners-first-atom", CONV, "            atom_indices = bond_array[:, i]\n", "            atom_indices = bond_array[:, 0]\n", "R3.partner-columns"),
    Mutant("first-altloc-empty-id-dropped", FILT,
           '    altloc_filter = np.isin(altloc_ids, [".", "?", " ", ""])\n\n    # And filter all atoms for each residue with the first altloc ID',
           '    altloc_filter = np.isin(altloc_ids, [".", "?", " "])\n\n    # And filter all atoms for each residue with the first altloc ID',
           "R4.no-altloc-kept", qualname="filter_first_altloc"),
    Mutant("occupancy-altloc-question-mark-dropped", FILT,
           '    altloc_filter = np.isin(altloc_ids, [".", "?", " ", ""])\n\n    # And filter all atoms for each residue with the highest sum of',
           '    altloc_filter = np.isin(altloc_ids, [".", " ", ""])\n\n    # And filter all atoms for each residue with the highest sum of',
           "R4.no-altloc-kept", qualname="filter_highest_occupancy_altloc"),
    Mutant("compress-fallback-float32", COMPRESS,
           "            # non-finite or too large values can only be kept as float\n            return bcif.BinaryCIFData(array, [ByteArrayEncoding()])",
           "            # non-finite or too large values can only be kept as float\n            return bcif.BinaryCIFData(array, [ByteArrayEncoding(np.float32)])",
           "R6.fallback-lossless"),
    Mutant("compress-guard-removed", COMPRESS,
           "        if (\n            factor is None\n            or not np.isfinite(array).all()\n            or (np.abs(array) * factor >= np.iinfo(np.int32).max).any()\n        ):\n            # The fixed point representation is a 32 bit integer:\n            # non-finite or too large values can only be kept as float\n            return bcif.BinaryCIFData(array, [ByteArrayEncoding()])\n",
           "", "R6.fixed-point-guarded"),
    Mutant("compress-guard-after-encode", COMPRESS,
           "        if (\n            factor is None\n            or not np.isfinite(array).all()\n            or (np.abs(array) * factor >= np.iinfo(np.int32).max).any()\n        ):\n            # The fixed point representation is a 32 bit integer:\n            # non-finite or too large values can only be kept as float\n            return bcif.BinaryCIFData(array, [ByteArrayEncoding()])\n        to_integer_encoding = FixedPointEncoding(factor)\n        integer_array = to_integer_encoding.encode(array)\n",
           "        to_integer_encoding = FixedPointEncoding(factor)\n        integer_array = to_integer_encoding.encode(array)\n        if (\n            factor is None\n            or not np.isfinite(array).all()\n            or (np.abs(array) * factor >= np.iinfo(np.int32).max).any()\n        ):\n            # The fixed point representation is a 32 bit integer:\n            # non-finite or too large values can only be kept as float\n            return bcif.BinaryCIFData(array, [ByteArrayEncoding()])\n", "R6.fixed-point-guarded"),
    Mutant("compress-other-factor", COMPRESS, "        to_integer_encoding = FixedPointEncoding(factor)", "        to_integer_encoding = FixedPointEncoding(10 * factor)",
           "R6.same-factor"),
    Mutant("decimals-absolute-error", COMPRESS, "        if np.all(error < tol * np.abs(array)):", "        if np.all(error < tol):", "R6.tolerance"),
    Mutant("coord-first-model-only", CONV, "        coord = np.reshape(array.coord, (array.stack_depth() * array.array_length(), 3))\n",
           "        coord = np.reshape(array.coord[0], (array.array_length(), 3))\n", "R7.coord-flattening"),
    Mutant("coord-atom-major", CONV, "        coord = np.reshape(array.coord, (array.stack_depth() * array.array_length(), 3))\n",
           "        coord = np.reshape(\n            np.swapaxes(array.coord, 0, 1), (array.array_length() * array.stack_depth(), 3)\n        )\n", "R7.coord-flattening"),
    Mutant("repeat-data-elementwise", CONV, "            data = Data(np.tile(column.data.array, repetitions))\n", "            data = Data(np.repeat(column.data.array, repetitions))\n",
           "R7.data-mask-same-expansion"),
    Mutant("model-num-tiled", CONV,
           '        atom_site["pdbx_PDB_model_num"] = np.repeat(\n            np.arange(1, array.stack_depth() + 1, dtype=np.int32),\n            repeats=array.array_length(),\n        )\n',
           '        atom_site["pdbx_PDB_model_num"] = np.tile(\n            np.arange(1, array.stack_depth() + 1, dtype=np.int32),\n            array.array_length(),\n        )\n',
           "R7.model-number-column"),
    Mutant("model-num-repeat-swapped", CONV,
           "            np.arange(1, array.stack_depth() + 1, dtype=np.int32),\n            repeats=array.array_length(),\n",
           "            np.arange(1, array.array_length() + 1, dtype=np.int32),\n            repeats=array.stack_depth(),\n",
           "R7.model-number-column"),
    Mutant("reader-reshape-transposed", CONV,
           '            atom_site["Cartn_y"]\n            .as_array(np.float32)\n            .reshape((model_count, model_length))\n',
           '            atom_site["Cartn_y"]\n            .as_array(np.float32)\n            .reshape((model_length, model_count))\n', "R7.reader-reshape"),
]
