"""
C19 - trees (narrow).

R1  Newick structural-character agreement: every character the parser gives a
    meaning to (brackets, comma, colon, semicolon, whitespace that is deleted)
    is refused by the writer inside labels.
R2  construction checks of Tree: every leaf index in range and used once.
R3  copy contract; __eq__ and __hash__ use the same fields.
R4  UPGMA / NJ: the minimum is searched over the unclustered lower triangle,
    the distance matrix is updated symmetrically, exactly the merged node is
    retired, cluster sizes / heights follow the merge.
Distances, ultrametricity and additivity are NOT decided.
"""

import ast

from ..astutil import call_name, calls, dotted, names_in, param_names, stmts, walk_local
from ..core import AnalysisError, Mutant
from .. import facts
from ..exprnorm import contains_expr, same_expr, spec
from ..exprnorm import has_code

EXPLANATION = (
    "Structural characters of TreeNode.from_newick vs. the writer's illegal-label list; "
    "construction checks of Tree.__init__; field sets of __eq__/__hash__; update shape of the "
    "clustering loops in upgma.pyx / nj.pyx (all lowered Cython)."
)
ASSUMPTIONS = ["numbers written by str()/format are parsed back by float()"]
MIN_OBLIGATIONS = 22

TREE = "sequence/phylo/tree.pyx"
UPGMA = "sequence/phylo/upgma.pyx"
NJ = "sequence/phylo/nj.pyx"


def _distance_strings_ok(tn):
    """every string the writer builds with a distance ends in `:<distance>` (plain or rounded), directly after the label or the
    closing bracket of the children"""
    found = 0
    for x in ast.walk(tn):
        if not isinstance(x, ast.JoinedStr):
            continue
        pos = [k for k, v in enumerate(x.values) if isinstance(v, ast.FormattedValue) and same_expr(v.value, "self._distance")]
        if not pos:
            continue
        found += 1
        k = pos[0]
        if len(pos) != 1 or k != len(x.values) - 1 or k == 0 or not (isinstance(x.values[k - 1], ast.Constant) and str(x.values[k - 1].value).endswith(":")):
            return False
        before = x.values[k - 1].value
        if before == ":" and not (k >= 2 and isinstance(x.values[k - 2], ast.FormattedValue) and same_expr(x.values[k - 2].value, "label")):
            return False
        if before != ":" and not before.endswith("):"):
            return False
    return found >= 2


def run(ctx):
    # the queries of a tree (its graph, distances, the common ancestor, the Newick text, the leaf list) read the tree: the node lists and
    # child tuples are the same afterwards (`queue = self._leaves` popped empty would leave a tree without leaves)
    from ..lints import readers_leave_object
    readers_leave_object(ctx, TREE, "R5.queries-leave-the-tree", 4,
                         {"as_graph", "get_distance", "to_newick", "get_leaves", "get_leaf_count", "get_indices", "distance_to", "lowest_common_ancestor",
                          "as_binary", "copy", "__eq__", "__str__", "__len__", "is_leaf", "is_root"})
    s = ctx.src(TREE)
    # ---------------- R1 Newick -------------------------------------------------
    fn = s.func("TreeNode.from_newick")
    special = set()
    for n in walk_local(fn):
        if isinstance(n, ast.Compare) and isinstance(n.comparators[0], ast.Constant) and isinstance(n.comparators[0].value, str) \
                and len(n.comparators[0].value) == 1:
            special.add(n.comparators[0].value)
        if isinstance(n, ast.Call) and isinstance(n.func, ast.Attribute) and n.func.attr == "split" and n.args \
                and isinstance(n.args[0], ast.Constant):
            special.add(n.args[0].value)
    deletes_ws = any(isinstance(n, ast.Call) and isinstance(n.func, ast.Attribute) and n.func.attr == "join"
                     and n.args and isinstance(n.args[0], ast.Call) and isinstance(n.args[0].func, ast.Attribute)
                     and n.args[0].func.attr == "split" and not n.args[0].args for n in walk_local(fn))
    tf = s.func("Tree.from_newick")
    for n in walk_local(tf):
        if isinstance(n, ast.Compare) and isinstance(n.comparators[0], ast.Constant) and n.comparators[0].value == ";":
            special.add(";")
    ctx.floor("newick-structural-characters", len(special), 4)
    tn = s.func("TreeNode.to_newick")
    illegal = None
    for st in ast.walk(tn):
        if isinstance(st, ast.Assign) and isinstance(st.targets[0], ast.Name) and st.targets[0].id == "illegal_chars":
            illegal = [e.value for e in st.value.elts]
    ctx.need(illegal is not None, "illegal_chars of TreeNode.to_newick")
    raises = any(isinstance(st, ast.If) and has_code(st.test, "char in label") and any(isinstance(b, ast.Raise) for b in st.body)
                 for st in ast.walk(tn))
    for ch in sorted(special):
        ctx.ob("R1.structural-char-refused", TREE, "TreeNode.to_newick", f"{ch!r} in label -> ValueError", ch in illegal and raises,
               f"the parser gives {ch!r} a structural meaning but the writer accepts it inside a label", tn.lineno)
    ctx.ob("R1.whitespace-refused", TREE, "TreeNode.to_newick", "whitespace in label -> ValueError",
           (not deletes_ws) or any(c.isspace() for c in illegal),
           "from_newick deletes every whitespace character (''.join(newick.split())) but to_newick writes labels "
           "containing blanks unchanged: the label 'a b' is looked up as 'ab' when the string is parsed again", tn.lineno)
    # distances: written after ':' read with float()
    # the parser (from_newick itself or a private helper it calls) splits label and distance at ':' and converts with float()
    scope = [fn] + [s.funcs[call_name(c)] for c in calls(fn) if call_name(c) in s.funcs and (call_name(c) or "").startswith("_")]
    splits = [c for f_ in scope for c in ast.walk(f_) if isinstance(c, ast.Call) and isinstance(c.func, ast.Attribute) and c.func.attr == "split"
              and len(c.args) == 1 and isinstance(c.args[0], ast.Constant) and c.args[0].value == ":"]
    floats = [c for f_ in scope for c in ast.walk(f_) if isinstance(c, ast.Call) and call_name(c) == "float"]
    ctx.ob("R1.distance-syntax", TREE, "TreeNode.from_newick", "label, distance = s.split(':'); float(distance)",
           bool(splits) and bool(floats)
           and _distance_strings_ok(tn),
           "distance must follow the label after a colon in both directions", fn.lineno, nontrivial=False)
    ctx.ob("R1.terminator", TREE, "Tree.to_newick", "root string + ';' / strip trailing ';'",
           any(isinstance(x, ast.BinOp) and isinstance(x.op, ast.Add) and same_expr(x.right, "';'") for x in ast.walk(s.func("Tree.to_newick")))
           and contains_expr(tf, "newick[-1] == ';'"),
           "the terminating semicolon is added by the writer and removed by the parser", tf.lineno, nontrivial=False)
    # label lookup uses the same list in both directions
    ctx.ob("R1.label-index", TREE, "TreeNode.from_newick", "labels[self._index]  <->  labels.index(label)",
           contains_expr(tn, "labels[self._index]") and contains_expr(fn, "labels.index(label)")
           and any(isinstance(x, ast.IfExp) and same_expr(x.test, "labels is None") and same_expr(x.body, "int(label)") for x in ast.walk(fn))
           and any(isinstance(x, ast.Assign) and same_expr(x.targets[0], "label") and same_expr(x.value, "str(self._index)") for x in ast.walk(tn)),
           "leaf labels map to indices through the same list (or the index itself)", fn.lineno)

    # the parser ignores whitespace of every kind (line breaks and tabs of a wrapped file as well as blanks)
    import re as _re
    ws_all = deletes_ws or any(isinstance(n, ast.Call) and call_name(n) in ("re.sub", "re.compile") and n.args and isinstance(n.args[0], ast.Constant)
                               and isinstance(n.args[0].value, str) and "\\s" in n.args[0].value for n in walk_local(fn))
    ctx.ob("R1.whitespace-ignored", TREE, "TreeNode.from_newick", "''.join(newick.split())", ws_all,
           "every whitespace character must be dropped before parsing (str.split() without argument, or \\s): replacing only the blank "
           "leaves the line breaks and tabs of a wrapped Newick string inside labels and numbers", fn.lineno)
    # the label list reaches every recursive call
    from ..lints import parameter_threaded
    parameter_threaded(ctx, TREE, "R1.labels-forwarded", "labels", 2)
    # lowest common ancestor: one result, the last node the two root paths have in common (no other way out)
    lcaf = s.func("TreeNode.lowest_common_ancestor")
    rets = [r for r in walk_local(lcaf) if isinstance(r, ast.Return)]
    paths = {st.targets[0].id: st.value for st in stmts(lcaf) if isinstance(st, ast.Assign) and isinstance(st.targets[0], ast.Name)
             and isinstance(st.value, ast.Call) and call_name(st.value) == "_create_path_to_root"}
    walk = [lp for lp in walk_local(lcaf) if isinstance(lp, ast.For)]
    res_ok = False
    if len(rets) == 1 and isinstance(rets[0].value, ast.Name) and len(walk) == 1 and len(paths) == 2:
        rv = rets[0].value.id
        sets_ = [st for st in walk_local(lcaf) if isinstance(st, ast.Assign) and any(isinstance(t, ast.Name) and t.id == rv for t in st.targets)]
        in_loop = [st for st in sets_ if any(x is st for x in ast.walk(walk[0]))]
        outside = [st for st in sets_ if st not in in_loop]
        p1, p2 = sorted(paths)
        iv = walk[0].target.id if isinstance(walk[0].target, ast.Name) else "?"
        guarded = [st for st in ast.walk(walk[0]) if isinstance(st, ast.If) and (same_expr(st.test, f"{p1}[{iv}] is {p2}[{iv}]") or same_expr(st.test, f"{p2}[{iv}] is {p1}[{iv}]"))
                   and any(b in in_loop for b in st.body) and any(isinstance(b, ast.Break) for b in st.orelse)]
        res_ok = len(in_loop) == 1 and bool(guarded) and all(isinstance(st.value, ast.Constant) and st.value.value is None for st in outside) \
            and (same_expr(in_loop[0].value, f"{p1}[{iv}]") or same_expr(in_loop[0].value, f"{p2}[{iv}]")) \
            and sorted(ast.unparse(v.args[0]) for v in paths.values()) == sorted(["self", param_names(lcaf)[1]])
    ctx.ob("R3.lca-is-last-common-path-node", TREE, "TreeNode.lowest_common_ancestor", "walk both root paths from the root; keep the last identical node; stop at the first difference",
           res_ok, "the lowest common ancestor is the last node shared by the two paths to the root and nothing else (for node == self it is the node "
           "itself; a shortcut through the parent answers the parent)", lcaf.lineno)
    # binary conversion: a node with one child is dropped and ITS distance is added to the distance that the (converted) child reports
    from ..exprnorm import summarize_block as _sb, subst as _subst
    ab = s.func("_as_binary")
    one = [st for st in ast.walk(ab) if isinstance(st, ast.If) and same_expr(st.test, "len(children) == 1")]
    ctx.need(len(one) == 1, "single-child branch of _as_binary")
    benv = _sb([b for b in one[0].body if isinstance(b, ast.Assign)]).env
    r_else = [r for st in one[0].body if isinstance(st, ast.If) for r in st.orelse if isinstance(r, ast.Return)]
    r_root = [r for st in one[0].body if isinstance(st, ast.If) and same_expr(st.test, "node.is_root()") for r in st.body if isinstance(r, ast.Return)]
    ok_b = len(r_else) == 1 and isinstance(r_else[0].value, ast.Tuple) and len(r_else[0].value.elts) == 2 \
        and same_expr(_subst(r_else[0].value.elts[0], benv), "__item__(_as_binary(node.children[0]), 0)") \
        and same_expr(_subst(r_else[0].value.elts[1], benv), "node.distance + __item__(_as_binary(node.children[0]), 1)") \
        and len(r_root) == 1 and isinstance(r_root[0].value, ast.Tuple) and same_expr(_subst(r_root[0].value.elts[0], benv), "__item__(_as_binary(node.children[0]), 0)")
    ctx.ob("R3.binary-keeps-path-length", TREE, "_as_binary", "one child: (converted child, node.distance + distance reported for the child)", ok_b,
           "dropping a single-child node must add its branch length to the length the recursive conversion reports for the child "
           "(which already includes any dropped nodes further down), not to the child's own branch length", one[0].lineno)

    # three and more children: every child is converted itself (recursively) before it is hung under the new dividing nodes
    ab_ = s.func("_as_binary")
    rec_ = [c for c in ast.walk(ab_) if isinstance(c, ast.Call) and call_name(c) == "_as_binary"]
    many_ = [c for c in rec_ if same_expr(c.args[0] if c.args else None, "child")]
    copies_ = [c for c in ast.walk(ab_) if isinstance(c, ast.Call) and isinstance(c.func, ast.Attribute) and c.func.attr == "copy"]
    # ... and hung there with the distance the conversion REPORTS for it (a single-child node that was collapsed below it has added
    # its own branch length to that distance): both come out of the same call
    pair_ = [st for st in ast.walk(ab_) if isinstance(st, ast.Assign) and isinstance(st.targets[0], (ast.Tuple, ast.List)) and len(st.targets[0].elts) == 2
             and any(c is y for c in many_ for y in ast.walk(st.value))]
    own_dist_ = [x for x in ast.walk(ab_) if isinstance(x, ast.Attribute) and x.attr == "distance" and isinstance(x.value, ast.Name) and x.value.id == "child"]
    ctx.ob("R3.binary-converts-every-child", TREE, "_as_binary", "_as_binary(child) for every child of a node with three or more children",
           len(rec_) >= 3 and bool(many_) and not copies_ and bool(pair_) and not own_dist_,
           "a child that is merely copied keeps its own multifurcations: the result of as_binary() still has nodes with more than two "
           "children below the first level", ab_.lineno)
    # an inner node may carry a label in front of its distance (`(a:1,b:2)95:0.3`): the distance is what follows the colon
    fnw = s.func("TreeNode.from_newick")
    from ..exprnorm import has_code as _hc
    # (the branch is the block that reads `newick[subnewick_stop_i:]`; the parsing may stand there or in a private function of the
    # module that is handed that text)
    def _reads_tail(n_):
        return any(isinstance(y, ast.Subscript) and _hc(y, "newick[subnewick_stop_i:]") for y in ast.walk(n_))
    inner_blocks = [blk for x in ast.walk(fnw) if not isinstance(x, (ast.Try, ast.ExceptHandler))
                    for fld in ("body", "orelse") for blk in [getattr(x, fld, None)] if isinstance(blk, list)
                    and any(not isinstance(st, (ast.If, ast.For, ast.While, ast.With)) and _reads_tail(st) for st in blk)
                    and not any(isinstance(x, ast.Try) and any(y is blk for y in (x.body, x.orelse, x.finalbody)) for x in ast.walk(fnw))]
    ctx.need(len(inner_blocks) == 1, "the branch of from_newick that parses what follows an inner node")
    blk_ = inner_blocks[0]

    def _splits_at_colon(stmts_, text_names):
        """`a, b = <text>.split(':')` followed by `b = float(b)` somewhere in the statements, <text> one of the given names"""
        for n_ in ast.walk(ast.Module(body=list(stmts_), type_ignores=[])):
            if isinstance(n_, ast.Assign) and isinstance(n_.targets[0], ast.Tuple) and len(n_.targets[0].elts) == 2 and isinstance(n_.value, ast.Call) \
                    and isinstance(n_.value.func, ast.Attribute) and n_.value.func.attr == "split" \
                    and (isinstance(n_.value.func.value, ast.Name) and n_.value.func.value.id in text_names
                         or "<tail>" in text_names and _hc(n_.value.func.value, "newick[subnewick_stop_i:]") and isinstance(n_.value.func.value, ast.Subscript)) \
                    and len(n_.value.args) == 1 and isinstance(n_.value.args[0], ast.Constant) \
                    and n_.value.args[0].value == ":" and isinstance(n_.targets[0].elts[1], ast.Name):
                d_ = n_.targets[0].elts[1].id
                if _hc(ast.Module(body=list(stmts_), type_ignores=[]), f"{d_} = float({d_})"):
                    return True
        return False
    tail_names = {st.targets[0].id for st in blk_ if isinstance(st, ast.Assign) and isinstance(st.targets[0], ast.Name) and _reads_tail(st.value)}
    ok_inner = _splits_at_colon(blk_, tail_names | {"<tail>"})
    for c_ in [c for st in blk_ for c in ast.walk(st) if isinstance(c, ast.Call) and isinstance(c.func, ast.Name) and c.func.id.startswith("_")
               and c.func.id in s.funcs]:
        hf = s.funcs[c_.func.id]
        ps_ = [a.arg for a in hf.args.posonlyargs + hf.args.args]
        handed = {ps_[k] for k, a in enumerate(c_.args) if k < len(ps_) and (_reads_tail(a) or isinstance(a, ast.Name) and a.id in tail_names)}
        if handed and _splits_at_colon(hf.body, handed):
            ok_inner = True
    ctx.ob("R1.inner-node-distance", TREE, "TreeNode.from_newick", "label, distance = <text behind the inner node>.split(':'); distance = float(distance)",
           ok_inner,
           "the text behind the closing parenthesis of an inner node is `label:distance`: parsing only texts that START with ':' drops the "
           "branch length of every labelled inner node", fnw.lineno)

    # ---------------- R2 construction checks ---------------------------------------
    ti = s.func("Tree.__init__")
    rng = any(isinstance(st, ast.If) and any(isinstance(b, ast.Raise) for b in st.body)
              and has_code(st.test, "index >= leaf_count") and has_code(st.test, "index < 0") for st in ast.walk(ti))
    ctx.ob("R2.leaf-index-range", TREE, "Tree.__init__", "index >= leaf_count or index < 0 -> TreeError", rng,
           "leaf indices must be checked on both sides before they subscript the leaf list", ti.lineno)
    dup = any(isinstance(st, ast.If) and any(isinstance(b, ast.Raise) for b in st.body)
              and (has_code(st.test, "self._leaves[index] is not None") or "len(set(" in ast.unparse(st.test)
                   or "np.unique" in ast.unparse(st.test)) for st in ast.walk(ti))
    ctx.ob("R2.leaf-index-unique", TREE, "Tree.__init__", "duplicate leaf index -> TreeError", dup,
           "two leaves with the same index are accepted: one slot of Tree.leaves stays None "
           "(Tree.from_newick('(0:1,0:1);').leaves == [node, None]), so not every index is exactly one leaf", ti.lineno)
    ci = s.func("TreeNode.__cinit__")
    ct = ast.unparse(ci)
    ctx.ob("R2.node-checks", TREE, "TreeNode.__cinit__", "children/distances length, distinct children, single parent",
           has_code(ci, "len(children) != len(distances)") and has_code(ci, "children[i] is children[j]") and has_code(ci, "index < 0")
           and has_code(ci, "child._set_parent(self, distance)") and "Node already has a parent" in ast.unparse(s.func("TreeNode._set_parent")),
           "a node must have one distance per child, distinct children and at most one parent", ci.lineno)

    # ---------------- R3 copy, eq/hash ------------------------------------------------
    cc = s.func("Tree.__copy_create__")
    ctx.ob("R3.copy-fresh", TREE, "Tree.__copy_create__", ast.unparse(cc.body[-1]),
           contains_expr(cc, "Tree(self._root.copy())"), "a tree copy must be built from a copy of the root", cc.lineno)
    nc = s.func("TreeNode.copy")
    ctx.ob("R3.copy-fresh", TREE, "TreeNode.copy", "recursive child.copy() with the children's distances",
           any(isinstance(x, ast.ListComp) and len(x.generators) == 1 and isinstance(x.generators[0].target, ast.Name)
               and same_expr(x.generators[0].iter, "self._children") and same_expr(x.elt, f"{x.generators[0].target.id}.copy()") for x in ast.walk(nc))
           and any(isinstance(x, ast.ListComp) and len(x.generators) == 1 and isinstance(x.generators[0].target, ast.Name)
                   and same_expr(x.generators[0].iter, "self._children") and same_expr(x.elt, f"{x.generators[0].target.id}.distance") for x in ast.walk(nc))
           and contains_expr(nc, "TreeNode(index=self._index)"), "a node copy must copy all descendants and keep the distances", nc.lineno)
    eq, hs = s.func("TreeNode.__eq__"), s.func("TreeNode.__hash__")
    def fields(f):
        return {n.attr for n in ast.walk(f) if isinstance(n, ast.Attribute) and isinstance(n.value, ast.Name)
                and n.value.id in ("self", "node") and n.attr.startswith("_")}
    ctx.ob("R3.eq-hash-same-fields", TREE, "TreeNode.__hash__", f"eq {sorted(fields(eq))} / hash {sorted(fields(hs))}",
           fields(eq) == fields(hs) == {"_distance", "_index", "_children"},
           "objects that compare equal must hash equal: both must use index, children (as a set) and distance", hs.lineno)
    ctx.ob("R3.eq-hash-same-fields", TREE, "TreeNode.__eq__", "children compared as frozenset in both",
           contains_expr(eq, "frozenset(self._children)") and contains_expr(hs, "frozenset(self._children)"),
           "child order must not matter for equality and hash alike", eq.lineno)
    # distance / LCA
    dt = s.func("TreeNode.distance_to")
    # two climbs, one from each of the two nodes, each adding the branch length of every node below the LCA
    starts_ = []
    climbs_ok = True

    def scan_climbs(block):
        nonlocal climbs_ok
        for k, st in enumerate(block):
            if isinstance(st, ast.While):
                prev = block[k - 1] if k else None
                if not (isinstance(prev, ast.Assign) and same_expr(prev.targets[0], "current_node")):
                    climbs_ok = False
                    continue
                starts_.append(ast.unparse(prev.value))
                adds = [a for a in ast.walk(st) if isinstance(a, ast.AugAssign) and isinstance(a.op, ast.Add) and same_expr(a.target, "distance")]
                climbs_ok = climbs_ok and same_expr(st.test, "current_node is not lca") and not st.orelse \
                    and not any(isinstance(x, (ast.Break, ast.Continue, ast.Return)) for x in ast.walk(st)) \
                    and any(same_expr(a.value, "current_node._distance") for a in adds) \
                    and isinstance(st.body[-1], ast.Assign) and same_expr(st.body[-1].targets[0], "current_node") \
                    and same_expr(st.body[-1].value, "current_node._parent")
            for fld in ("body", "orelse"):
                if isinstance(getattr(st, fld, None), list) and not isinstance(st, ast.While):
                    scan_climbs(getattr(st, fld))

    scan_climbs(dt.body)
    ctx.ob("R3.distance-is-path-sum", TREE, "TreeNode.distance_to", "sum of _distance from both nodes up to the LCA",
           climbs_ok and sorted(starts_) == sorted(["self", param_names(dt)[1]])
           and same_expr(next((st.value for st in dt.body if isinstance(st, ast.Assign) and same_expr(st.targets[0], "lca")), None), f"self.lowest_common_ancestor({param_names(dt)[1]})"),
           "the distance is the sum of branch lengths on both paths to the lowest common ancestor", dt.lineno)

    # ---------------- R4 clustering ------------------------------------------------------
    # the caller's distance matrix is read, never written: the working copy is a copy whatever the dtype of the input
    from ..lints import caller_arguments_untouched
    for rel_ in (UPGMA, NJ):
        caller_arguments_untouched(ctx, rel_, "R4.input-matrix-untouched", {}, 1)
    for rel, q, mat in ((UPGMA, "upgma", "distances_v"), (NJ, "neighbor_joining", "distances_v")):
        f = ctx.src(rel).func(q)
        t = ast.unparse(f)
        sym = [st for st in ast.walk(f) if isinstance(st, ast.For) and isinstance(st.target, ast.Name) and st.target.id == "k"
               and any(isinstance(b, ast.If) for b in st.body)]
        ok = False
        for loop in sym:
            for b in ast.walk(loop):
                if isinstance(b, ast.If):
                    tg = [ast.unparse(x.targets[0]) for x in b.body if isinstance(x, ast.Assign)]
                    vals = [ast.unparse(x.value) for x in b.body if isinstance(x, ast.Assign)]
                    if f"{mat}[i_min, k]" in tg and f"{mat}[k, i_min]" in tg:
                        a_, b__ = tg.index(f"{mat}[i_min, k]"), tg.index(f"{mat}[k, i_min]")
                        ok = vals[a_] == vals[b__] and has_code(b.test, "not is_clustered_v[k] and k != i_min")
        ctx.ob("R4.symmetric-update", rel, q, f"{mat}[i_min, k] and {mat}[k, i_min] receive the same value", ok,
               "the merged cluster's distances must be written to both triangles for every other unclustered node", f.lineno)
        # the binary join: nodes[A] = TreeNode((nodes[A], nodes[B]), ...) retires exactly B in the same block
        ok_ret = False
        for parent in ast.walk(f):
            for fld in ("body", "orelse"):
                block = getattr(parent, fld, None)
                if not isinstance(block, list):
                    continue
                for st in block:
                    if isinstance(st, ast.Assign) and isinstance(st.value, ast.Call) and call_name(st.value) == "TreeNode" and st.value.args \
                            and isinstance(st.value.args[0], ast.Tuple) and len(st.value.args[0].elts) == 2 and isinstance(st.targets[0], ast.Subscript):
                        a_, b_ = (ast.unparse(x) for x in st.value.args[0].elts)
                        tgt = ast.unparse(st.targets[0])
                        txts = [ast.unparse(x) for x in block]
                        bi = b_[len("nodes["):-1] if b_.startswith("nodes[") else "?"
                        ai = a_[len("nodes["):-1] if a_.startswith("nodes[") else "?"
                        ok_ret = tgt == a_ and f"{b_} = None" in txts and f"is_clustered_v[{bi}] = True" in txts \
                            and f"{a_} = None" not in txts and f"is_clustered_v[{ai}] = True" not in txts
        ctx.ob("R4.retire-merged", rel, q, "nodes[j_min] = None; is_clustered_v[j_min] = True", ok_ret,
               "exactly the absorbed node is retired and the merged node takes the place of the other", f.lineno)
        # the search: the loop nest that updates the minimum runs over the lower triangle and skips clustered rows and columns
        upd = [st for st in ast.walk(f) if isinstance(st, ast.If) and isinstance(st.test, ast.Compare) and same_expr(st.test.comparators[0], "dist_min")
               and any(isinstance(b, ast.Assign) and same_expr(b.targets[0], "i_min") for b in st.body)]
        ok_ms = False
        if len(upd) == 1:
            known = facts.facts_at(f, upd[0])
            inner = [lp for lp in ast.walk(f) if isinstance(lp, ast.For) and any(x is upd[0] for x in ast.walk(lp))]
            inner_ok = any(same_expr(lp.iter, "range(i)") and same_expr(lp.target, "j") for lp in inner) \
                and any(same_expr(lp.target, "i") and isinstance(lp.iter, ast.Call) and call_name(lp.iter) == "range" and len(lp.iter.args) == 1 for lp in inner)
            # the search visits every pair: nothing leaves the two search loops early
            nest = [lp for lp in inner if same_expr(lp.target, "i") or same_expr(lp.target, "j")]
            exhaustive = not any(isinstance(x, (ast.Break, ast.Return, ast.Raise)) for lp in nest for x in ast.walk(lp))
            ok_ms = exhaustive and isinstance(upd[0].test.ops[0], ast.Lt) and spec("not is_clustered_v[i]") in known and spec("not is_clustered_v[j]") in known and inner_ok \
                and any(isinstance(b, ast.Assign) and same_expr(b.targets[0], "j_min") and same_expr(b.value, "j") for b in upd[0].body) \
                and any(isinstance(b, ast.Assign) and same_expr(b.targets[0], "i_min") and same_expr(b.value, "i") for b in upd[0].body)
        # the running minimum starts at the largest representable distance (every real distance is smaller: the input check refuses >= MAX_FLOAT)
        low_ = ctx.src(rel).low
        init_min = [st for st in ast.walk(f) if isinstance(st, ast.Assign) and same_expr(st.targets[0], "dist_min") and not any(x is st for u in upd for x in ast.walk(u))]
        mf = ctx.src(rel).module_assign("MAX_FLOAT")
        ctx.ob("R4.min-search-start", rel, q, "dist_min = MAX_FLOAT before the search", len(init_min) == 1 and same_expr(init_min[0].value, "MAX_FLOAT")
               and mf is not None and same_expr(mf, "np.finfo(np.float32).max"),
               "the minimum search must start above every admissible distance: with a smaller start value (0) no pair is found when all "
               "remaining distances are >= it and the clustering stops early", f.lineno)
        ctx.ob("R4.min-search", rel, q, "for i: for j in range(i): skip clustered; dist < dist_min", ok_ms and "if i_min == -1 or j_min == -1:" in t,
               "the closest pair is searched over the unclustered lower triangle", f.lineno)
        # every sweep over the nodes (row sums, corrected distances, search, update) visits all of them: the only way out of a
        # `for` is its end - `break` belongs to the main `while` loop alone
        early = [x for lp in ast.walk(f) if isinstance(lp, ast.For) for x in ast.walk(lp) if isinstance(x, (ast.Break, ast.Return))]
        ctx.ob("R4.full-sweeps", rel, q, "no for-loop over the nodes is left early", not early,
               "a sweep over the nodes that stops at the first clustered node leaves stale distances / misses the closest pair"
               + (f" (line {early[0].lineno})" if early else ""), f.lineno)
        ctx.ob("R4.input-checks", rel, q, "symmetric, no NaN, finite, non-negative",
               all(contains_expr(f, x) for x in ("np.allclose(distances.T, distances)", "np.isnan(distances).any()", "(distances < 0).any()",
                                                 "(distances >= MAX_FLOAT).any()")), "the distance matrix must be validated", f.lineno, nontrivial=False)
    # cluster sizes count leaves: up to the number of input sequences, which needs at least 32 bits
    ulow = ctx.src(UPGMA).low
    ct = ulow.ctype("upgma", "cluster_size_v").replace("const ", "")
    alloc = [st for st in ast.walk(ctx.src(UPGMA).func("upgma")) if isinstance(st, ast.Assign) and same_expr(st.targets[0], "cluster_size_v")]
    dt = next((dotted(k.value) for st in alloc for k in getattr(st.value, "keywords", []) if k.arg == "dtype"), None)
    ctx.ob("R4.cluster-size-width", UPGMA, "upgma", f"cluster_size_v: {ct}, allocated as {dt}",
           ct.split("[")[0] in ("uint32", "int32", "uint64", "int64", "Py_ssize_t", "int", "long") and (dt or "").split(".")[-1] in ("uint32", "int32", "uint64", "int64", "int", "intp"),
           "a cluster can hold every leaf: its size must not wrap (an 8-bit counter is 0 again at 256 leaves and the average linkage is wrong)",
           alloc[0].lineno if alloc else 1)
    u = ast.unparse(ctx.src(UPGMA).func("upgma"))
    ctx.ob("R4.upgma-average", UPGMA, "upgma", "size-weighted mean, sizes added after the update",
           "(distances_v[i_min, k] * cluster_size_v[i_min] + distances_v[j_min, k] * cluster_size_v[j_min]) / (cluster_size_v[i_min] + cluster_size_v[j_min])" in u
           and u.index("mean = ") < u.index("cluster_size_v[i_min] += cluster_size_v[j_min]"),
           "average linkage weights both clusters by their sizes, which are summed only afterwards", 1)
    ctx.ob("R4.upgma-heights", UPGMA, "upgma", "height = dist_min / 2; branch = height - node_heights[...]",
           "height = dist_min / 2" in u and "(height - node_heights[i_min], height - node_heights[j_min])" in u
           and "node_heights[i_min] = height" in u, "merge height is half the cluster distance; branch lengths are height differences", 1)
    njf = ctx.src(NJ).func("neighbor_joining")
    n_ = ast.unparse(njf)
    joins = [c for c in ast.walk(njf) if isinstance(c, ast.Call) and call_name(c) == "TreeNode" and len(c.args) == 2 and isinstance(c.args[0], ast.Tuple)]
    three = [c for c in joins if len(c.args[0].elts) == 3]
    two = [c for c in joins if len(c.args[0].elts) == 2]
    ok3 = len(three) == 1 and same_expr(three[0], "TreeNode((nodes[i_min], nodes[j_min], nodes[k]), (node_dist_i, node_dist_j, node_dist_k))") \
        and spec("n_rem_nodes <= 3") in facts.facts_at(njf, three[0])
    ok2 = len(two) == 1 and spec("n_rem_nodes > 3") in facts.facts_at(njf, two[0])
    ctx.ob("R4.nj-three-way-join", NJ, "neighbor_joining", "last three nodes joined at the root",
           ok3 and ok2, "binary joins while more than three nodes remain; the final join must contain all three remaining nodes", 1)


MUTANTS = [
    Mutant("upgma-cluster-size-uint8", UPGMA, "    cdef uint32[:] cluster_size_v = np.ones(\n        distances.shape[0], dtype=np.uint32\n", "    cdef uint8[:] cluster_size_v = np.ones(\n        distances.shape[0], dtype=np.uint8\n",
           "R4.cluster-size-width"),
    Mutant("nj-min-start-zero", NJ, "        dist_min = MAX_FLOAT\n", "        dist_min = 0\n", "R4.min-search-start", qualname="neighbor_joining"),
    Mutant("newick-only-blanks-removed", TREE, '        newick = "".join(newick.split())\n', '        newick = newick.replace(" ", "")\n', "R1.whitespace-ignored"),
    Mutant("binary-child-own-distance", TREE, "        child, distance = _as_binary(node.children[0])\n        if node.is_root():\n            # Child is new root -> No distance to parent\n            return child, None\n        else:\n            return child, node.distance + distance\n",
           "        child, _ = _as_binary(node.children[0])\n        if node.is_root():\n            # Child is new root -> No distance to parent\n            return child, None\n        else:\n            return child, node.distance + node.children[0].distance\n",
           "R3.binary-keeps-path-length"),
    Mutant("lca-sibling-shortcut", TREE, "        cdef list self_path = _create_path_to_root(self)\n",
           "        if node is not None and self._parent is not None and self._parent is node._parent:\n            return self._parent\n        cdef list self_path = _create_path_to_root(self)\n",
           "R3.lca-is-last-common-path-node"),
    Mutant("newick-recursion-drops-labels", TREE, "                child, dist = TreeNode.from_newick(\n                    subnewick, labels=labels\n                )\n", "                child, dist = TreeNode.from_newick(subnewick)\n",
           "R1.labels-forwarded"),
    Mutant("distance-starts-at-parent", TREE, "        current_node = self\n        while current_node is not lca:", "        current_node = self._parent\n        while current_node is not lca:", "R3.distance-is-path-sum"),
    Mutant("nj-search-includes-clustered-column", NJ, "                if is_clustered_v[j]:\n                    continue\n                dist = corr_distances_v[i,j]", "                dist = corr_distances_v[i,j]", "R4.min-search", qualname="neighbor_joining"),
    Mutant("colon-allowed", TREE, "illegal_chars = [\",\",\":\",\";\",\"(\",\")\"]", "illegal_chars = [\",\",\";\",\"(\",\")\"]", "R1.structural-char-refused"),
    Mutant("upgma-one-triangle", UPGMA, "                distances_v[k,i_min] = mean\n", "", "R4.symmetric-update"),
    Mutant("nj-one-triangle", NJ, "                distances_v[k,i_min] = dist\n", "", "R4.symmetric-update"),
    Mutant("hash-without-distance", TREE, "        return hash((self._index, children_set, self._distance))", "        return hash((self._index, children_set))", "R3.eq-hash-same-fields"),
    Mutant("repair-whitespace", TREE, "illegal_chars = [\",\",\":\",\";\",\"(\",\")\"]", "illegal_chars = [\",\",\":\",\";\",\"(\",\")\",\" \",\"\\t\",\"\\n\"]",
           "R1.whitespace-refused", kind="repair"),
    Mutant("leaf-range-upper", TREE, "            if index >= leaf_count or index < 0:", "            if index < 0:", "R2.leaf-index-range"),
    # ---- one seeded fault per rule that had none --------------------------------------
    Mutant("leaf-distance-before-label", TREE, "                    return f\"{label}:{self._distance}\"\n", "                    return f\"{self._distance}:{label}\"\n", "R1.distance-syntax"),
    Mutant("default-labels-one-based", TREE, "                label = str(self._index)\n", "                label = str(self._index + 1)\n", "R1.label-index"),
    Mutant("parsed-index-shifted", TREE, "            index = int(label) if labels is None else labels.index(label)\n",
           "            index = int(label) - 1 if labels is None else labels.index(label)\n", "R1.label-index"),
    Mutant("writer-no-semicolon", TREE, "            labels, include_distance, round_distance\n        ) + \";\"\n", "            labels, include_distance, round_distance\n        )\n",
           "R1.terminator"),
    Mutant("parser-keeps-semicolon", TREE, "        if newick[-1] == \";\":\n            newick = newick[:-1]\n", "", "R1.terminator"),
    # the tree has this defect (known finding), so a break cannot add a finding: the seeded edit is the repair
    Mutant("repair-duplicate-leaf-index", TREE, "            self._leaves[index] = leaves_unsorted[i]\n",
           "            if self._leaves[index] is not None:\n                raise TreeError(\"The tree's indices are not unique\")\n            self._leaves[index] = leaves_unsorted[i]\n",
           "R2.leaf-index-unique", kind="repair"),
    Mutant("children-distances-length-unchecked", TREE, "            if len(children) != len(distances):\n                raise ValueError(\n                    \"The number of children must equal the number of distances\"\n                )\n",
           "", "R2.node-checks"),
    Mutant("second-parent-accepted", TREE, "        if self._parent is not None or self._is_root:\n            raise TreeError(\"Node already has a parent\")\n", "", "R2.node-checks"),
    Mutant("tree-copy-shares-root", TREE, "        return Tree(self._root.copy())\n", "        return Tree(self._root)\n", "R3.copy-fresh", qualname="Tree.__copy_create__"),
    Mutant("node-copy-shallow", TREE, "            children_clones = [child.copy() for child in self._children]\n", "            children_clones = [child for child in self._children]\n",
           "R3.copy-fresh", qualname="TreeNode.copy"),
    Mutant("distance-stops-below-lca", TREE, "        current_node = node\n        while current_node is not lca:\n", "        current_node = node\n        while current_node._parent is not lca:\n",
           "R3.distance-is-path-sum"),
    Mutant("distance-one-path-only", TREE, "        current_node = node\n        while current_node is not lca:\n            if topological:\n                distance += 1\n            else:\n                distance += current_node._distance\n            current_node = current_node._parent\n",
           "", "R3.distance-is-path-sum"),
    Mutant("upgma-negative-accepted", UPGMA, "    if (distances < 0).any():\n        raise ValueError(\"Distances must be positive\")\n", "", "R4.input-checks", qualname="upgma"),
    Mutant("nj-nan-accepted", NJ, "    if np.isnan(distances).any():\n        raise ValueError(\"Distance matrix contains NaN values\")\n", "", "R4.input-checks", qualname="neighbor_joining"),
    Mutant("upgma-search-includes-clustered", UPGMA, "                if is_clustered_v[j]:\n                    continue\n", "", "R4.min-search", qualname="upgma"),
    Mutant("upgma-search-includes-diagonal", UPGMA, "            for j in range(i):\n", "            for j in range(i+1):\n", "R4.min-search", qualname="upgma"),
    Mutant("nj-search-maximum", NJ, "                if dist < dist_min:\n", "                if dist > dist_min:\n", "R4.min-search", qualname="neighbor_joining"),
    Mutant("nj-root-drops-third-node", NJ, "                (nodes[i_min], nodes[j_min], nodes[k]),\n                (node_dist_i, node_dist_j, node_dist_k)\n",
           "                (nodes[i_min], nodes[j_min]),\n                (node_dist_i, node_dist_j)\n", "R4.nj-three-way-join"),
    Mutant("nj-binary-join-at-three", NJ, "        if n_rem_nodes > 3:\n", "        if n_rem_nodes > 2:\n", "R4.nj-three-way-join"),
    Mutant("upgma-retires-merged-node", UPGMA, "        nodes[j_min] = None\n        is_clustered_v[j_min] = True\n", "        nodes[j_min] = None\n        is_clustered_v[i_min] = True\n",
           "R4.retire-merged", qualname="upgma"),
    Mutant("nj-clears-merged-slot", NJ, "            nodes[j_min] = None\n", "            nodes[i_min] = None\n", "R4.retire-merged", qualname="neighbor_joining"),
    Mutant("upgma-wrong-weight", UPGMA, "                        + distances_v[j_min,k] * cluster_size_v[j_min]\n", "                        + distances_v[j_min,k] * cluster_size_v[i_min]\n",
           "R4.upgma-average"),
    Mutant("upgma-unweighted-mean", UPGMA, "                          distances_v[i_min,k] * cluster_size_v[i_min]\n                        + distances_v[j_min,k] * cluster_size_v[j_min]\n                    ) / (cluster_size_v[i_min] + cluster_size_v[j_min])\n",
           "                          distances_v[i_min,k]\n                        + distances_v[j_min,k]\n                    ) / 2\n", "R4.upgma-average"),
    Mutant("upgma-height-not-halved", UPGMA, "        height = dist_min/2\n", "        height = dist_min\n", "R4.upgma-heights"),
    Mutant("upgma-height-not-stored", UPGMA, "        node_heights[i_min] = height\n", "", "R4.upgma-heights"),
]
