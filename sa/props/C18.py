"""
C18 - small molecules through MOL/SDF files and the RDKit bridge.

R1  layout: V2000 counts, atom, bond and 'M  CHG' lines against the reader's
    slices; version tag position.
R2  guards: 3-digit count/index fields bounded by _is_v2000_compatible, called
    with the very expressions that are formatted; coordinate fields bounded by
    the digit guard (float32: no rounding carry exists - decided
    arithmetically); element width guarded; NaN refused.
R3  tables: BOND_TYPE_MAPPING[REV[t]] == t, CHARGE_MAPPING likewise;
    RDKit tables: every type the reverse table knows is producible, round trip
    per flag value.
R4  to_mol / from_mol set and get the same residue-info fields; model i is
    conformer i.
R5  SD record grammar: line-start triggers of the readers vs. what
    Metadata.__setitem__ refuses; lazy SDFile container.
"""

import ast

from .. import lazy
from ..astutil import call_name, calls, const_eval, dotted, names_in, param_names, stmts, walk_local, NotConst
from ..exprnorm import contains_expr, same_expr
from ..core import AnalysisError, Mutant
from ..layout import float_field_width, parse_spec
from ..exprnorm import has_code

EXPLANATION = (
    "Width calculus of the V2000 f-strings vs. the reader's slices, guard/argument agreement, "
    "evaluation of the literal mapping tables (ctab.py and the RDKit bridge), setter/getter pairing "
    "of residue info, reader triggers vs. writer refusals of the SD record grammar."
)
ASSUMPTIONS = [
    "coordinates are float32 (checked in C07); blank lines and surrounding blanks inside SD "
    "metadata values are format limits (not representable), not defects",
]
MIN_OBLIGATIONS = 45

CTAB = "structure/io/mol/ctab.py"
SDF = "structure/io/mol/sdf.py"
HEAD = "structure/io/mol/header.py"
RDK = "interface/rdkit/mol.py"
MOL = "structure/io/mol/mol.py"

# residue-info: constructor keyword / setter  ->  getter
RESINFO = {
    "atomName": "GetName", "residueName": "GetResidueName", "chainId": "GetChainId",
    "residueNumber": "GetResidueNumber", "isHeteroAtom": "GetIsHeteroAtom",
    "insertionCode": "GetInsertionCode", "SetOccupancy": "GetOccupancy",
    "SetTempFactor": "GetTempFactor", "SetAltLoc": "GetAltLoc",
}
RESINFO_ANNOT = {
    "atomName": "atom_name", "residueName": "res_name", "chainId": "chain_id",
    "residueNumber": "res_id", "isHeteroAtom": "hetero", "insertionCode": "ins_code",
    "SetOccupancy": "occupancy", "SetTempFactor": "b_factor", "SetAltLoc": "label_alt_id",
}


def fstring_fields(js):
    """[(offset, width, value_text or literal)] of a JoinedStr (fixed widths only)"""
    out = []
    off = 0
    for p in js.values:
        if isinstance(p, ast.Constant):
            out.append((off, len(p.value), ("lit", p.value)))
            off += len(p.value)
        else:
            spec = "".join(x.value for x in p.format_spec.values) if p.format_spec else ""
            sp = parse_spec(spec)
            out.append((off, sp["width"], ("val", ast.unparse(p.value), sp)))
            off += sp["width"]
    return out, off


def concat_fstring(e):
    """flatten  f"..." + f"..." * n  into a list of (JoinedStr, repeat)"""
    if isinstance(e, ast.BinOp) and isinstance(e.op, ast.Add):
        return concat_fstring(e.left) + concat_fstring(e.right)
    if isinstance(e, ast.BinOp) and isinstance(e.op, ast.Mult):
        l, r = e.left, e.right
        if isinstance(r, ast.Constant):
            return [(x, n * r.value) for x, n in concat_fstring(l)]
    if isinstance(e, ast.JoinedStr):
        return [(e, 1)]
    if isinstance(e, ast.Constant) and isinstance(e.value, str):
        return [(ast.JoinedStr(values=[e]), 1)]
    raise AnalysisError("unrecognised record expression " + ast.unparse(e)[:60])


def reader_slices(func, var="line"):
    """{(a,b): text of the statement}"""
    out = {}
    # slices that only occur inside messages (warnings, exceptions, f-strings) are not reads of the record
    in_message = set()
    for n in walk_local(func):
        if isinstance(n, ast.JoinedStr) or isinstance(n, ast.Raise) or (isinstance(n, ast.Call) and (call_name(n) or "").endswith(("warn", "Warning", "Error"))):
            for x in ast.walk(n):
                in_message.add(id(x))
    for n in walk_local(func):
        if isinstance(n, ast.Subscript) and isinstance(n.slice, ast.Slice) and id(n) not in in_message \
                and isinstance(n.slice.lower, ast.Constant) and isinstance(n.slice.upper, ast.Constant):
            out[(n.slice.lower.value, n.slice.upper.value)] = n
    return out


MCONV = "structure/io/mol/convert.py"


def run(ctx):
    # the record a structure is read from / written to is chosen by name; only None means "the first record" - a blank title
    # line is a legal record name
    from ..lints import optional_numbers_tested_for_none
    optional_numbers_tested_for_none(ctx, MCONV, "R5.record-name-none-only", 1)
    # a refused structure must not leave a half-written file object behind (the connection table is built before anything is replaced)
    from ..lints import raising_functions, validation_before_mutation
    _raising = raising_functions(ctx, [CTAB, MOL, SDF, HEAD])
    for rel_ in (MOL, SDF):
        validation_before_mutation(ctx, rel_, "R2.refusal-leaves-file-intact", _raising)
    # converting to RDKit must leave the caller's structure as it was (kekulization works on a copy of the bond list)
    from ..lints import caller_arguments_untouched
    caller_arguments_untouched(ctx, RDK, "R3.caller-arguments-untouched", {}, 2)
    s = ctx.src(CTAB)
    wr = s.func("_write_structure_to_ctab_v2000")
    rd = s.func("_read_structure_from_ctab_v2000")
    defs = {}
    for st in stmts(wr):
        if isinstance(st, ast.Assign) and isinstance(st.targets[0], ast.Name):
            defs[st.targets[0].id] = st.value

    # ---------------- R1 counts line ---------------------------------------
    ctx.need("counts_line" in defs, "counts_line in V2000 writer")
    parts = concat_fstring(defs["counts_line"]) if not isinstance(defs["counts_line"], ast.JoinedStr) else [(defs["counts_line"], 1)]
    fields, total = fstring_fields(parts[0][0])
    gc = s.func("_get_counts_v2000")
    rs = sorted(reader_slices(gc))
    vals = [(o, o + w) for o, w, k in fields if k[0] == "val"]
    ctx.ob("R1.counts-columns", CTAB, "_write_structure_to_ctab_v2000", f"counts at {vals} read at {rs}",
           vals[:2] == rs[:2] == [(0, 3), (3, 6)], "atom/bond counts are written and read in different columns",
           defs["counts_line"].lineno)
    gv = s.func("_get_version")
    vs = sorted(reader_slices(gv))
    ctx.need(len(vs) == 1, "version slice")
    lit = "".join(k[1] for o, w, k in fields if k[0] == "lit")
    lit_off = [o for o, w, k in fields if k[0] == "lit"][0]
    pos = lit_off + lit.index("V2000") if "V2000" in lit else -1
    ctx.ob("R1.version-tag", CTAB, "_write_structure_to_ctab_v2000", f"'V2000' at {pos}..{pos + 5}, read {vs[0]}",
           pos >= vs[0][0] and pos + 5 <= vs[0][1], "the version tag is written outside the columns it is read from",
           defs["counts_line"].lineno)
    compat = const_eval(s.module_assign("V2000_COMPATIBILITY_LINE"))
    p3 = compat.index("V3000")
    ctx.ob("R1.version-tag", CTAB, "<module>.V2000_COMPATIBILITY_LINE", f"'V3000' at {p3}..{p3 + 5}, read {vs[0]}",
           p3 >= vs[0][0] and p3 + 5 <= vs[0][1], "the V3000 tag of the compatibility line is misplaced", 1)

    # ---------------- R1 atom line -------------------------------------------
    ctx.need("atom_lines" in defs and isinstance(defs["atom_lines"], ast.ListComp), "atom_lines comprehension")
    segs = concat_fstring(defs["atom_lines"].elt)
    off = 0
    atom_fields = []
    for js, rep in segs:
        for _ in range(rep):
            f_, w_ = fstring_fields(js)
            for o, w, k in f_:
                atom_fields.append((off + o, w, k))
            off += w_
    want = {(0, 10): "coord[i, 0]", (10, 20): "coord[i, 1]", (20, 30): "coord[i, 2]", (31, 34): "element", (36, 39): "charge"}
    rsl = reader_slices(rd)
    for (a, b), what in want.items():
        if not ctx.ob("R1.atom-columns-read", CTAB, "_read_structure_from_ctab_v2000", f"line[{a}:{b}]", (a, b) in rsl,
                      f"the V2000 writer puts {what} into the fixed columns {a}..{b} (adjacent fields may touch without a blank): "
                      f"the reader must take exactly that slice, it reads {sorted(rsl)}", rd.lineno):
            continue
        hit = [k for o, w, k in atom_fields if (o, o + w) == (a, b) and k[0] == "val"]
        ctx.ob("R1.atom-columns", CTAB, "_write_structure_to_ctab_v2000", f"[{a}:{b}] <- {hit[0][1] if hit else None}",
               bool(hit) and what in hit[0][1].replace("CHARGE_MAPPING_REV.get(charge", "charge"),
               f"the reader takes {what} from columns {a}..{b}, the writer puts "
               f"{hit[0][1] if hit else 'nothing'} there", defs["atom_lines"].lineno)
    # reader assigns the slices to the matching fields
    pair = {"coord[i, 0]": (0, 10), "coord[i, 1]": (10, 20), "coord[i, 2]": (20, 30), "element[i]": (31, 34)}
    for st in stmts(rd):
        if isinstance(st, ast.Assign) and isinstance(st.targets[0], ast.Subscript):
            t = ast.unparse(st.targets[0])
            for key, sl in pair.items():
                if t.endswith(key):
                    used = sorted(reader_slices(st))
                    ctx.ob("R1.reader-slice", CTAB, "_read_structure_from_ctab_v2000", st, used == [sl],
                           f"{key} is read from {used}, its columns are {sl}", st.lineno)
    # ---------------- R1 bond line -------------------------------------------
    segs = concat_fstring(defs["bond_lines"].elt)
    bf, _ = fstring_fields(segs[0][0])
    bvals = [(o, o + w, k[1]) for o, w, k in bf if k[0] == "val"]
    ctx.ob("R1.bond-columns", CTAB, "_write_structure_to_ctab_v2000", str(bvals),
           [(a, b) for a, b, _ in bvals] == [(0, 3), (3, 6), (6, 9)] and bvals[0][2] == "i + 1" and bvals[1][2] == "j + 1"
           and all(x in rsl for x in ((0, 3), (3, 6), (6, 9))),
           "bond line columns differ between writer and reader", defs["bond_lines"].lineno)
    # 1-based indices both ways
    t = ast.unparse(rd)
    ctx.ob("R1.index-base", CTAB, "_read_structure_from_ctab_v2000", "int(line[0:3]) - 1 / int(line[3:6]) - 1",
           all(contains_expr(rd, x) for x in ("int(line[0:3]) - 1", "int(line[3:6]) - 1", "int(atom_i_str) - 1")),
           "file indices are 1-based: the reader must subtract what the writer adds", rd.lineno)
    # M  CHG
    chg = [n for n in walk_local(wr) if isinstance(n, ast.JoinedStr) and n.values and isinstance(n.values[0], ast.Constant)
           and str(n.values[0].value).startswith("M  CHG")]
    ctx.need(chg, "M  CHG f-string")
    cf, cw = fstring_fields(chg[0])
    skip = [n for n in walk_local(rd) if isinstance(n, ast.Subscript) and isinstance(n.slice, ast.Slice)
            and isinstance(n.slice.lower, ast.Constant) and n.slice.upper is None]
    ctx.ob("R1.chg-header", CTAB, "_write_structure_to_ctab_v2000", f"header width {cw}, reader skips {[x.slice.lower.value for x in skip]}",
           any(x.slice.lower.value == cw for x in skip), "the 'M  CHG' header is skipped with a different width than written",
           chg[0].lineno)
    n_per = const_eval(s.module_assign("N_CHARGES_PER_LINE"))
    ctx.ob("R1.chg-per-line", CTAB, "<module>.N_CHARGES_PER_LINE", str(n_per), n_per == 8,
           "at most 8 charges fit one 'M  CHG' line", 1, nontrivial=False)

    # ---------------- R2 guards ------------------------------------------------
    comp = s.func("_is_v2000_compatible")
    limits = {}
    for n in walk_local(comp):
        if isinstance(n, ast.Compare) and isinstance(n.left, ast.Name) and isinstance(n.ops[0], (ast.Lt, ast.LtE)):
            c = const_eval(n.comparators[0])
            limits[n.left.id] = c if isinstance(n.ops[0], ast.Lt) else c + 1
    cparams = param_names(comp)
    for pname, (o, w, k) in zip(cparams, [f for f in fields if f[2][0] == "val"][:2]):
        ctx.ob("R2.count-bound", CTAB, "_is_v2000_compatible", f"{pname} < {limits.get(pname)} for a {w}-digit field",
               limits.get(pname) == 10 ** w,
               f"the {w}-digit count field holds values below {10 ** w}; the compatibility test admits "
               f"{pname} < {limits.get(pname)}", comp.lineno)
    count_exprs = [k[1] for o, w, k in fields if k[0] == "val"][:2]
    wf = s.func("write_structure_to_ctab")
    ccalls = [c for c in calls(wf) if call_name(c) == "_is_v2000_compatible"]
    ctx.floor("compatibility-calls", len(ccalls), 2)
    for c in ccalls:
        ctx.ob("R2.guard-arguments", CTAB, "write_structure_to_ctab", c,
               [ast.unparse(a) for a in c.args] == count_exprs,
               f"_is_v2000_compatible is asked about {[ast.unparse(a) for a in c.args]} but the counts line "
               f"formats {count_exprs}: a molecule whose real count does not fit is written with shifted columns",
               c.lineno)
    # the V2000 branch is only taken when compatible: every call of the V2000 writer sits in the true arm of
    # `if _is_v2000_compatible(..)` or follows `if not _is_v2000_compatible(..): raise` in its block
    def is_compat(e):
        return isinstance(e, ast.Call) and call_name(e) == "_is_v2000_compatible"

    def guarded(block, inherited):
        res = []
        g = inherited
        for st_ in block:
            if isinstance(st_, ast.If):
                t = st_.test
                if is_compat(t):
                    res += guarded(st_.body, True) + guarded(st_.orelse, g)
                    continue
                if isinstance(t, ast.UnaryOp) and isinstance(t.op, ast.Not) and is_compat(t.operand):
                    res += guarded(st_.body, g)
                    if st_.body and isinstance(st_.body[-1], ast.Raise) and not st_.orelse:
                        g = True          # the rest of the block is only reached when compatible
                    else:
                        res += guarded(st_.orelse, True)
                    continue
                res += guarded(st_.body, g) + guarded(st_.orelse, g)
                continue
            if isinstance(st_, ast.Match):
                for cs in st_.cases:
                    res += guarded(cs.body, g)
                continue
            for sub in ("body", "orelse", "finalbody"):
                if isinstance(getattr(st_, sub, None), list):
                    res += guarded(getattr(st_, sub), g)
            for c in ast.walk(st_) if not isinstance(st_, (ast.For, ast.While, ast.With, ast.Try)) else []:
                if isinstance(c, ast.Call) and call_name(c) == "_write_structure_to_ctab_v2000":
                    res.append((c, g))
        return res

    v2calls = guarded(wf.body, False)
    ctx.floor("R2.v2000-calls", len(v2calls), 2)
    for c, g in v2calls:
        ctx.ob("R2.v2000-behind-guard", CTAB, "write_structure_to_ctab", f"{ast.unparse(c)[:60]} @{c.lineno - wf.lineno}", g,
               "the V2000 writer is reachable without a passed _is_v2000_compatible test (a refusing guard must raise)", c.lineno)
    # coordinates
    # the refusing guard over the coordinates: either a bound on the number of integer digits (sign counted:
    # number_of_integer_digits) or a bound on the magnitude (np.abs(..) >= B)
    from ..layout import magnitude_field_width
    K = None
    B = None
    measure = "number_of_integer_digits"
    # ... and the helper itself measures the smallest and the largest value (shared with the PDB writer's rule)
    from .C07 import digits_helper_rule
    digits_helper_rule(ctx, "R2.digits-helper")
    for st in stmts(wr):
        if not (isinstance(st, ast.If) and st.body and isinstance(st.body[-1], ast.Raise)):
            continue
        if "n_coord_digits" in ast.unparse(st.test) and isinstance(st.test, ast.Compare):
            K = const_eval(st.test.comparators[0]) - (0 if isinstance(st.test.ops[0], ast.Gt) else 1)
        else:
            for c in ast.walk(st.test):
                if isinstance(c, ast.Compare) and len(c.ops) == 1 and isinstance(c.ops[0], (ast.Gt, ast.GtE)) \
                        and isinstance(c.left, ast.Call) and call_name(c.left) in ("np.abs", "np.absolute", "abs") \
                        and "coord" in ast.unparse(c.left):
                    try:
                        B = float(const_eval(c.comparators[0]))
                        measure = call_name(c.left)
                    except Exception:
                        pass
    ctx.need(K is not None or B is not None, "coordinate guard of the V2000 writer (digits or magnitude)")
    cspec = [k[2] for o, w, k in atom_fields if k[0] == "val" and "coord" in k[1]][0]
    if K is not None:
        mw, wit = float_field_width(K, cspec["prec"], "float32", False)
        what = f"guard digits <= {K}"
    else:
        mw, wit = magnitude_field_width(B, cspec["prec"], "float32")
        what = f"guard |v| < {B:g}"
    ctx.ob("R2.coordinate-width", CTAB, "_write_structure_to_ctab_v2000",
           f"{what}, format {cspec['width']}.{cspec['prec']}f, float32 -> max width {mw}",
           mw <= cspec["width"], f"coordinates passing the guard can need {mw} characters: {wit}", wr.lineno)
    # the loop whose body measures the coordinates: it enumerates three axes and measures column <index> of the coordinates
    axes_ok = False
    for st in stmts(wr):
        if isinstance(st, ast.For) and any(isinstance(c, ast.Call) and call_name(c) == measure for c in ast.walk(st)):
            it = st.iter
            if isinstance(it, ast.Call) and call_name(it) == "enumerate" and it.args and isinstance(it.args[0], (ast.List, ast.Tuple)) \
                    and len(it.args[0].elts) == 3 and isinstance(st.target, ast.Tuple) and isinstance(st.target.elts[0], ast.Name):
                idx = st.target.elts[0].id
                axes_ok = any(isinstance(c, ast.Call) and call_name(c) == measure and len(c.args) == 1
                              and same_expr(c.args[0], f"atoms.coord[:, {idx}]") for c in ast.walk(st))
            elif isinstance(it, ast.Call) and call_name(it) == "range" and len(it.args) == 1 and isinstance(it.args[0], ast.Constant) \
                    and it.args[0].value == 3 and isinstance(st.target, ast.Name):
                axes_ok = any(isinstance(c, ast.Call) and call_name(c) == measure and len(c.args) == 1
                              and same_expr(c.args[0], f"atoms.coord[:, {st.target.id}]") for c in ast.walk(st))
    ctx.ob("R2.coordinate-axes", CTAB, "_write_structure_to_ctab_v2000", "x, y, z all guarded", axes_ok,
           "the digit guard must cover all three axes", wr.lineno)
    # element width
    el = [k for o, w, k in atom_fields if k[0] == "val" and "element" in k[1]][0]
    eg = [st for st in stmts(wr) if isinstance(st, ast.If) and any(isinstance(b, ast.Raise) for b in st.body)
          and has_code(st.test, "len(element)") and "atoms.element" in ast.unparse(st.test)]
    bound = None
    if eg:
        for c in ast.walk(eg[0].test):
            if isinstance(c, ast.Compare) and isinstance(c.comparators[0], ast.Constant):
                bound = c.comparators[0].value - (0 if isinstance(c.ops[0], ast.Gt) else 1)
    ctx.ob("R2.element-width", CTAB, "_write_structure_to_ctab_v2000", f"element field {el[2]['width']} wide, guard len <= {bound}",
           bound is not None and bound <= el[2]["width"],
           "an element symbol longer than its field shifts the charge column; no guard refuses it", wr.lineno)
    ctx.ob("R2.nan-refused", CTAB, "write_structure_to_ctab", "np.isnan(atoms.coord).any() -> raise",
           any(isinstance(st, ast.If) and same_expr(st.test, "np.isnan(atoms.coord).any()") and any(isinstance(b, ast.Raise) for b in st.body)
               for st in stmts(wf)), "a structure with any NaN coordinate must be refused", wf.lineno)

    # ---------------- R3 tables -------------------------------------------------
    bt = const_eval(s.module_assign("BOND_TYPE_MAPPING"))
    rev_node = s.module_assign("BOND_TYPE_MAPPING_REV")
    rev = const_eval(rev_node, {"BOND_TYPE_MAPPING": bt})
    for t_, code in sorted(rev.items(), key=lambda x: str(x[0])):
        ctx.ob("R3.bond-table-roundtrip", CTAB, "<module>.BOND_TYPE_MAPPING_REV", f"{t_} -> {code} -> {bt.get(code)}",
               bt.get(code) == t_, f"bond type {t_} is written as {code}, which reads back as {bt.get(code)}", 1)
    ctx.ob("R3.bond-table-codes", CTAB, "<module>.BOND_TYPE_MAPPING", str(sorted(bt)),
           {str(v) for v in (bt[1], bt[2], bt[3], bt[4])} == {"BondType.SINGLE", "BondType.DOUBLE", "BondType.TRIPLE", "BondType.AROMATIC"}
           and str(bt[1]) == "BondType.SINGLE" and str(bt[2]) == "BondType.DOUBLE" and str(bt[3]) == "BondType.TRIPLE"
           and str(bt[4]) == "BondType.AROMATIC",
           "CTfile bond codes 1,2,3,4 are single, double, triple, aromatic", 1)
    cm = const_eval(s.module_assign("CHARGE_MAPPING"))
    cr = const_eval(s.module_assign("CHARGE_MAPPING_REV"), {"CHARGE_MAPPING": cm})
    ctx.ob("R3.charge-table", CTAB, "<module>.CHARGE_MAPPING", str(sorted(cm.items())),
           cm == {0: 0, 1: 3, 2: 2, 3: 1, 5: -1, 6: -2, 7: -3} and all(cm[v] == k for k, v in cr.items()),
           "CTfile charge codes: 1,2,3 = +3,+2,+1; 5,6,7 = -1,-2,-3; the reverse table must invert it", 1)
    # V3000 and V2000 use the same tables in both directions
    for fn in ("_read_structure_from_ctab_v2000", "_read_structure_from_ctab_v3000"):
        ctx.ob("R3.table-used", CTAB, fn, "BOND_TYPE_MAPPING.get(...)", any(isinstance(c, ast.Call) and call_name(c) == "BOND_TYPE_MAPPING.get" for c in ast.walk(s.func(fn))),
               "reader must map bond codes through BOND_TYPE_MAPPING", s.func(fn).lineno, nontrivial=False)
    for fn in ("_write_structure_to_ctab_v2000", "_write_structure_to_ctab_v3000"):
        ctx.ob("R3.table-used", CTAB, fn, "BOND_TYPE_MAPPING_REV.get(bond_type, default)",
               contains_expr(s.func(fn), "BOND_TYPE_MAPPING_REV.get(bond_type, default_bond_value)"),
               "writer must map bond types through BOND_TYPE_MAPPING_REV", s.func(fn).lineno, nontrivial=False)

    # RDKit tables
    r = ctx.src(RDK)
    b2r = const_eval(r.module_assign("_BIOTITE_TO_RDKIT_BOND_TYPE"))
    r2b = const_eval(r.module_assign("_RDKIT_TO_BIOTITE_BOND_TYPE"))
    produced = set(b2r.values())
    for rk, bv in sorted(r2b.items(), key=lambda x: str(x[0])):
        ctx.ob("R3.rdkit-reverse-producible", RDK, "<module>._RDKIT_TO_BIOTITE_BOND_TYPE", f"{rk} -> {bv}",
               rk in produced,
               f"from_mol understands {rk} (-> {bv}) but to_mol can never produce it: the option that is "
               "documented to create it has no effect", 1)
    tm = r.func("to_mol")
    pre = {}
    for st in ast.walk(tm):
        if isinstance(st, ast.If) and "use_dative_bonds" in ast.unparse(st.test):
            for b in st.body:
                if isinstance(b, ast.Assign):
                    src_t = [d for d in (dotted(x) for x in ast.walk(st.test)) if d and d.startswith("BondType.")]
                    if src_t:
                        pre[src_t[0]] = dotted(b.value)
    ctx.ob("R3.dative-substitution", RDK, "to_mol", f"not use_dative_bonds: {sorted(pre.items())}",
           pre == {"BondType.COORDINATION": "BondType.SINGLE"},
           "without use_dative_bonds a coordination bond is written as a SINGLE bond (documented) and nothing else is replaced", tm.lineno)
    aromatic_ok = {"BondType.AROMATIC_SINGLE", "BondType.AROMATIC_DOUBLE", "BondType.AROMATIC_TRIPLE", "BondType.AROMATIC"}
    for flag in (False, True):
        for bt_, rk in sorted(b2r.items(), key=lambda x: str(x[0])):
            eff = bt_
            if not flag and str(bt_) in pre:
                eff = [k for k in b2r if str(k) == pre[str(bt_)]][0]
            back = r2b.get(b2r[eff])
            if str(bt_) in aromatic_ok:
                continue  # aromatic bonds return through kekulisation, not through the table
            expect = eff
            ctx.ob("R3.rdkit-roundtrip", RDK, "to_mol", f"use_dative_bonds={flag}: {bt_} -> {b2r[eff]} -> {back}",
                   back == expect,
                   f"with use_dative_bonds={flag}, {bt_} becomes {b2r[eff]} and returns as {back}", tm.lineno)
    # ---------------- R4 residue info, conformers -------------------------------
    fm = r.func("from_mol")
    set_kw = {}
    for c in calls(tm):
        if (call_name(c) or "").endswith("AtomPDBResidueInfo"):
            for k in c.keywords:
                set_kw[k.arg] = ast.unparse(k.value)
        if isinstance(c.func, ast.Attribute) and c.func.attr in RESINFO and c.args:
            set_kw[c.func.attr] = ast.unparse(c.args[0])
    got = {}
    for st in stmts(fm):
        if isinstance(st, ast.Assign) and isinstance(st.targets[0], ast.Subscript) and isinstance(st.value, ast.Call):
            tgt = dotted(st.targets[0].value) or ""
            fn = st.value.func
            while isinstance(fn, ast.Call) or (isinstance(fn, ast.Attribute) and fn.attr in ("strip",)):
                fn = fn.func if isinstance(fn, ast.Call) else fn.value
            if isinstance(fn, ast.Attribute) and fn.attr.startswith("Get") and tgt.startswith("atoms."):
                got[fn.attr] = tgt[6:]
    ctx.floor("residue-info-fields", len(set_kw), 9)
    for key, getter in RESINFO.items():
        annot = RESINFO_ANNOT[key]
        ctx.ob("R4.residue-info-paired", RDK, "from_mol", f"{key}(atoms.{annot}) <-> atoms.{annot} = {getter}()",
               key in set_kw and f"atoms.{annot}[i]" in set_kw[key] and got.get(getter) == annot,
               f"to_mol stores atoms.{annot} with {key} but from_mol reads {getter} into atoms.{got.get(getter)}",
               fm.lineno)
    # model i <-> conformer i
    loops = [st for st in ast.walk(fm) if isinstance(st, ast.For) and "conformers" in ast.unparse(st.iter)]
    ok = False
    for st in loops:
        if isinstance(st.iter, ast.Call) and call_name(st.iter) == "enumerate" and isinstance(st.target, ast.Tuple):
            iv = st.target.elts[0].id
            ok = any(isinstance(b, ast.Assign) and same_expr(b.targets[0], f"atoms.coord[{iv}]") for b in st.body)
    # the same in one expression: the models are the conformers' positions in list order
    for st in ast.walk(fm):
        # (assigned to the stack directly, or built under a local name that is what `atoms.coord` is assigned from)
        if isinstance(st, ast.Assign) and len(st.targets) == 1 and (same_expr(st.targets[0], "atoms.coord") or isinstance(st.targets[0], ast.Name) and any(
                isinstance(a_, ast.Assign) and len(a_.targets) == 1 and same_expr(a_.targets[0], "atoms.coord") and isinstance(a_.value, ast.Name)
                and a_.value.id == st.targets[0].id for a_ in ast.walk(fm))) and isinstance(st.value, ast.Call) \
                and call_name(st.value) in ("np.array", "np.stack", "np.asarray") and st.value.args and isinstance(st.value.args[0], ast.ListComp) \
                and len(st.value.args[0].generators) == 1 and not st.value.args[0].generators[0].ifs:
            g_ = st.value.args[0].generators[0]
            if isinstance(g_.target, ast.Name) and same_expr(g_.iter, "conformers") and any(
                    isinstance(c_, ast.Call) and isinstance(c_.func, ast.Attribute) and c_.func.attr == "GetPositions" and same_expr(c_.func.value, g_.target.id)
                    for c_ in ast.walk(st.value.args[0].elt)):
                ok = True
    ctx.ob("R4.model-is-conformer-position", RDK, "from_mol", "atoms.coord[i] for i, conformer in enumerate(conformers)", ok,
           "models must be filled by the position of the conformer in the list: to_mol adds conformers "
           "without assigning ids, so ids are not a valid model index", fm.lineno)
    addc = [c for c in calls(tm) if isinstance(c.func, ast.Attribute) and c.func.attr == "AddConformer"]
    ctx.ob("R4.one-conformer-per-model", RDK, "to_mol", "for model_coord in coord: mol.AddConformer(conformer)",
           bool(addc) and any(isinstance(st, ast.For) and ast.unparse(st.iter) == "coord" and any(x is addc[0] for x in ast.walk(st))
                              for st in ast.walk(tm)), "every model must become one conformer, in order", tm.lineno)
    ctx.ob("R4.charge-paired", RDK, "from_mol", "SetFormalCharge(atoms.charge) <-> atoms.charge = GetFormalCharge()",
           any(isinstance(c, ast.Call) and isinstance(c.func, ast.Attribute) and c.func.attr == "SetFormalCharge" and len(c.args) == 1
               and same_expr(c.args[0], "atoms.charge[i].item()") for c in ast.walk(tm))
           and any(isinstance(st, ast.Assign) and same_expr(st.targets[0], "atoms.charge[_atom_idx]") and same_expr(st.value, "rdkit_atom.GetFormalCharge()")
                   for st in ast.walk(fm)),
           "formal charge must be transferred both ways", fm.lineno, nontrivial=False)

    # ---------------- R5 SD grammar ------------------------------------------------
    sd = ctx.src(SDF)
    delim = const_eval(sd.module_assign("_RECORD_DELIMITER"))
    md = sd.func("Metadata.deserialize")
    fd = sd.func("SDFile.deserialize")
    triggers = []  # (literal, stripped?)
    for fn, q in ((md, "Metadata.deserialize"), (fd, "SDFile.deserialize")):
        strips = any(isinstance(st, ast.Assign) and ast.unparse(st) == "line = line.strip()" for st in stmts(fn))
        for n in walk_local(fn):
            if isinstance(n, ast.Call) and isinstance(n.func, ast.Attribute) and n.func.attr == "startswith" and n.args:
                a = n.args[0]
                lit = a.value if isinstance(a, ast.Constant) else (delim if dotted(a) == "_RECORD_DELIMITER" else None)
                if lit:
                    triggers.append((lit, strips, q))
    ctx.floor("sd-line-start-triggers", len(triggers), 2)
    si = sd.func("Metadata.__setitem__")
    refusals = []
    for st in ast.walk(si):
        if isinstance(st, ast.If) and any(isinstance(b, ast.Raise) for b in st.body):
            for c in ast.walk(st.test):
                if isinstance(c, ast.Call) and isinstance(c.func, ast.Attribute) and c.func.attr == "startswith" and c.args:
                    a = c.args[0]
                    lit = a.value if isinstance(a, ast.Constant) else (delim if dotted(a) == "_RECORD_DELIMITER" else None)
                    stripped = ".strip()" in ast.unparse(c.func.value)
                    refusals.append((lit, stripped))
    per_line = any(isinstance(st, ast.For) and "splitlines" in ast.unparse(st.iter) for st in ast.walk(si))
    for lit, strips, q in triggers:
        ok = per_line and any(rl == lit and (rs or not strips) for rl, rs in refusals)
        ctx.ob("R5.value-line-refused", SDF, "Metadata.__setitem__", f"line starting with {lit!r} (trigger of {q})", ok,
               f"{q} treats a line starting with {lit!r} as "
               + ("the next metadata key" if lit == ">" else "the end of the record")
               + ", but a metadata value containing such a line is written verbatim: the record becomes "
               "unreadable or a phantom record appears", si.lineno)
    init = sd.func("Metadata.__init__")
    ctx.ob("R5.constructor-validates", SDF, "Metadata.__init__", "values pass through __setitem__",
           any(isinstance(st, ast.Assign) and ast.unparse(st.targets[0]) == "self[key]" for st in stmts(init)),
           "Metadata(mapping) bypasses the checks of item assignment", init.lineno)
    ctx.ob("R5.empty-value-refused", SDF, "Metadata.__setitem__", "len(value) == 0 -> raise",
           any(isinstance(st, ast.If) and has_code(st.test, "len(value) == 0") and any(isinstance(b, ast.Raise) for b in st.body)
               for st in stmts(si)), "a key without value cannot be read back", si.lineno, nontrivial=False)
    # the metadata reader, by ways through its line loop: a key line first stores the pair that is complete (under the OLD key), then takes
    # the new key and forgets the old value; a value line starts the value or continues it with the line break the writer put there;
    # after the loop the last pair is stored
    from .. import machine
    md = sd.func("Metadata.deserialize")
    mlps = [st for st in md.body if isinstance(st, ast.For)]
    ctx.need(len(mlps) == 1 and isinstance(mlps[0].target, ast.Name), "the line loop of Metadata.deserialize")
    mlp = mlps[0]
    mline = mlp.target.id
    mways = machine.ways(mlp.body, machine.assigned_names(mlp), ("_add_key_value_pair",))
    key_ways = [w for w in mways if any(".Key.deserialize(" in u for u in w.updates)]
    bad_md = []
    ctx.need(len(key_ways) >= 1, "the key-line way of Metadata.deserialize")
    for w in key_ways:
        ups = [u for u in w.updates if not u.startswith(f"{mline} = ")]
        store = [k_ for k_, u in enumerate(ups) if u.startswith("_add_key_value_pair(")]
        newkey = [k_ for k_, u in enumerate(ups) if ".Key.deserialize(" in u]
        reset = [k_ for k_, u in enumerate(ups) if u.endswith("= None")]
        if not store or store[0] > newkey[0]:
            bad_md.append("the complete pair is not stored before the key is replaced")
        if not reset:
            bad_md.append("the value of the previous key is not forgotten at a new key")
    conts = [u for w in mways for u in w.updates if "+=" in u or ("+" in u and u.split(" = ")[0] in u.split(" = ", 1)[-1])]
    ctx.need(len(conts) >= 1, "the continuation of a multi-line value in Metadata.deserialize")
    for u in conts:
        tree_ = ast.parse(u).body[0]
        consts_ = [x.value for x in ast.walk(tree_) if isinstance(x, ast.Constant)]
        if consts_ != ["\n"]:
            bad_md.append(f"lines of a value are joined with {consts_!r}, the writer separates them with a line break")
    after = [st for st in md.body[md.body.index(mlp) + 1:] if isinstance(st, ast.Expr) and isinstance(st.value, ast.Call) and call_name(st.value) == "_add_key_value_pair"]
    if not after:
        bad_md.append("the last pair is not stored after the loop")
    ctx.ob("R5.metadata-reader", SDF, "Metadata.deserialize", f"{len(mways)} ways through the line loop", not bad_md,
           "; ".join(bad_md) + ": keys or (multi-line) values of the metadata do not come back as they were written", mlp.lineno)
    # the two numeric key components are normalised to int independently: whether `registry_internal` is converted depends on
    # `registry_internal` alone (a key without DT number still has a registry number that must equal the parsed one)
    from .. import machine
    pi = sd.func("Metadata.Key.__post_init__")
    converted = []          # per way that leaves normally: the set of components it converts
    for w in machine.ways(pi.body, set(), ("__setattr__",)):
        if w.exit is None:
            converted.append({fld_ for fld_ in ("number", "registry_internal") for u in w.updates
                              if u.startswith(f"object.__setattr__(self, '{fld_}', int(")})
    ctx.need(any("number" in c_ for c_ in converted) and any("registry_internal" in c_ for c_ in converted),
             "the int() normalisation of number and registry_internal in Metadata.Key.__post_init__")
    for fld_, other_ in (("number", "registry_internal"), ("registry_internal", "number")):
        ctx.ob("R5.key-numbers-normalised-independently", SDF, "Metadata.Key.__post_init__", f"{fld_} -> int({fld_}) also where {other_} is not converted",
               any(fld_ in c_ and other_ not in c_ for c_ in converted),
               f"`{fld_}` is converted to int only on ways that convert `{other_}` as well (the one depends on the other being set): a key like "
               "`> <NAME> 4711` keeps the string '4711' and no longer equals (or hashes like) the key that is parsed back from the file", pi.lineno)
    # key grammar: what serialize emits is what the component regexes accept
    ks = sd.func("Metadata.Key.serialize")
    # (a component may be read into a local first - `if (value := self.number) is not None:` - the placeholder then names the local)
    _par = {}
    for p_ in ast.walk(ks):
        for ch_ in ast.iter_child_nodes(p_):
            _par[id(ch_)] = p_

    def _component_of(name_node):
        cur = name_node
        while id(cur) in _par:
            cur = _par[id(cur)]
            if isinstance(cur, ast.If):
                for w_ in ast.walk(cur.test):
                    if isinstance(w_, ast.NamedExpr) and w_.target.id == name_node.id and isinstance(w_.value, ast.Attribute) and dotted(w_.value.value) == "self":
                        return w_.value.attr
        return None

    def form(js):
        out = ""
        for v in js.values:
            if isinstance(v, ast.Constant):
                out += v.value
                continue
            nm_ = (dotted(v.value) or "?").split(".")[-1]
            if isinstance(v.value, ast.Name):
                nm_ = _component_of(v.value)
                ctx.need(nm_ is not None, f"the key component behind the placeholder `{v.value.id}` of Metadata.Key.serialize")
            out += "{" + nm_ + "}"
        return out.strip()

    # a component is written whenever it is SET: `DT0`, registry number 0 and an empty external registry are components (tested with
    # `is not None`, not by their truth)
    comp_ifs = [i_ for i_ in ast.walk(ks) if isinstance(i_, ast.If) and any(isinstance(x, ast.JoinedStr) for b_ in i_.body for x in ast.walk(b_))]
    by_truth = [ast.unparse(i_.test) for i_ in comp_ifs
                if not (isinstance(i_.test, ast.Compare) and len(i_.test.ops) == 1 and isinstance(i_.test.ops[0], ast.IsNot)
                        and isinstance(i_.test.comparators[0], ast.Constant) and i_.test.comparators[0].value is None)]
    if comp_ifs:
        ctx.ob("R5.key-components", SDF, "Metadata.Key.serialize", f"{len(comp_ifs)} component test(s): `is not None`", not by_truth,
               f"the component test(s) {by_truth} go by the truth of the value: a key `> DT0` (or with registry number 0) is written without that "
               "component and reads back as another key", ks.lineno)
    jss = [n for n in ast.walk(ks) if isinstance(n, ast.JoinedStr)]
    ctx.need(bool(jss), "the components of Metadata.Key.serialize written as f-strings (templates applied through str.format in a "
                        "comprehension cannot be decided here)")
    emitted = sorted(form(n) for n in jss)
    own_sep = [isinstance(n.values[-1], ast.Constant) and n.values[-1].value.endswith(" ")
               or (isinstance(_par.get(id(n)), ast.BinOp) and isinstance(_par[id(n)].op, ast.Add) and _par[id(n)].left is n
                   and isinstance(_par[id(n)].right, ast.Constant) and _par[id(n)].right.value == " ") for n in jss]
    common_sep = any(isinstance(n, ast.BinOp) and isinstance(n.op, ast.Add) and isinstance(n.right, ast.Constant) and n.right.value == " "
                     and isinstance(n.left, ast.Name) for n in ast.walk(ks)) or "' '.join(" in ast.unparse(ks)
    ctx.ob("R5.key-components", SDF, "Metadata.Key.serialize", str(emitted) + (" each + ' '" if all(own_sep) or common_sep else " separators: " + str(own_sep)),
           emitted == sorted(["DT{number}", "<{name}>", "{registry_internal}", "({registry_external})"])
           and (all(own_sep) or (not any(own_sep) and common_sep)),
           "key components must be written in the forms DTn, <name>, n, (ext) the component regexes parse",
           ks.lineno)
    kcls = sd.cls("Metadata.Key")
    regs = {}
    for st in kcls.body:
        if isinstance(st, ast.Assign) and isinstance(st.targets[0], ast.Name) and st.targets[0].id == "_COMPONENT_REGEX":
            for k, v in zip(st.value.keys, st.value.values):
                regs[k.value] = v.args[0].value
    ctx.ob("R5.key-components", SDF, "Metadata.Key._COMPONENT_REGEX", str(sorted(regs.items())),
           regs.get("number", "").startswith("^DT(") and regs.get("name", "").startswith("^<(") and regs.get("name", "").endswith(")>$")
           and regs.get("registry_external", "").startswith("^\\(") and regs.get("registry_internal") == "^(\\d+)$",
           "component regexes must mirror the serialised forms", kcls.lineno)
    # the name a Key accepts (validator _NAME_INPUT_REGEX) and the name the reader recognises between '<' and '>' are the same
    # language: compared on the regex syntax trees (capture groups dropped, character classes as sets)
    import re._parser as _rp

    def rx_canon(p_):
        def conv(items):
            out = []
            for op, av in items:
                opn = str(op)
                if opn == "SUBPATTERN":
                    out.extend(conv(av[3]))
                elif opn == "IN":
                    out.append(("IN", tuple(sorted(repr(x) for x in av))))
                elif opn in ("MAX_REPEAT", "MIN_REPEAT"):
                    out.append((opn, int(av[0]), str(av[1]), tuple(conv(av[2]))))
                elif opn == "BRANCH":
                    out.append(("BRANCH", tuple(sorted(repr(tuple(conv(b))) for b in av[1]))))
                else:
                    out.append((opn, repr(av)))
            return out
        return tuple(conv(_rp.parse(p_)))
    name_in = None
    for st in kcls.body:
        if isinstance(st, ast.Assign) and isinstance(st.targets[0], ast.Name) and st.targets[0].id == "_NAME_INPUT_REGEX" \
                and isinstance(st.value, ast.Call) and st.value.args and isinstance(st.value.args[0], ast.Constant):
            name_in = st.value.args[0].value
    ctx.need(name_in is not None and name_in.startswith("^") and name_in.endswith("$") and "name" in regs, "name validator regex of Metadata.Key")
    ctx.ob("R5.key-name-language", SDF, "Metadata.Key._COMPONENT_REGEX", f"name: {regs['name']}  vs validator {name_in}",
           rx_canon(regs["name"]) == rx_canon("^<" + name_in[1:-1] + ">$"),
           "every name the Key constructor accepts must be recognised by the reader between '<' and '>' (and nothing else): "
           "otherwise a key that was written cannot be read back", kcls.lineno)
    # ctab end marker, header line count
    gs = sd.func("_get_ctab_stop")
    ctx.ob("R5.ctab-end", SDF, "_get_ctab_stop", "first 'M  END' after the header lines",
           any(isinstance(lp, ast.For) and isinstance(lp.target, ast.Name) and same_expr(lp.iter, "range(_N_HEADER, len(lines))")
               and any(isinstance(st, ast.If) and contains_expr(st.test, f"lines[{lp.target.id}].startswith('M  END')")
                       and any(isinstance(r, ast.Return) and same_expr(r.value, f"{lp.target.id} + 1") for r in st.body) for st in lp.body)
               for lp in ast.walk(gs)), "the connection table ends after the first 'M  END' line", gs.lineno)
    for fn in ("_write_structure_to_ctab_v2000", "_write_structure_to_ctab_v3000"):
        ctx.ob("R5.ctab-end", CTAB, fn, "+ ['M  END']", any(isinstance(r, ast.Return) and isinstance(r.value, ast.BinOp) and isinstance(r.value.op, ast.Add) and same_expr(r.value.right, "['M  END']")
                   for r in ast.walk(s.func(fn))),
               "the writer must terminate the table with 'M  END'", s.func(fn).lineno, nontrivial=False)
    hd = ctx.src(HEAD)
    hs = hd.func("Header.serialize")
    nl = ast.unparse(hs).count("\\n'")
    ctx.ob("R5.header-lines", HEAD, "Header.serialize", f"{nl} lines, _N_HEADER = {const_eval(sd.module_assign('_N_HEADER'))}",
           nl == const_eval(sd.module_assign("_N_HEADER")) == 3, "the header has exactly three lines", hs.lineno)
    # header line 2 layout
    hdz = hd.func("Header.deserialize")
    js = [n for n in walk_local(hs) if isinstance(n, ast.JoinedStr) and len(n.values) > 4]
    ctx.need(js, "header line 2 f-string")
    hf, _ = fstring_fields(js[0])
    wcols = [(o, o + w, k[1].replace("self.", "")) for o, w, k in hf if k[0] == "val"]
    rcols = {}
    for st in stmts(hdz):
        if isinstance(st, ast.Assign) and isinstance(st.targets[0], ast.Name):
            sl = sorted(reader_slices(st))
            if sl and has_code(st.value, "lines[1]"):
                rcols[st.targets[0].id] = sl[0]
    names = {"time_str": "time_string"}
    for a, b, nm in wcols:
        ctx.ob("R1.header-columns", HEAD, "Header.serialize", f"{nm} at [{a}:{b}] read at {rcols.get(names.get(nm, nm))}",
               rcols.get(names.get(nm, nm)) == (a, b), f"header field {nm} is written at {a}..{b} but read elsewhere",
               js[0].lineno)
    fields_ = [p for p in js[0].values if isinstance(p, ast.FormattedValue)]
    # (a width that is itself computed - f"{value:>{width}.{width}}" - or a field without a format is not a layout this rule reads)
    ctx.need(all(p.format_spec is not None and all(isinstance(x, ast.Constant) for x in p.format_spec.values) for p in fields_),
             "literal format specifications in the header line of Header.serialize")
    trunc = all(("." in "".join(x.value for x in p.format_spec.values)) for p in fields_)
    ctx.ob("R2.header-truncated", HEAD, "Header.serialize", "every field has a precision (truncation) in its format", trunc,
           "a header field without a maximum width shifts the following fields", js[0].lineno)
    # lazy container
    sf = sd.methods("SDFile")
    lazy.check_getitem_stores(ctx, "R5.lazy-parse-stored", SDF, "SDFile", sf["__getitem__"])
    lazy.check_eq_through_getitem(ctx, "R5.eq-through-getitem", SDF, "SDFile", sf["__eq__"])
    rec_methods = [(n.name, n) for n in sd.cls("SDRecord").body if isinstance(n, ast.FunctionDef)]
    n_lazy = lazy.check_lazy_attributes(ctx, "R5.lazy-parse-stored", SDF, "SDRecord", rec_methods)
    ctx.floor("R5.lazy-attributes", n_lazy, 2)
    # record names / order
    ctx.ob("R5.record-name", SDF, "SDFile.__setitem__", "record.header.mol_name = key",
           any(isinstance(st, ast.Assign) and same_expr(st.targets[0], "record.header.mol_name") and same_expr(st.value, "key") for st in ast.walk(sf["__setitem__"]))
           and any(isinstance(st, ast.Assign) and same_expr(st.targets[0], "record.header.mol_name") and same_expr(st.value, "mol_name") for st in ast.walk(sf["__init__"])),
           "the record name must be written into the header, where deserialize reads it", sf["__setitem__"].lineno, nontrivial=False)


MUTANTS = [
    Mutant("metadata-value-not-reset", SDF, "                current_key = Metadata.Key.deserialize(line)\n                current_value = None\n", "                current_key = Metadata.Key.deserialize(line)\n", "R5.metadata-reader"),
    Mutant("metadata-lines-joined-by-space", SDF, '                    current_value += "\\n" + line\n', '                    current_value += " " + line\n', "R5.metadata-reader"),
    Mutant("metadata-last-pair-dropped", SDF, "        # Add final pair\n        _add_key_value_pair(metadata, current_key, current_value)\n", "", "R5.metadata-reader"),
    Mutant("mol-set-structure-truncates-first", MOL, "        self.lines = self.lines[:N_HEADER] + write_structure_to_ctab(\n            atoms, default_bond_type, version\n        )\n",
           "        del self.lines[N_HEADER:]\n        self.lines += write_structure_to_ctab(atoms, default_bond_type, version)\n", "R2.refusal-leaves-file-intact"),
    Mutant("coordination-as-double", RDK, "        if not use_dative_bonds and bond_type == BondType.COORDINATION:\n            bond_type = BondType.SINGLE\n",
           "        if not use_dative_bonds and bond_type == BondType.COORDINATION:\n            bond_type = BondType.DOUBLE\n", "R3.dative-substitution"),
    Mutant("key-name-two-characters", SDF, '            "name": re.compile(r"^<([a-zA-Z0-9][\\w.]*)>$"),\n', '            "name": re.compile(r"^<([a-zA-Z0-9][\\w.]+)>$"),\n',
           "R5.key-name-language"),
    Mutant("key-name-class-reordered", SDF, '            "name": re.compile(r"^<([a-zA-Z0-9][\\w.]*)>$"),\n', '            "name": re.compile(r"^<([0-9A-Za-z][.\\w]*)>$"),\n',
           "R5.key-name-language", kind="silent"),
    Mutant("kekulize-in-place", RDK, "        bonds = atoms.bonds.copy()\n        bonds.remove_aromaticity()\n", "        bonds = atoms.bonds\n        bonds.remove_aromaticity()\n",
           "R3.caller-arguments-untouched", "to_mol"),
    Mutant("record-header-not-cached", SDF, "                self._header = Header.deserialize(self._header)", "                return Header.deserialize(self._header)", "R5.lazy-parse-stored"),
    Mutant("v2000-coords-by-split", CTAB, "        atoms.coord[i, 0] = float(line[0:10])", "        atoms.coord[i, 0] = float(line[0:30].split()[0])", "R1.atom-columns-read"),
    Mutant("element-field-width", CTAB, 'f" {atoms.element[i].capitalize():3}"', 'f" {atoms.element[i].capitalize():4}"', "R1.atom-columns"),
    Mutant("charge-table-swapped", CTAB, "CHARGE_MAPPING = {0: 0, 1: 3, 2: 2, 3: 1, 5: -1, 6: -2, 7: -3}", "CHARGE_MAPPING = {0: 0, 1: 3, 2: 2, 3: 1, 5: -2, 6: -1, 7: -3}", "R3.charge-table"),
    Mutant("compat-limit", CTAB, "return n_atoms < 1000 and n_bonds < 1000", "return n_atoms < 1000 and n_bonds <= 1000", "R2.count-bound"),
    Mutant("compat-arg", CTAB, "            if _is_v2000_compatible(atoms.array_length(), atoms.bonds.get_bond_count()):\n                return _write_structure_to_ctab_v2000",
           "            if _is_v2000_compatible(atoms.array_length(), atoms.bonds.get_atom_count()):\n                return _write_structure_to_ctab_v2000",
           "R2.guard-arguments"),
    Mutant("coord-guard-6", CTAB, "        if n_coord_digits > 5:\n            raise BadStructureError(\n                f\"5 pre-decimal columns for {coord_name}-coordinates are \"\n                f\"available, but array would require {n_coord_digits}\"\n            )\n    if any(",
           "        if n_coord_digits > 6:\n            raise BadStructureError(\n                f\"5 pre-decimal columns for {coord_name}-coordinates are \"\n                f\"available, but array would require {n_coord_digits}\"\n            )\n    if any(",
           "R2.coordinate-width"),
    Mutant("regress-element-guard", CTAB, "    if any([len(element) > 3 for element in atoms.element]):\n        raise BadStructureError(\"Some elements exceed 3 characters\")\n", "",
           "R2.element-width"),
    Mutant("bond-index-base", CTAB, "        bond_array[i, 0] = int(line[0:3]) - 1\n        bond_array[i, 1] = int(line[3:6]) - 1\n        bond_array[i, 2] = bond_type\n    atoms.bonds = BondList(n_atoms",
           "        bond_array[i, 0] = int(line[0:3])\n        bond_array[i, 1] = int(line[3:6]) - 1\n        bond_array[i, 2] = bond_type\n    atoms.bonds = BondList(n_atoms",
           "R1.index-base"),
    Mutant("regress-dative", RDK, "    BondType.COORDINATION: Chem.BondType.DATIVE,", "    BondType.COORDINATION: Chem.BondType.SINGLE,", "R3.rdkit-reverse-producible"),
    Mutant("resinfo-swapped", RDK, "        atoms.res_name[_atom_idx] = residue_info.GetResidueName()", "        atoms.res_name[_atom_idx] = residue_info.GetChainId()",
           "R4.residue-info-paired"),
    Mutant("conformer-by-id", RDK, "            for i, conformer in enumerate(conformers):\n                atoms.coord[i] = np.array(conformer.GetPositions(), dtype=np.float32)",
           "            for conformer in conformers:\n                atoms.coord[conformer.GetId()] = np.array(conformer.GetPositions(), dtype=np.float32)",
           "R4.model-is-conformer-position"),
    Mutant("regress-metadata-refusal", SDF, "            if line.strip().startswith(\">\") or line.startswith(_RECORD_DELIMITER):", "            if line.strip().startswith(\">\"):",
           "R5.value-line-refused"),
    Mutant("sdfile-lazy", SDF, "            # Update with deserialized object\n            self._records[key] = record\n", "", "R5.lazy-parse-stored"),
    Mutant("header-field", HEAD, "{self.program:>8.8}", "{self.program:>9.9}", "R1.header-columns"),
    # ---- one seeded fault per rule that had none -------------------------------------------
    Mutant("bond-index-field-width", CTAB, '        f"{i + 1:>3d}{j + 1:>3d}"\n', '        f"{i + 1:>4d}{j + 1:>3d}"\n', "R1.bond-columns"),
    Mutant("bond-second-index-slice", CTAB, "        bond_array[i, 1] = int(line[3:6]) - 1\n        bond_array[i, 2] = bond_type\n    atoms.bonds = BondList(n_atoms",
           "        bond_array[i, 1] = int(line[3:7]) - 1\n        bond_array[i, 2] = bond_type\n    atoms.bonds = BondList(n_atoms", "R1.bond-columns"),
    Mutant("chg-header-skip", CTAB, "        line = line[9:]\n", "        line = line[6:]\n", "R1.chg-header"),
    Mutant("chg-count-width", CTAB, '            f"M  CHG{len(batch):>3d}"\n', '            f"M  CHG{len(batch):>4d}"\n', "R1.chg-header"),
    Mutant("chg-ten-per-line", CTAB, "N_CHARGES_PER_LINE = 8\n", "N_CHARGES_PER_LINE = 10\n", "R1.chg-per-line"),
    Mutant("counts-fields-separated", CTAB, '        f"{atoms.array_length():>3d}{atoms.bonds.get_bond_count():>3d}"\n', '        f"{atoms.array_length():>3d} {atoms.bonds.get_bond_count():>3d}"\n', "R1.counts-columns"),
    Mutant("counts-bond-slice", CTAB, "    return int(counts_line[0:3]), int(counts_line[3:6])\n", "    return int(counts_line[0:3]), int(counts_line[4:7])\n", "R1.counts-columns"),
    Mutant("reader-y-z-swapped", CTAB, "        atoms.coord[i, 1] = float(line[10:20])\n        atoms.coord[i, 2] = float(line[20:30])\n",
           "        atoms.coord[i, 1] = float(line[20:30])\n        atoms.coord[i, 2] = float(line[10:20])\n", "R1.reader-slice"),
    Mutant("v2000-tag-shifted", CTAB, '        "  0     0  0  0  0  0  0  1 V2000"\n', '        "  0     0  0  0  0  0  1 V2000"\n', "R1.version-tag", qualname="_write_structure_to_ctab_v2000"),
    Mutant("v3000-tag-shifted", CTAB, 'V2000_COMPATIBILITY_LINE = "  0  0  0  0  0  0  0  0  0  0999 V3000"\n', 'V2000_COMPATIBILITY_LINE = "  0  0  0  0  0  0  0  0  0999 V3000"\n', "R1.version-tag",
           qualname="<module>.V2000_COMPATIBILITY_LINE"),
    Mutant("z-axis-unguarded", CTAB, '        "  0     0  0  0  0  0  0  1 V2000"\n    )\n\n    for i, coord_name in enumerate(["x", "y", "z"]):\n',
           '        "  0     0  0  0  0  0  0  1 V2000"\n    )\n\n    for i, coord_name in enumerate(["x", "y"]):\n', "R2.coordinate-axes"),
    Mutant("digit-guard-x-only", CTAB, '    for i, coord_name in enumerate(["x", "y", "z"]):\n        n_coord_digits = number_of_integer_digits(atoms.coord[:, i])\n        if n_coord_digits > 5:\n            raise BadStructureError(\n                f"5 pre-decimal columns for {coord_name}-coordinates are "\n                f"available, but array would require {n_coord_digits}"\n            )\n    if any(',
           '    for i, coord_name in enumerate(["x", "y", "z"]):\n        n_coord_digits = number_of_integer_digits(atoms.coord[:, 0])\n        if n_coord_digits > 5:\n            raise BadStructureError(\n                f"5 pre-decimal columns for {coord_name}-coordinates are "\n                f"available, but array would require {n_coord_digits}"\n            )\n    if any(',
           "R2.coordinate-axes"),
    Mutant("header-program-not-truncated", HEAD, '            f"{self.program:>8.8}"\n', '            f"{self.program:>8}"\n', "R2.header-truncated"),
    Mutant("nan-all-only", CTAB, "    if np.isnan(atoms.coord).any():", "    if np.isnan(atoms.coord).all():", "R2.nan-refused"),
    Mutant("v2000-guard-only-warns", CTAB, "            ):\n                raise ValueError(\n                    \"The given number of atoms or bonds is too large for V2000 format\"", "            ):\n                warnings.warn(\n                    \"The given number of atoms or bonds is too large for V2000 format\"", "R2.v2000-behind-guard"),
    Mutant("bond-type-slice-narrow", CTAB, "BOND_TYPE_MAPPING.get(int(line[6:9]))", "BOND_TYPE_MAPPING.get(int(line[7:9]))", "R1.bond-columns"),
    Mutant("nan-accepted", CTAB, '    if np.isnan(atoms.coord).any():\n        raise BadStructureError("Input AtomArray has NaN coordinates")\n', "", "R2.nan-refused"),
    Mutant("unknown-version-as-v2000", CTAB, "        case unkown_version:\n            raise ValueError(f\"Unknown CTAB version '{unkown_version}'\")\n",
           "        case _:\n            return _write_structure_to_ctab_v2000(atoms, default_bond_type)\n", "R2.v2000-behind-guard"),
    Mutant("bond-codes-single-double", CTAB, "    1: BondType.SINGLE,\n    2: BondType.DOUBLE,\n", "    1: BondType.DOUBLE,\n    2: BondType.SINGLE,\n", "R3.bond-table-codes"),
    Mutant("bond-table-not-inverted", CTAB, "BOND_TYPE_MAPPING_REV = {v: k for k, v in BOND_TYPE_MAPPING.items()}", "BOND_TYPE_MAPPING_REV = {k: v for k, v in BOND_TYPE_MAPPING.items()}", "R3.bond-table-roundtrip"),
    Mutant("rdkit-triple-as-double", RDK, "    Chem.BondType.TRIPLE: BondType.TRIPLE,\n", "    Chem.BondType.TRIPLE: BondType.DOUBLE,\n", "R3.rdkit-roundtrip"),
    Mutant("rdkit-any-as-single", RDK, "    BondType.ANY: Chem.BondType.UNSPECIFIED,\n", "    BondType.ANY: Chem.BondType.SINGLE,\n", "R3.rdkit-roundtrip"),
    Mutant("v3000-bond-code-raw", CTAB, "        bond_type = BOND_TYPE_MAPPING.get(v30_type)\n", "        bond_type = BondType(v30_type)\n", "R3.table-used", qualname="_read_structure_from_ctab_v3000"),
    Mutant("v2000-bond-type-raw", CTAB, '        f"{BOND_TYPE_MAPPING_REV.get(bond_type, default_bond_value):>3d}"\n', '        f"{int(bond_type):>3d}"\n', "R3.table-used", qualname="_write_structure_to_ctab_v2000"),
    Mutant("charge-not-read-back", RDK, "        atoms.charge[_atom_idx] = rdkit_atom.GetFormalCharge()\n", "", "R4.charge-paired"),
    Mutant("charge-not-set", RDK, '        if "charge" in has_annot:\n            rdkit_atom.SetFormalCharge(atoms.charge[i].item())\n', "", "R4.charge-paired"),
    Mutant("only-last-conformer-added", RDK, "        conformer.Set3D(True)\n        mol.AddConformer(conformer)\n", "        conformer.Set3D(True)\n    mol.AddConformer(conformer)\n", "R4.one-conformer-per-model"),
    Mutant("conformers-reversed", RDK, "    for model_coord in coord:\n", "    for model_coord in coord[::-1]:\n", "R4.one-conformer-per-model"),
    Mutant("constructor-bypasses-setitem", SDF, "        for key, value in metadata.items():\n            self[key] = value\n", "        for key, value in metadata.items():\n            self._metadata[_to_metadata_key(key)] = value\n", "R5.constructor-validates"),
    Mutant("ctab-stop-before-end", SDF, '        if lines[i].startswith("M  END"):\n            return i + 1\n', '        if lines[i].startswith("M  END"):\n            return i\n', "R5.ctab-end", qualname="_get_ctab_stop"),
    Mutant("v3000-no-end-marker", CTAB, '    return [V2000_COMPATIBILITY_LINE] + lines + ["M  END"]\n', "    return [V2000_COMPATIBILITY_LINE] + lines\n", "R5.ctab-end", qualname="_write_structure_to_ctab_v3000"),
    Mutant("empty-value-accepted", SDF, '        if len(value) == 0:\n            raise ValueError("Metadata value must not be empty")\n', "", "R5.empty-value-refused"),
    Mutant("sdfile-eq-raw-records", SDF, "            if self[record_name] != other[record_name]:\n", "            if self._records[record_name] != other._records[record_name]:\n", "R5.eq-through-getitem"),
    Mutant("header-comment-line-dropped", HEAD, '        text += str(self.comments) + "\\n"\n', "", "R5.header-lines"),
    Mutant("n-header-four", SDF, "_N_HEADER = 3\n", "_N_HEADER = 4\n", "R5.header-lines"),
    Mutant("key-name-no-separator", SDF, '                key_string += f"<{self.name}> "\n', '                key_string += f"<{self.name}>"\n', "R5.key-components", qualname="Metadata.Key.serialize"),
    Mutant("key-registry-one-digit", SDF, '            "registry_internal": re.compile(r"^(\\d+)$"),\n', '            "registry_internal": re.compile(r"^(\\d)$"),\n', "R5.key-components", qualname="Metadata.Key._COMPONENT_REGEX"),
    Mutant("record-name-not-in-header", SDF, "        # The molecule name in the header is unique across the file\n        record.header.mol_name = key\n", "", "R5.record-name"),
    Mutant("record-name-not-in-header-init", SDF, "                if isinstance(record, SDRecord):\n                    record.header.mol_name = mol_name\n", "", "R5.record-name"),
]
