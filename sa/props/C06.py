"""
C06 - the CIF text layer returns every string table unchanged; containers are
ordinary mutable mappings.

R1  token agreement: every character / prefix the *reader* branches on at the
    start of a line is quoted by the *writer*; every separator the tokenizer
    splits on is quoted; text fields (';' blocks) are read with the line-start
    triggers switched off.
R2  mapping protocol wiring: a dunder that delegates to super() delegates to
    the same-named dunder with matching arity; all dunders of a container use
    one backing field.
R3  key codec: a key prefixed on the way in is un-prefixed by slicing /
    removeprefix, never by lstrip (which eats repeated characters).
R4  derived field: the cached row count is invalidated by every mutator of the
    columns.
"""

import ast

from ..astutil import attr_writes, call_name, calls, dotted, param_names, stmts, walk_local
from ..cfg import CFG
from ..exprnorm import same_expr, summarize, has_code
from ..core import AnalysisError, Mutant
from ..program import ClassIndex

EXPLANATION = (
    "Reader line-start/anywhere triggers of cif.py extracted from the tokenizer functions and "
    "compared with the guards of the writer's _escape/_multiline; mapping dunders of all "
    "containers in cif.py/bcif.py/component.py resolved through the class hierarchy."
)
ASSUMPTIONS = [
    "the first column of a looped category is written at the start of a line "
    "(checked: _serialize_looped strips the joined row)",
    "printable whitespace is ' ' plus the tab and newline named by the property",
]
MIN_OBLIGATIONS = 40

CIF = "structure/io/pdbx/cif.py"
BCIF = "structure/io/pdbx/bcif.py"
COMP = "structure/io/pdbx/component.py"

# reader functions that look at the *start of a raw line*
LINE_READERS = [
    "_is_empty", "_parse_data_block_name", "_parse_category_name", "_is_loop_start",
    "_to_single", "_split_one_line",
]
# deserializers that scan raw lines of a text and apply line-start triggers
TEXT_SCANNERS = ["CIFCategory.deserialize", "CIFBlock.deserialize", "CIFFile.deserialize"]
TRIGGER_HELPERS = {"_is_empty", "_parse_data_block_name", "_parse_category_name", "_is_loop_start"}
DUNDERS = ["__getitem__", "__setitem__", "__delitem__", "__contains__", "__iter__", "__len__"]
ARITY = {"__getitem__": 1, "__setitem__": 2, "__delitem__": 1, "__contains__": 1,
         "__iter__": 0, "__len__": 0}


def first_char_tests(func):
    """[(kind, literal, node)]  kind in {'char','prefix'} for tests on a line start"""
    out = []
    for n in walk_local(func):
        if isinstance(n, ast.Compare) and len(n.ops) == 1 and isinstance(n.ops[0], (ast.Eq, ast.NotEq)):
            l, r = n.left, n.comparators[0]
            for a, b in ((l, r), (r, l)):
                if (
                    isinstance(a, ast.Subscript)
                    and isinstance(a.slice, ast.Constant)
                    and a.slice.value == 0
                    and isinstance(b, ast.Constant)
                    and isinstance(b.value, str)
                    and len(b.value) == 1
                ):
                    out.append(("char", b.value, n))
        if isinstance(n, ast.Call) and isinstance(n.func, ast.Attribute) and n.func.attr == "startswith":
            if n.args and isinstance(n.args[0], ast.Constant) and isinstance(n.args[0].value, str):
                out.append(("prefix", n.args[0].value, n))
            elif n.args and isinstance(n.args[0], ast.Tuple):
                for e in n.args[0].elts:
                    if isinstance(e, ast.Constant) and isinstance(e.value, str):
                        out.append(("prefix", e.value, n))
    return out


def escape_guards(func, pname):
    """conditions of _escape: list of (kind, literal set, returns_bare)
    kinds: 'in' (c in value), 'first' (value[0] == c / in set), 'prefix', 'empty'"""
    guards = []

    def returns_bare(body):
        for st in body:
            for n in ast.walk(st):
                if isinstance(n, ast.Return):
                    if isinstance(n.value, ast.Name) and n.value.id == pname:
                        return True
        return False

    def cond_atoms(test):
        atoms = []
        parts = test.values if isinstance(test, ast.BoolOp) and isinstance(test.op, ast.Or) else [test]
        for t in parts:
            if isinstance(t, ast.Compare) and len(t.ops) == 1:
                l, op, r = t.left, t.ops[0], t.comparators[0]
                if isinstance(op, ast.In) and isinstance(l, ast.Constant) and isinstance(r, ast.Name) and r.id == pname:
                    atoms.append(("in", {l.value}))
                elif (
                    isinstance(op, ast.Eq)
                    and isinstance(l, ast.Subscript)
                    and isinstance(l.value, ast.Name) and l.value.id == pname
                    and isinstance(l.slice, ast.Constant) and l.slice.value == 0
                    and isinstance(r, ast.Constant)
                ):
                    atoms.append(("first", {r.value}))
                elif (
                    isinstance(op, ast.In)
                    and isinstance(l, ast.Subscript)
                    and isinstance(l.value, ast.Name) and l.value.id == pname
                    and isinstance(l.slice, ast.Constant) and l.slice.value == 0
                ):
                    try:
                        vals = ast.literal_eval(r)
                        atoms.append(("first", set(vals)))
                    except Exception:
                        atoms.append(("unknown", set()))
                elif (
                    isinstance(op, ast.Eq)
                    and isinstance(l, ast.Call) and call_name(l) == "len"
                    and isinstance(r, ast.Constant) and r.value == 0
                ):
                    atoms.append(("empty", set()))
                else:
                    atoms.append(("unknown", set()))
            elif isinstance(t, ast.Call) and isinstance(t.func, ast.Attribute) and t.func.attr == "startswith":
                base = t.func.value
                lowered = False
                if isinstance(base, ast.Call) and isinstance(base.func, ast.Attribute) and base.func.attr in ("lower", "casefold"):
                    base = base.func.value
                    lowered = True
                if isinstance(base, ast.Name) and base.id == pname and t.args:
                    try:
                        v = ast.literal_eval(t.args[0])
                        vals = {v} if isinstance(v, str) else set(v)
                        atoms.append(("prefix-ci" if lowered else "prefix", vals))
                    except Exception:
                        atoms.append(("unknown", set()))
                else:
                    atoms.append(("unknown", set()))
            elif isinstance(t, ast.UnaryOp) and isinstance(t.op, ast.Not) and isinstance(t.operand, ast.Name) and t.operand.id == pname:
                atoms.append(("empty", set()))
            else:
                atoms.append(("unknown", set()))
        return atoms

    def rec(body):
        for st in body:
            if isinstance(st, ast.If):
                bare = returns_bare(st.body)
                for kind, lits in cond_atoms(st.test):
                    guards.append((kind, lits, bare, st))
                rec(st.orelse)

    rec(func.body)
    return guards


def quoting_guard_for(guards, kind, lit):
    """is there a non-bare branch whose condition is implied by
    'value starts with lit' (kind char/prefix) or 'lit occurs in value' (kind in)"""
    for gk, lits, bare, st in guards:
        if bare:
            continue
        if kind in ("char", "prefix"):
            if gk == "first" and lit[0] in lits:
                return st
            if gk == "in" and any(len(x) >= 1 and lit.startswith(x) or (x in lit) for x in lits):
                return st
            if gk == "prefix" and any(lit.startswith(x) for x in lits):
                return st
            if gk == "prefix-ci" and any(lit.lower().startswith(x) for x in lits):
                return st
        elif kind == "in":
            if gk == "in" and lit in lits:
                return st
        elif kind == "empty":
            if gk == "empty":
                return st
    return None


def escape_decision_table(ctx, esc, pname, triggers, anywhere):
    """_escape decides by predicates on the value only.  Its body is composed into one conditional expression; the
    predicates the *reader* is sensitive to (line-start characters and prefixes, separator and quote characters, the empty
    string) span a finite space of value classes; for every consistent class the outcome of _escape (bare / 'quoted' /
    "quoted" / text field) is computed from the expression and checked against what the reader can read back.  The
    result does not depend on how the conditions are arranged (elif chain, merged `or`, early returns, named constants)."""
    import itertools
    sm = summarize(esc)
    ctx.need(sm.result is not None and not sm.guards, "_escape is a pure decision over its argument")
    # ---- atoms of the reader's sensitivity
    firsts = sorted({lit for (kind, lit) in triggers if kind == "char" and lit not in ("'", '"')})
    prefixes = sorted({lit for (kind, lit) in triggers if kind == "prefix"})
    ins = sorted(anywhere)
    atoms = [("empty",)] + [("in", c) for c in ins] + [("first", c) for c in firsts] + [("prefix", p) for p in prefixes]
    free = []

    def atom_of(test, val):
        """truth of a test of _escape under valuation `val` (dict atom -> bool); unknown predicates become free variables"""
        if isinstance(test, ast.BoolOp):
            vs = [atom_of(t, val) for t in test.values]
            return all(vs) if isinstance(test.op, ast.And) else any(vs)
        if isinstance(test, ast.UnaryOp) and isinstance(test.op, ast.Not):
            if isinstance(test.operand, ast.Name) and test.operand.id == pname:
                return val[("empty",)]
            return not atom_of(test.operand, val)
        if isinstance(test, ast.Compare) and len(test.ops) == 1:
            l, op, r = test.left, test.ops[0], test.comparators[0]
            neg = isinstance(op, (ast.NotIn, ast.NotEq))
            res = None
            if isinstance(op, (ast.In, ast.NotIn)) and isinstance(l, ast.Constant) and isinstance(r, ast.Name) and r.id == pname:
                res = val.get(("in", l.value))
                if res is None:
                    res = val.setdefault(("free", "in:" + repr(l.value)), None)
            elif isinstance(op, (ast.Eq, ast.NotEq)) and isinstance(l, ast.Call) and call_name(l) == "len" and isinstance(r, ast.Constant) \
                    and len(l.args) == 1 and isinstance(l.args[0], ast.Name) and l.args[0].id == pname:
                res = val[("empty",)] if r.value == 0 else None
            elif isinstance(l, ast.Subscript) and isinstance(l.value, ast.Name) and l.value.id == pname \
                    and isinstance(l.slice, ast.Constant) and l.slice.value == 0:
                try:
                    cs = ast.literal_eval(r)
                    cs = [cs] if isinstance(cs, str) else list(cs)
                except Exception:
                    cs = None
                if cs is not None and isinstance(op, (ast.In, ast.NotIn, ast.Eq, ast.NotEq)):
                    res = False
                    for c in cs:
                        v = val.get(("first", c))
                        if v is None:
                            v = val.setdefault(("free", "first:" + repr(c)), None)
                        res = res or bool(v)
            if res is None:
                key = ("free", ast.unparse(test))
                res = val.setdefault(key, None)
            return (not res) if neg else bool(res)
        if isinstance(test, ast.Call) and isinstance(test.func, ast.Attribute) and test.func.attr == "startswith" and test.args:
            base = test.func.value
            lowered = isinstance(base, ast.Call) and isinstance(base.func, ast.Attribute) and base.func.attr in ("lower", "casefold")
            if lowered:
                base = base.func.value
            try:
                ps = ast.literal_eval(test.args[0])
                ps = [ps] if isinstance(ps, str) else list(ps)
            except Exception:
                ps = None
            if isinstance(base, ast.Name) and base.id == pname and ps is not None:
                out = False
                for p_ in ps:
                    v = val.get(("prefix", p_))
                    if v is None or (not v and lowered):
                        # the reader-side predicate is false or unknown: the writer's (case-insensitive / other) test is free
                        v = bool(val.setdefault(("free", "prefix:" + p_), None)) or bool(v)
                    out = out or bool(v)
                return out
        key = ("free", ast.unparse(test))
        return bool(val.setdefault(key, None))

    def outcome(e, val):
        while isinstance(e, ast.IfExp):
            e = e.body if atom_of(e.test, val) else e.orelse
        if isinstance(e, ast.Call) and call_name(e) == "_multiline":
            return "text-field"
        if isinstance(e, ast.Name) and e.id == pname:
            return "bare"
        if isinstance(e, ast.Constant) and e.value in ("''", '""'):
            return "quoted-empty"
        for q in ("'", '"'):
            # the value itself, unchanged, between two quote characters
            if isinstance(e, ast.BinOp) and same_expr(e, f"{q!r} + {pname} + {q!r}"):
                return "quoted-" + q
            if isinstance(e, ast.JoinedStr) and len(e.values) == 3 and all(isinstance(c, ast.Constant) and c.value == q for c in (e.values[0], e.values[2])) \
                    and isinstance(e.values[1], ast.FormattedValue) and isinstance(e.values[1].value, ast.Name) and e.values[1].value.id == pname \
                    and e.values[1].conversion == -1 and e.values[1].format_spec is None:
                return "quoted-" + q
        return "other:" + ast.unparse(e)[:30]

    def consistent(val):
        if val[("empty",)]:
            return not any(v for k, v in val.items() if k != ("empty",) and k[0] != "free")
        fs = [c for c in firsts if val[("first", c)]]
        if len(fs) > 1:
            return False
        for c in fs:
            if ("in", c) in val and not val[("in", c)]:
                return False
        ps = [p_ for p_ in prefixes if val[("prefix", p_)]]
        if len(ps) > 1:
            return False
        for p_ in ps:
            if any(c != p_[0] for c in fs):
                return False
        return True

    results = []     # (valuation, outcome)
    for bits in itertools.product([False, True], repeat=len(atoms)):
        base = dict(zip(atoms, bits))
        if not consistent(base):
            continue
        # discover the free variables this valuation's path depends on, then enumerate them
        pending = [dict(base)]
        seen = set()
        while pending:
            val = pending.pop()
            out = outcome(sm.result, val)
            unset = [k for k, v in val.items() if k[0] == "free" and v is None]
            if unset:
                k = unset[0]
                for b in (False, True):
                    v2 = {kk: (vv if not (kk[0] == "free" and vv is None) else None) for kk, vv in val.items()}
                    v2[k] = b
                    key = tuple(sorted((str(a), str(bv)) for a, bv in v2.items()))
                    if key not in seen:
                        seen.add(key)
                        pending.append(v2)
                continue
            results.append((val, out))
    ctx.floor("escape-value-classes", len(results), 100)
    ctx.count("escape-value-classes", len(results))

    def show_val(val):
        return ", ".join((k[0] + " " + repr(k[1]) if len(k) > 1 else k[0]) for k, v in sorted(val.items(), key=str) if v and k[0] != "free") or "plain"

    def check(rule, construct, pred_val, good, reason, line):
        bad = [(v, o) for v, o in results if pred_val(v) and not good(o, v)]
        ctx.ob(rule, CIF, "_escape", construct, not bad,
               reason + (f" - e.g. a value that is [{show_val(bad[0][0])}] is written {bad[0][1]}" if bad else ""), line)

    for (kind, lit), sites in sorted(triggers.items()):
        if lit in ("'", '"'):
            continue
        readers = ",".join(sorted({fn for fn, _ in sites}))
        key = ("first", lit) if kind == "char" else ("prefix", lit)
        check("R1.line-start-quoted", f"{kind} {lit!r} (read by {readers})", lambda v, key=key: v.get(key), lambda o, v: o != "bare",
              f"the reader treats a line starting with {lit!r} specially ({readers}); _escape must not write such a value unquoted "
              "(in a looped category the first column starts the line)", sites[0][1].lineno)
    for ch in ins:
        check("R1.separator-quoted", f"{ch!r} in value", lambda v, ch=ch: v.get(("in", ch)), lambda o, v: o != "bare",
              f"the tokenizer splits on / interprets {ch!r}: a value containing it must not be written bare", esc.lineno)
    for q in ("'", '"'):
        if ("in", q) in atoms:
            check("R1.quote-char-absent", f"value containing {q!r} is not wrapped in {q!r}", lambda v, q=q: v.get(("in", q)),
                  lambda o, v, q=q: o != "quoted-" + q,
                  f"a value wrapped in {q!r} must not itself contain {q!r} (followed by a blank the token ends early)", esc.lineno)
    if ("in", "'") in atoms and ("in", '"') in atoms:
        check("R1.both-quotes-text-field", "both quote characters in value", lambda v: v.get(("in", "'")) and v.get(("in", '"')),
              lambda o, v: o == "text-field", "a value containing both quote characters must become a text field", esc.lineno)
    if ("in", "\n") in atoms:
        check("R1.branch-order", "line break in value -> text field", lambda v: v.get(("in", "\n")), lambda o, v: o == "text-field",
              "a value with a line break must become a text field whatever else it contains", esc.lineno)
    check("R1.value-verbatim", "every branch writes the value itself: bare, between two equal quote characters, or as a text field",
          lambda v: True, lambda o, v: not o.startswith("other:"),
          "_escape must write the value unchanged (bare, quoted or as a text field): anything else is not what the reader gives back", esc.lineno)
    check("R1.empty-quoted", "len(value) == 0", lambda v: v[("empty",)], lambda o, v: o in ("quoted-empty", "quoted-'", 'quoted-"'),
          "an empty value must be written as a quoted empty string", esc.lineno)


def serialized_key_rule(ctx, rule):
    """a container writes every element under the key it holds it by - also an element that is still in serialised form (put in as a
    dict, or never looked at since the file was read): the key is stored on every pass of the loop, whatever the kind of the element"""
    f = ctx.src(COMP).func("_HierarchicalContainer._serialize_elements")
    loops = [st for st in f.body if isinstance(st, ast.For)]
    ctx.need(len(loops) == 1, "the element loop of _serialize_elements")
    # (`if store_key_in is None: continue` in front of the store is the same test written as a guard clause)
    from ..normalize import _dissolve_continue
    keyed = [st for st in _dissolve_continue(list(loops[0].body)) if isinstance(st, ast.If) and same_expr(st.test, "store_key_in is not None")
             and any(isinstance(x, ast.Assign) and has_code(x, "serialized_element[store_key_in] = key") for x in st.body)]
    ctx.ob(rule, COMP, "_HierarchicalContainer._serialize_elements", "serialized_element[store_key_in] = key for every element",
           len(keyed) == 1,
           "an element held in serialised form keeps the name it was serialised with: put under another key (or taken from another file) "
           "it is written under its old name, or under none", f.lineno)


def text_field_state_rule(ctx, rule):
    """`_to_single` joins the lines of a ';' text field: whether a line that starts with ';' OPENS or CLOSES a field is decided by the
    state (is a field open?), never by what else the line holds - a value that starts with a line break is written as a bare ';'
    line and opens its field all the same.  By ways through the loop: a ';' line is selected by the open / not-open flag alone and flips it"""
    from .. import machine
    from ..exprnorm import canon as _canon
    f = ctx.src(CIF).func("_to_single")
    lps = [st for st in f.body if isinstance(st, ast.For)]
    ctx.need(len(lps) == 1 and isinstance(lps[0].target, ast.Name), "the line loop of _to_single")
    lp = lps[0]
    line = lp.target.id
    flags = {st.targets[0].id for st in ast.walk(lp) if isinstance(st, ast.Assign) and isinstance(st.targets[0], ast.Name)
             and isinstance(st.value, ast.Constant) and isinstance(st.value.value, bool)}
    ctx.need(len(flags) == 1, "the open-field flag of _to_single")
    flag = next(iter(flags))
    semi = {repr(_canon(ast.parse(t_, mode="eval").body)) for t_ in (f"{line}[0] == ';'", f"{line}.startswith(';')", f"{line}[:1] == ';'")}
    k_open, k_closed = repr(_canon(ast.parse(flag, mode="eval").body)), repr(_canon(ast.parse(f"not {flag}", mode="eval").body))
    bad, n_semi = [], 0
    for w in machine.ways(lp.body, machine.assigned_names(lp), ("append",)):
        if not (w.conds & semi):
            if any(u.startswith(f"{flag} = ") for u in w.updates):
                bad.append("the flag changes on a line that does not start with ';'")
            continue
        n_semi += 1
        rest = w.conds - semi
        if rest == {k_closed}:
            want = f"{flag} = True"
        elif rest == {k_open}:
            want = f"{flag} = False"
        else:
            bad.append(f"a ';' line is also selected by {sorted(rest - {k_open, k_closed}) or 'nothing but its first character'}")
            continue
        if want not in w.updates:
            bad.append(f"a ';' line under `{'not ' if rest == {k_closed} else ''}{flag}` does not set `{want}`")
    ctx.need(n_semi >= 2 or bad, "the ';' ways of _to_single")
    ctx.ob(rule, CIF, "_to_single", f"a ';' line opens a field when none is open and closes the open one ({n_semi} ways)", not bad,
           "; ".join(bad) + ": a text field whose first or last line looks unusual (a value that starts with a line break gives a bare ';') is cut "
           "at the wrong line", lp.lineno)


def single_row_cursor_rule(ctx, rule):
    """`_deserialize_single` walks the lines of a single-row category with a cursor: a way through the loop that also reads the NEXT line (the
    value of the item stands on a line of its own) moves the cursor by two, every other way that stays in the loop by one - and every way
    that stays stores an item (otherwise a line is parsed twice, or skipped)"""
    from .. import machine
    f = ctx.src(CIF).func("CIFCategory._deserialize_single")
    lps = [st for st in f.body if isinstance(st, ast.While)]
    ctx.need(len(lps) == 1, "the cursor loop of _deserialize_single")
    lp = lps[0]
    cur = [x.id for x in ast.walk(lp.test) if isinstance(x, ast.Name) and x.id in machine.assigned_names(lp)]
    ctx.need(len(cur) == 1, "the cursor of _deserialize_single")
    cur = cur[0]
    bad, n_ways = [], 0
    for w in machine.ways(lp.body, machine.assigned_names(lp)):
        if w.exit is not None:
            continue
        n_ways += 1
        adv = [u for u in w.updates if u.startswith(f"{cur} += ") or u.startswith(f"{cur} = ")]
        looks_ahead = any(f"{cur} + 1" in u for u in w.updates if u not in adv)
        want = f"{cur} += {2 if looks_ahead else 1}"
        if adv != [want]:
            bad.append(f"a way that {'also reads the next line' if looks_ahead else 'reads one line'} moves the cursor by {adv or 'nothing'}")
    ctx.need(n_ways >= 2, "the ways of _deserialize_single that stay in the loop")
    ctx.ob(rule, CIF, "CIFCategory._deserialize_single", f"{n_ways} ways stay in the loop: cursor += lines read", not bad,
           "; ".join(bad) + ": the next item is parsed from the wrong line", lp.lineno)


def write_branches_agree_rule(ctx, rule):
    """`write(path)` and `write(file object)` put the same text (the same bytes) out: every `.write(..)` of the method is handed the same
    expression, and nothing is written by another call (`writelines(self.lines)` joins without line breaks - and `lines` is not what
    `serialize()` gives)"""
    for rel, q in ((CIF, "CIFFile.write"), (BCIF, "BinaryCIFFile.write")):
        f = ctx.src(rel).func(q)
        outs = [c for c in ast.walk(f) if isinstance(c, ast.Call) and isinstance(c.func, ast.Attribute) and c.func.attr in ("write", "writelines", "write_text", "write_bytes")
                and not (isinstance(c.func.value, ast.Name) and c.func.value.id in ("self", "super"))]
        ctx.need(len(outs) >= 1, f"the output call(s) of {q}")
        from ..exprnorm import canon as _canon
        forms = {(c.func.attr, repr(_canon(c.args[0])) if len(c.args) == 1 else "?") for c in outs}
        ctx.ob(rule, rel, q, f"{len(outs)} output call(s), {len(forms)} form(s)", len(forms) == 1 and next(iter(forms))[0] == "write",
               f"the branches of {q} (path / file object) write different things: {sorted(forms)}", f.lineno)


def run(ctx):
    write_branches_agree_rule(ctx, "R2.write-branches-agree")
    single_row_cursor_rule(ctx, "R1.single-row-cursor")
    text_field_state_rule(ctx, "R1.text-field-state")
    serialized_key_rule(ctx, "R2.element-written-under-its-key")
    # the text flavour is read from and written to text streams, the binary flavour to binary ones - wrappers included
    from .C12 import file_mode_rules
    file_mode_rules(ctx, "R2")
    # the functions that read a parsed file (get_sequence, get_structure, ..) leave its string tables as they are: an array handed out by
    # as_array(str) may be the column's own data
    from ..lints import caller_arguments_untouched
    caller_arguments_untouched(ctx, "structure/io/pdbx/convert.py", "R2.reading-leaves-the-file",
                               {("set_structure", "pdbx_file"): "the file is what set_structure fills",
                                ("set_component", "pdbx_file"): "the file is what set_component fills"}, 3)
    from ..lints import constructors_leave_arguments
    for rel_ in (CIF, BCIF, COMP):
        constructors_leave_arguments(ctx, rel_, "R2.constructor-leaves-arguments")
    from ..lints import dtype_family_tests
    # how a column is written (text / number formatting) is decided by its dtype family: all widths of it
    dtype_family_tests(ctx, CIF, "R1.dtype-family-test", 3)
    dtype_family_tests(ctx, BCIF, "R2.dtype-family-test", 2)
    s = ctx.src(CIF)
    # ---------------- R1a line-start triggers vs _escape -----------------
    triggers = {}
    for fn in LINE_READERS:
        f = s.func(fn)
        for kind, lit, node in first_char_tests(f):
            triggers.setdefault((kind, lit), []).append((fn, node))
    ctx.floor("line-start-triggers", len(triggers), 5)
    esc = s.func("_escape")
    pname = param_names(esc)[0]
    # the first column of a looped row starts the line: the joined row is stripped
    looped = s.func("CIFCategory._serialize_looped")
    ctx.need(any((call_name(c) or "") == "_escape" for c in calls(looped)),
             "_serialize_looped escapes elements with _escape")
    # ---------------- R1c anywhere triggers ------------------------------
    split = s.func("_split_one_line")
    anywhere = set()
    for n in walk_local(split):
        if isinstance(n, ast.Call) and isinstance(n.func, ast.Attribute):
            if n.func.attr == "split" and not n.args:
                anywhere |= {" ", "\t", "\n"}
            if n.func.attr in ("partition", "split") and n.args and isinstance(n.args[0], ast.Constant):
                anywhere.add(n.args[0].value)
        if isinstance(n, ast.Constant) and n.value in ("'", '"'):
            anywhere.add(n.value)
    ctx.floor("anywhere-triggers", len(anywhere), 5)
    # a quoted token ends at the quote character that opened it - the other quote character is ordinary text inside it
    # (_escape wraps a value containing ' in " and the other way round)
    qbranches = [st for st in walk_local(split) if isinstance(st, ast.If) and isinstance(st.test, ast.Call)
                 and isinstance(st.test.func, ast.Attribute) and st.test.func.attr == "startswith" and st.test.args
                 and {c.value for c in ast.walk(st.test.args[0]) if isinstance(c, ast.Constant)} == {"'", '"'}]
    ctx.need(len(qbranches) == 1, "the branch of _split_one_line that handles a token starting with a quote")
    qb = qbranches[0]
    word = qb.test.func.value
    opener = [st.targets[0].id for st in qb.body if isinstance(st, ast.Assign) and isinstance(st.targets[0], ast.Name)
              and isinstance(st.value, ast.Subscript) and ast.dump(st.value.value) == ast.dump(word)
              and isinstance(st.value.slice, ast.Constant) and st.value.slice.value == 0]
    ctx.need(len(opener) == 1, "the opening quote character is taken from the first character of the token")
    closers = [c for st in qb.body for c in ast.walk(st) if isinstance(c, ast.Call) and isinstance(c.func, ast.Attribute)
               and c.func.attr in ("endswith", "partition", "split", "rpartition", "find", "index", "rfind") and c.args]
    ctx.floor("closing-quote-tests", len(closers), 2)
    for c in closers:
        ctx.ob("R1.closing-quote-is-opening-quote", CIF, "_split_one_line", ast.unparse(c)[:60],
               isinstance(c.args[0], ast.Name) and c.args[0].id == opener[0] and len(c.args) == 1,
               f"a quoted token must be closed by the character that opened it (`{opener[0]}`), the other quote character may occur inside "
               "(5\" end, O5' atom)", c.lineno)
    escape_decision_table(ctx, esc, pname, triggers, anywhere)
    # mask tokens: written by as_array/as_item, inferred by CIFColumn.__init__
    col_init = s.func("CIFColumn.__init__")
    inferred = {c.value for c in ast.walk(col_init) if isinstance(c, ast.Constant) and c.value in (".", "?")}
    for meth in ("CIFColumn.as_item", "CIFColumn.as_array"):
        f = s.func(meth)
        written = {c.value for c in ast.walk(f) if isinstance(c, ast.Constant) and c.value in (".", "?")}
        ctx.ob("R1.mask-tokens", CIF, meth, "'.'/'?'", written == inferred == {".", "?"},
               f"mask tokens written {sorted(written)} differ from the tokens the reader infers "
               f"{sorted(inferred)}", f.lineno)
    # pairing of token and mask value
    pairs = {}
    for st in stmts(col_init):
        if isinstance(st, ast.Assign) and isinstance(st.targets[0], ast.Subscript):
            tok = [c.value for c in ast.walk(st.targets[0]) if isinstance(c, ast.Constant) and c.value in (".", "?")]
            val = dotted(st.value)
            if tok and val:
                pairs[tok[0]] = val.split(".")[-1]
    ctx.ob("R1.mask-pairing", CIF, "CIFColumn.__init__", str(sorted(pairs.items())),
           pairs == {".": "INAPPLICABLE", "?": "MISSING"},
           "'.' must infer INAPPLICABLE and '?' MISSING", col_init.lineno)
    for meth in ("CIFColumn.as_item", "CIFColumn.as_array"):
        f = s.func(meth)
        got = {}
        # as_array, however the tokens reach the stores: the function composed with masked_value fixed to None (the default: write
        # the CIF tokens) contains  __set__(array, [mask == MaskValue.X], 'tok')
        sm_pe = summarize(f, env0={"masked_value": ast.Constant(None)})
        terms = [sm_pe.result] + list(sm_pe.env.values()) if not sm_pe.unsupported else []
        for t_ in terms:
            for c_ in ast.walk(t_) if t_ is not None else []:
                if isinstance(c_, ast.Call) and call_name(c_) == "__set__" and len(c_.args) == 3 and isinstance(c_.args[2], ast.Constant) \
                        and c_.args[2].value in (".", "?"):
                    names = [d for d in (dotted(x) for x in ast.walk(c_.args[1])) if d and d.startswith("MaskValue.")]
                    if names:
                        got[c_.args[2].value] = names[0].split(".")[-1]
        for n in ast.walk(f):
            # as_array:  array[mask == MaskValue.X] = 'tok'
            if isinstance(n, ast.Assign) and isinstance(n.value, ast.Constant) and n.value.value in (".", "?"):
                names = [d for d in (dotted(x) for x in ast.walk(n.targets[0])) if d and d.startswith("MaskValue.")]
                if names:
                    got[n.value.value] = names[0].split(".")[-1]
            # as_item:  elif mask == MaskValue.X: return 'tok'
            if isinstance(n, ast.If):
                names = [d for d in (dotted(x) for x in ast.walk(n.test)) if d and d.startswith("MaskValue.")]
                rets = [r.value.value for r in n.body if isinstance(r, ast.Return)
                        and isinstance(r.value, ast.Constant) and r.value.value in (".", "?")]
                if names and rets:
                    got[rets[0]] = names[0].split(".")[-1]
        ctx.ob("R1.mask-pairing", CIF, meth, str(sorted(got.items())),
               got == {".": "INAPPLICABLE", "?": "MISSING"},
               "mask value written with the wrong token", f.lineno)

    # ---------------- R1b text fields are read verbatim --------------------
    for q in TEXT_SCANNERS:
        f = s.func(q)
        applied = sorted({(call_name(c) or "") for c in calls(f)} & TRIGGER_HELPERS)
        strips = any(isinstance(n, ast.Call) and isinstance(n.func, ast.Attribute)
                     and n.func.attr == "strip" for n in walk_local(f))
        semicolon_aware = any(
            isinstance(n, ast.Constant) and n.value == ";" for n in walk_local(f)
        )
        # a scanner may delegate to _to_single *before* applying triggers
        order_ok = False
        cs = sorted(calls(f), key=lambda c: (c.lineno, c.col_offset))
        names = [call_name(c) or "" for c in cs]
        if "_to_single" in names:
            first_trig = min([i for i, nme in enumerate(names) if nme in TRIGGER_HELPERS] or [10**9])
            order_ok = names.index("_to_single") < first_trig
        ctx.ob(
            "R1.text-field-verbatim", CIF, q,
            "line-start triggers applied to lines of ';' text fields: " + ",".join(applied)
            + (",strip" if strips else ""),
            (not applied and not strips) or semicolon_aware or order_ok,
            "the scanner applies " + ", ".join(applied) + (" and strip()" if strips else "")
            + " to every raw line without tracking ';' text fields: lines of a multi-line value "
            "that start with '#', '_', 'loop_', 'data_' or are blank/indented are dropped, "
            "altered or split the category/block",
            f.lineno,
        )
    ml = s.func("_multiline")
    refuses = any(isinstance(n, ast.Raise) for n in walk_local(ml)) or any(
        isinstance(n, ast.Constant) and n.value == "\n;" and isinstance(getattr(n, "ctx", None), type(None))
        and False for n in walk_local(ml)
    )
    tests_term = any(
        isinstance(n, ast.Compare) and any(isinstance(c, ast.Constant) and c.value == "\n;" for c in ast.walk(n))
        for n in walk_local(ml)
    )
    ctx.ob(
        "R1.text-field-terminator", CIF, "_multiline", "value containing a line that starts with ';'",
        refuses and tests_term or any(
            isinstance(n, ast.Call) and isinstance(n.func, ast.Attribute) and n.func.attr == "replace"
            for n in walk_local(ml)),
        "a line of the value starting with ';' ends the text field early when read back; "
        "_multiline neither refuses nor escapes it",
        ml.lineno,
    )

    # text-field delimiters: ';' opens at a line start and the closing ';'
    # is alone on its line (the reader ignores the rest of that line)
    rets = [n for n in walk_local(ml) if isinstance(n, ast.Return) and n.value is not None]
    ctx.need(rets, "_multiline returns")
    for r in rets:
        parts = []
        def flat(e):
            if isinstance(e, ast.BinOp) and isinstance(e.op, ast.Add):
                flat(e.left); flat(e.right)
            elif isinstance(e, ast.JoinedStr):
                for v in e.values:
                    parts.append(v.value if isinstance(v, ast.Constant) else None)
            else:
                parts.append(e.value if isinstance(e, ast.Constant) and isinstance(e.value, str) else None)
        flat(r.value)
        pre = parts[0] if parts and isinstance(parts[0], str) else ""
        suf = parts[-1] if len(parts) > 1 and isinstance(parts[-1], str) else ""
        ctx.ob("R1.text-field-delimiters", CIF, "_multiline", f"prefix {pre!r} suffix {suf!r}",
               pre.startswith("\n") and pre.endswith(";") and pre.strip() == ";"
               and suf.startswith("\n;") and suf.endswith("\n") and suf.strip() == ";",
               "a text field must open with ';' at a line start and close with ';' alone on its "
               "line: the reader drops whatever follows the closing ';' on the same line (next "
               "cell of a looped row)", r.lineno)

    # ---------------- R2 / R3 mapping protocol ---------------------------
    idx = ClassIndex(ctx, [CIF, BCIF, COMP])
    containers = [
        n for n, c in idx.classes.items()
        if "MutableMapping" in c.bases or any(
            "MutableMapping" in idx.classes[b].bases for b in idx.mro(n)[1:] if b in idx.classes
        )
    ]
    ctx.floor("containers", len(containers), 7)
    for cls in sorted(containers):
        ci = idx.get(cls)
        backing = {}
        transforms = {}
        for d in DUNDERS:
            owner, f = idx.resolve(cls, d)
            # collections.abc.MutableMapping supplies __contains__ (and __eq__, keys, ...) from the five abstract methods
            ctx.ob("R2.dunder-defined", ci.rel, f"{cls}.{d}", d, f is not None or d in ("__contains__",),
                   f"mutable-mapping container {cls} has no {d}",
                   ci.node.lineno, nontrivial=False)
            if f is None:
                continue
            if owner.name != cls:
                continue  # inherited: checked on the owner
            supers = [c for c in calls(f) if (call_name(c) or "").startswith("super().__")]
            for c in supers:
                target = call_name(c).split(".")[-1]
                ctx.ob(
                    "R2.super-same-dunder", ci.rel, f"{cls}.{d}", c,
                    target == d,
                    f"{cls}.{d} delegates to super().{target} instead of super().{d}",
                    c.lineno,
                )
                if target == d:
                    ctx.ob(
                        "R2.super-arity", ci.rel, f"{cls}.{d}", c,
                        len(c.args) == ARITY[d] and not c.keywords,
                        f"super().{d} called with {len(c.args)} arguments, the protocol takes {ARITY[d]}",
                        c.lineno,
                    )
                    if ARITY[d] >= 1 and c.args and not (
                        isinstance(c.args[0], ast.Name) and c.args[0].id == param_names(f)[1]
                    ):
                        transforms[d] = ast.unparse(c.args[0])
            if not supers:
                fields = sorted({
                    n.attr for n in walk_local(f)
                    if isinstance(n, ast.Attribute) and isinstance(n.value, ast.Name)
                    and n.value.id == "self" and n.attr.startswith("_") and not n.attr.startswith("__")
                    and n.attr not in ("_row_count",)
                })
                backing[d] = fields
        if backing:
            allf = {tuple(v) for v in backing.values()}
            common = set.intersection(*(set(v) for v in backing.values()))
            ctx.ob(
                "R2.one-backing-field", ci.rel, cls, str(sorted(backing.items())),
                len(common) >= 1,
                f"the mapping dunders of {cls} do not share one backing field: {backing}",
                ci.node.lineno,
            )
        # key codec
        keyed = {d: t for d, t in transforms.items()}
        if keyed:
            key_param = {}
            forms = set()
            for d, t in keyed.items():
                f = ci.methods[d]
                kp = param_names(f)[1]
                forms.add(t.replace(kp, "KEY"))
            ctx.ob("R3.key-transform-consistent", ci.rel, cls, str(sorted(forms)),
                   len(forms) == 1,
                   f"dunders of {cls} transform the key differently: {sorted(keyed.items())}",
                   ci.node.lineno)
            missing = [d for d in ("__getitem__", "__setitem__", "__delitem__", "__contains__")
                       if d not in keyed and d in ci.methods or (d not in ci.methods and idx.resolve(cls, d)[1] is not None and keyed)]
            missing = [d for d in ("__getitem__", "__setitem__", "__delitem__", "__contains__") if d not in keyed]
            ctx.ob("R3.key-transform-everywhere", ci.rel, cls,
                   "keyed dunders: " + ",".join(sorted(keyed)), not missing,
                   f"{cls} prefixes the key in {sorted(keyed)} but not in {missing}",
                   ci.node.lineno)
    # lazy containers: the parsed element is stored back, equality goes
    # through __getitem__ (so that parsed and unparsed states compare equal)
    from .. import lazy
    n_lazy = 0
    for cls in sorted(containers):
        ci = idx.get(cls)
        f = ci.methods.get("__getitem__")
        if f is None:
            continue
        des = [c for c in calls(f) if isinstance(c.func, ast.Attribute) and c.func.attr == "deserialize"]
        if not des:
            continue
        n_lazy += 1
        lazy.check_getitem_stores(ctx, "R2.lazy-parse-stored", ci.rel, cls, f)
        lazy.check_missing_key_error(ctx, "R2.missing-key-is-keyerror", ci.rel, cls, f)
        owner, eq = idx.resolve(cls, "__eq__")
        if eq is not None and owner.name == cls:
            lazy.check_eq_through_getitem(ctx, "R2.eq-through-getitem", ci.rel, cls, eq)
            lazy.check_eq_key_sets(ctx, "R2.eq-key-sets", ci.rel, cls, eq)
    ctx.floor("lazy-containers", n_lazy, 3)
    # the leaves of the hierarchy are value objects: equality looks at everything the constructor stores (data AND mask, array AND encoding)
    from ..lints import equality_covers_state
    equality_covers_state(ctx, CIF, "R2.equality-covers-state", ("CIFData", "CIFColumn"))
    equality_covers_state(ctx, BCIF, "R2.equality-covers-state", ("BinaryCIFData", "BinaryCIFColumn"))
    # a category is a mapping of columns: both key sets, every column through the lookup
    cat_eq = ctx.src(CIF).func("CIFCategory.__eq__")
    lazy.check_eq_key_sets(ctx, "R2.eq-key-sets", CIF, "CIFCategory", cat_eq)
    lazy.check_eq_through_getitem(ctx, "R2.eq-through-getitem", CIF, "CIFCategory", cat_eq)
    # a refused change leaves the container as it was: the refusal (a `raise` of the method itself included) comes before the first
    # in-place change of the backing store
    from ..lints import raising_functions, validation_before_mutation
    _raising = raising_functions(ctx, [CIF, BCIF, COMP])
    for rel_ in (CIF, BCIF, COMP):
        validation_before_mutation(ctx, rel_, "R2.refusal-leaves-container-intact", _raising,
                                   method_names=("__setitem__", "__delitem__", "pop", "popitem", "update", "clear"))

    # lstrip used to undo a prefix
    n_strip = 0
    for rel in (CIF, BCIF, COMP):
        src = ctx.src(rel)
        for qual, f in src.funcs.items():
            for n in walk_local(f):
                if (
                    isinstance(n, ast.Call) and isinstance(n.func, ast.Attribute)
                    and n.func.attr in ("lstrip", "rstrip", "strip")
                    and n.args and isinstance(n.args[0], ast.Constant)
                    and isinstance(n.args[0].value, str) and n.args[0].value.strip() != ""
                ):
                    n_strip += 1
                    ctx.ob(
                        "R3.prefix-removed-by-strip", rel, qual, n, False,
                        f"{n.func.attr}({n.args[0].value!r}) removes *every* leading "
                        f"{n.args[0].value!r}, not the one prefix that was added: a name that "
                        "itself starts with it comes back shortened",
                        n.lineno,
                    )
    ctx.count("strip-with-chars", n_strip)
    # positive control for the expected-zero rule
    probe = ast.parse("def f(k):\n    return k.lstrip('_')\n").body[0]
    hit = [n for n in ast.walk(probe) if isinstance(n, ast.Call) and isinstance(n.func, ast.Attribute)
           and n.func.attr == "lstrip" and n.args]
    ctx.need(len(hit) == 1, "positive control of R3.prefix-removed-by-strip")
    # prefix added in __init__ and removed in __iter__/deserialize by slicing
    bs = ctx.src(BCIF)
    blk = bs.methods("BinaryCIFBlock")
    adds = [n for n in ast.walk(blk["__init__"]) if isinstance(n, ast.BinOp) and isinstance(n.op, ast.Add)
            and isinstance(n.left, ast.Constant) and n.left.value == "_"]
    ctx.need(adds, "BinaryCIFBlock.__init__ prefixes names with '_'")
    for m in ("__iter__", "deserialize"):
        f = blk[m]
        undo = [
            n for n in ast.walk(f)
            if (isinstance(n, ast.Subscript) and isinstance(n.slice, ast.Slice)
                and isinstance(n.slice.lower, ast.Constant) and n.slice.lower.value == 1 and n.slice.upper is None)
            or (isinstance(n, ast.Call) and isinstance(n.func, ast.Attribute)
                and n.func.attr == "removeprefix" and n.args
                and isinstance(n.args[0], ast.Constant) and n.args[0].value == "_")
        ]
        ctx.ob("R3.prefix-undone-exactly", BCIF, f"BinaryCIFBlock.{m}", "'_' + name  <->  name[1:]",
               len(undo) >= 1,
               "the '_' prefix added to category names is not removed by slicing/removeprefix",
               f.lineno)

    # ---------------- R4 derived row count -------------------------------
    for rel, cls, store in ((CIF, "CIFCategory", "_columns"), (BCIF, "BinaryCIFCategory", "_elements")):
        ci = idx.get(cls)
        ser = ci.methods.get("serialize")
        ctx.need(ser is not None and any(
            isinstance(n, ast.Attribute) and n.attr == "_row_count" for n in ast.walk(ser)),
            f"{cls}.serialize uses the cached _row_count")
        # only __setitem__ can make the cache stale: deleting a column never
        # changes the row count of the remaining ones
        for d in ("__setitem__",):
            owner, f = idx.resolve(cls, d)
            ctx.need(f is not None, f"{cls}.{d}")
            resets = owner.name == cls and any(
                a == "_row_count" for a, st, t in attr_writes(f)
            )
            if resets:
                # ... on every path to the store: the reset must dominate the delegating call
                g_ = CFG(f, lambda st_: isinstance(st_, ast.Raise))
                dom_ = g_.dominators()
                rs = [n_.id for n_ in g_.nodes if n_.kind == "stmt" and isinstance(n_.ast, ast.Assign)
                      and any(isinstance(t_, ast.Attribute) and t_.attr == "_row_count" for t_ in n_.ast.targets)]
                stores = [n_.id for n_ in g_.nodes if n_.kind == "stmt" and n_.ast is not None and any(
                    isinstance(c_, ast.Call) and (call_name(c_) or "").endswith("__setitem__") for c_ in ast.walk(n_.ast))
                    or (n_.kind == "stmt" and isinstance(n_.ast, ast.Assign) and any(
                        isinstance(t_, ast.Subscript) and isinstance(t_.value, ast.Attribute) for t_ in n_.ast.targets))]
                ctx.need(stores, f"{cls}.{d}: the statement that stores the column")
                resets = all(any(r in dom_.get(s_, set()) for r in rs) or g_.path(s_, g_.exit.id, blocked=set(rs)) is None
                             for s_ in stores)
            ctx.ob(
                "R4.row-count-invalidated", rel, f"{cls}.{d}", "self._row_count reset",
                resets,
                f"{cls}.{d} (implemented in {owner.name}) changes the columns but keeps the cached "
                "_row_count: after row_count was read (or the category was parsed from a file), "
                "replacing the columns by longer ones makes serialize() fail",
                f.lineno,
            )
        # serialize must not trust a stale cache silently: uses it only for comparison
    # _serialize_looped strips the row (first column at line start) - frozen fact used by R1
    ctx.ob("R1.first-column-at-line-start", CIF, "CIFCategory._serialize_looped",
           "value_lines[i].strip()", any(
               isinstance(n, ast.Call) and isinstance(n.func, ast.Attribute) and n.func.attr in ("strip", "ljust")
               for n in walk_local(looped)), "layout of looped rows not recognised", looped.lineno,
           nontrivial=False)


MUTANTS = [
    Mutant("single-row-cursor-short", CIF, "                    raise DeserializationError(f\"Failed to parse line '{line}'\")\n                line_i += 2\n",
           "                    raise DeserializationError(f\"Failed to parse line '{line}'\")\n                line_i += 1\n", "R1.single-row-cursor"),
    Mutant("text-field-opened-by-content", CIF, "            if not in_multi_line:\n                # Start of multiline value", "            if line != \";\":\n                # Start of multiline value", "R1.text-field-state"),
    Mutant("column-eq-ignores-mask", CIF, "        if self._mask != other._mask:\n            return False\n        return True\n\n\nclass CIFCategory", "        return True\n\n\nclass CIFCategory", "R2.equality-covers-state"),
    Mutant("bcif-data-eq-ignores-encoding", BCIF, "        if self._encoding != other._encoding:\n            return False\n", "", "R2.equality-covers-state"),
    Mutant("bcif-column-eq-flipped", BCIF, "        if self._mask != other._mask:\n            return False\n        return True\n\n\nclass BinaryCIFCategory", "        if self._mask == other._mask:\n            return False\n        return True\n\n\nclass BinaryCIFCategory", "R2.equality-covers-state"),
    Mutant("category-eq-own-keys-only", CIF, "        # Row count can be omitted here, as it is based on the columns\n        if not isinstance(other, type(self)):\n            return False\n        if set(self.keys()) != set(other.keys()):\n            return False\n", "        if not isinstance(other, type(self)):\n            return False\n", "R2.eq-key-sets"),
    Mutant("container-eq-own-keys-only", COMP, "        if set(self.keys()) != set(other.keys()):\n            return False\n", "", "R2.eq-key-sets"),
    Mutant("category-init-coerces-in-place", CIF, "            columns = {\n                key: CIFColumn(col) if not isinstance(col, CIFColumn) else col\n                for key, col in columns.items()\n            }\n",
           "            for key, col in columns.items():\n                if not isinstance(col, CIFColumn):\n                    columns[key] = CIFColumn(col)\n", "R2.constructor-leaves-arguments"),
    Mutant("token-closed-by-any-quote", CIF, "                if word.endswith(separator) and len(word) > 1:\n",
           "                if word.endswith((\"'\", '\"')) and len(word) > 1:\n", "R1.closing-quote-is-opening-quote"),
    Mutant("token-split-on-single-quote", CIF, "                word, _, line = stripped_line[1:].partition(separator)\n",
           "                word, _, line = stripped_line[1:].partition(\"'\")\n", "R1.closing-quote-is-opening-quote"),
    Mutant("row-count-reset-conditional", BCIF, "        # The cached row count may become invalid by the new column\n        self._row_count = None\n        super().__setitem__(key, element)", "            self._row_count = None\n        super().__setitem__(key, element)", "R4.row-count-invalidated"),
    Mutant("escape-hash-dropped", CIF,
           'elif value[0] in ("_", "#", ";"):', 'elif value[0] in ("_", ";"):',
           "R1.line-start-quoted"),
    Mutant("escape-underscore-dropped", CIF,
           'elif value[0] in ("_", "#", ";"):', 'elif value[0] in ("#", ";"):',
           "R1.line-start-quoted"),
    Mutant("escape-loop-dropped", CIF,
           'value.lower().startswith(("data_", "loop_"))', 'value.lower().startswith(("data_",))',
           "R1.line-start-quoted"),
    Mutant("escape-first-char-before-quotes", CIF,
           """    elif "'" in value:
        return '"' + value + '"'
    elif '"' in value:
        return "'" + value + "'"
    elif value[0] in ("_", "#", ";"):
        # These characters have a special meaning at the start of a line
        return "'" + value + "'"
""", """    elif value[0] in ("_", "#", ";"):
        # These characters have a special meaning at the start of a line
        return "'" + value + "'"
    elif "'" in value:
        return '"' + value + '"'
    elif '"' in value:
        return "'" + value + "'"
""", "R1.quote-char-absent"),
    Mutant("multiline-no-final-newline", CIF, 'return "\\n;" + value + "\\n;\\n"', 'return "\\n;" + value + "\\n;"',
           "R1.text-field-delimiters"),
    Mutant("lazy-not-stored", CIF,
           "            self._categories[key] = category\n        return category",
           "        return category", "R2.lazy-parse-stored", "CIFBlock.__getitem__"),
    Mutant("eq-raw-elements", COMP,
           "            if self[key] != other[key]:", "            if self._elements[key] != other._elements[key]:",
           "R2.eq-through-getitem"),
    Mutant("regress-delitem", BCIF,
           '            return super().__delitem__("_" + key)', '            return super().__setitem__("_" + key)',
           "R2.super-same-dunder"),
    Mutant("regress-lstrip", BCIF, 'key.removeprefix("_")', 'key.lstrip("_")', "R3.prefix-removed-by-strip"),
    Mutant("regress-rowcount", CIF,
           "        self._row_count = None\n        self._columns[key] = column", "        self._columns[key] = column",
           "R4.row-count-invalidated"),
    Mutant("regress-rowcount-bcif", BCIF,
           "        self._row_count = None\n        super().__setitem__(key, element)", "        super().__setitem__(key, element)",
           "R4.row-count-invalidated"),
    Mutant("escape-tab-branch-removed", CIF,
           "    elif \"\\t\" in value:\n        return \"'\" + value + \"'\"\n", "",
           "R1.separator-quoted"),
    Mutant("escape-empty-branch-removed", CIF,
           "    elif len(value) == 0:\n        return \"''\"\n", "", "R1.empty-quoted"),
    Mutant("mask-token-swapped", CIF,
           "            mask[data.array == \".\"] = MaskValue.INAPPLICABLE\n            mask[data.array == \"?\"] = MaskValue.MISSING\n",
           "            mask[data.array == \".\"] = MaskValue.MISSING\n            mask[data.array == \"?\"] = MaskValue.INAPPLICABLE\n",
           "R1.mask-pairing"),
    Mutant("contains-wrong-dunder", BCIF,
           "        return super().__contains__(\"_\" + key)", "        return super().__getitem__(\"_\" + key)",
           "R2.super-same-dunder"),
    Mutant("contains-no-prefix", BCIF,
           "        return super().__contains__(\"_\" + key)", "        return super().__contains__(key)",
           "R3.key-transform-everywhere"),
    Mutant("contains-other-prefix", BCIF,
           "        return super().__contains__(\"_\" + key)", "        return super().__contains__(\"__\" + key)",
           "R3.key-transform-consistent"),
    Mutant("cif-contains-other-dict", CIF,
           "    def __contains__(self, key):\n        return key in self._columns",
           "    def __contains__(self, key):\n        return key in self.__dict__",
           "R2.one-backing-field") if False else
    Mutant("cifblock-len-other-field", CIF,
           "    def __len__(self):\n        return len(self._categories)",
           "    def __len__(self):\n        return len(self._name)",
           "R2.one-backing-field"),
    # ---- one seeded fault per remaining rule ----
    Mutant("escape-both-quotes-quoted", CIF,
           "        # If both quote types are present, you cannot use them for escaping\n        return _multiline(value)",
           "        # If both quote types are present, you cannot use them for escaping\n        return \"'\" + value + \"'\"",
           "R1.both-quotes-text-field"),
    Mutant("escape-both-quotes-branch-removed", CIF,
           "    elif \"'\" in value and '\"' in value:\n        # If both quote types are present, you cannot use them for escaping\n        return _multiline(value)\n",
           "", "R1.both-quotes-text-field"),
    Mutant("escape-both-quotes-after-single", CIF,
           """    elif "'" in value and '"' in value:
        # If both quote types are present, you cannot use them for escaping
        return _multiline(value)
    elif len(value) == 0:
        return "''"
    elif "'" in value:
        return '"' + value + '"'
    elif '"' in value:
        return "'" + value + "'"
""", """    elif len(value) == 0:
        return "''"
    elif "'" in value:
        return '"' + value + '"'
    elif '"' in value:
        return "'" + value + "'"
    elif "'" in value and '"' in value:
        # If both quote types are present, you cannot use them for escaping
        return _multiline(value)
""", "R1.both-quotes-text-field"),
    Mutant("escape-newline-after-single", CIF,
           """    if "\\n" in value:
        # A value with linebreaks must be represented as multiline value
        return _multiline(value)
    elif "'" in value and '"' in value:
        # If both quote types are present, you cannot use them for escaping
        return _multiline(value)
    elif len(value) == 0:
        return "''"
    elif "'" in value:
        return '"' + value + '"'
    elif '"' in value:
        return "'" + value + "'"
""", """    if "'" in value and '"' in value:
        # If both quote types are present, you cannot use them for escaping
        return _multiline(value)
    elif len(value) == 0:
        return "''"
    elif "'" in value:
        return '"' + value + '"'
    elif '"' in value:
        return "'" + value + "'"
    elif "\\n" in value:
        # A value with linebreaks must be represented as multiline value
        return _multiline(value)
""", "R1.branch-order"),
    Mutant("looped-row-right-aligned", CIF,
           "                value_lines[i] += array[i].ljust(column_n_chars[j])\n            # Remove trailing justification of last column\n"
           "            # and potential terminal newlines from multiline values\n            value_lines[i] = value_lines[i].strip()\n",
           "                value_lines[i] += array[i].rjust(column_n_chars[j])\n",
           "R1.first-column-at-line-start"),
    Mutant("as-item-missing-token", CIF,
           "        elif mask == MaskValue.MISSING:\n            return \"?\"", "        elif mask == MaskValue.MISSING:\n            return \".\"",
           "R1.mask-tokens", "CIFColumn.as_item"),
    Mutant("reader-missing-token-not-inferred", CIF,
           "            mask[data.array == \"?\"] = MaskValue.MISSING\n", "", "R1.mask-tokens"),
    # the terminator rule already fires on the unchanged tree (known finding, one obligation):
    # a break cannot add a finding, the repair twin shows that the rule follows the source
    Mutant("multiline-refuses-terminator", CIF,
           "    return \"\\n;\" + value + \"\\n;\\n\"",
           "    if \"\\n;\" in value:\n        raise ValueError(\"line starting with ';' in a text field\")\n    return \"\\n;\" + value + \"\\n;\\n\"",
           "R1.text-field-terminator", "_multiline", kind="repair"),
    Mutant("file-scanner-strips-lines", CIF,
           "        lines = text.splitlines()\n        block_starts = []",
           "        lines = [line.strip() for line in text.splitlines()]\n        block_starts = []",
           "R1.text-field-verbatim", "CIFFile.deserialize"),
    Mutant("hierarchical-delitem-removed", COMP,
           "    def __delitem__(self, key):\n        del self._elements[key]\n\n", "", "R2.dunder-defined"),
    Mutant("cifblock-len-removed", CIF,
           "    def __len__(self):\n        return len(self._categories)\n", "", "R2.dunder-defined", "CIFBlock.__len__"),
    Mutant("bcifblock-setitem-element-dropped", BCIF,
           "            return super().__setitem__(\"_\" + key, element)", "            return super().__setitem__(\"_\" + key)",
           "R2.super-arity"),
    Mutant("bcifblock-iter-prefix-kept", BCIF,
           "        return (key.removeprefix(\"_\") for key in super().__iter__())", "        return (key for key in super().__iter__())",
           "R3.prefix-undone-exactly", "BinaryCIFBlock.__iter__"),
    Mutant("bcifblock-deserialize-prefix-kept", BCIF,
           "                name.removeprefix(\"_\"): category\n", "                name: category\n",
           "R3.prefix-undone-exactly", "BinaryCIFBlock.deserialize"),
]
