import argparse
import os
import sys

from . import core


def main():
    ap = argparse.ArgumentParser(prog="sa")
    sub = ap.add_subparsers(dest="cmd", required=True)
    c = sub.add_parser("check")
    c.add_argument("prop")
    c.add_argument("--tier", default=os.environ.get("VERIF_TIER", "quick"),
                   choices=["quick", "thorough"])
    c.add_argument("--jobs", type=int, default=1)
    r = sub.add_parser("replay")
    r.add_argument("path")
    a = ap.parse_args()
    seed = int(os.environ.get("VERIF_SEED", "0") or 0)
    if a.cmd == "check":
        sys.exit(core.check(a.prop, a.tier, a.jobs, seed))
    else:
        sys.exit(core.replay(a.path))


if __name__ == "__main__":
    try:
        main()
    except SystemExit:
        raise
    except BaseException:
        import traceback

        traceback.print_exc()
        print("ANALYSIS-ERROR internal error")
        sys.exit(2)
