"""
A small evaluator for the class bodies that build lookup tables at import time (complement mapper, 3-letter/1-letter tables):
assignments of literals, `X = Ctor(args)` kept as tagged tuples, `for a, b in table.items():` / `for s in alphabet.get_symbols():`
with `xs.append(e)` and `d[k] = v` in the body.  Anything else raises `CannotEvaluate` (the rule that asked fails closed).
"""

import ast


class CannotEvaluate(Exception):
    pass


def evaluate_class_body(cls_node, outer=None):
    env = dict(outer or {})

    def ev(e):
        if isinstance(e, ast.Constant):
            return e.value
        if isinstance(e, ast.Name):
            if e.id in env:
                return env[e.id]
            raise CannotEvaluate(f"name {e.id}")
        if isinstance(e, (ast.List, ast.Tuple)):
            vals = [ev(x) for x in e.elts]
            return vals if isinstance(e, ast.List) else tuple(vals)
        if isinstance(e, ast.Dict):
            return {ev(k): ev(v) for k, v in zip(e.keys, e.values)}
        if isinstance(e, ast.Subscript):
            base, key = ev(e.value), ev(e.slice)
            try:
                return base[key]
            except Exception as ex:
                raise CannotEvaluate(f"lookup {ast.unparse(e)}: {ex}")
        if isinstance(e, ast.Attribute) and isinstance(e.value, ast.Name) and e.value.id == cls_node.name and e.attr in env:
            return env[e.attr]
        if isinstance(e, ast.Call):
            f = e.func
            if isinstance(f, ast.Attribute) and f.attr == "get_symbols" and not e.args:
                a = ev(f.value)
                if isinstance(a, tuple) and a and a[0] == "LetterAlphabet":
                    return list(a[1])
                raise CannotEvaluate("get_symbols of a non-alphabet")
            if isinstance(f, ast.Attribute) and f.attr in ("items", "keys", "values") and not e.args:
                d = ev(f.value)
                if isinstance(d, dict):
                    return list(getattr(d, f.attr)())
            if isinstance(f, ast.Name) and f.id[:1].isupper() and not e.keywords:
                return (f.id,) + tuple(ev(a) for a in e.args)
            if isinstance(f, ast.Name) and f.id in ("list", "tuple", "sorted", "len") and len(e.args) == 1:
                return {"list": list, "tuple": tuple, "sorted": sorted, "len": len}[f.id](ev(e.args[0]))
        raise CannotEvaluate(ast.unparse(e)[:60])

    def bind(t, v):
        if isinstance(t, ast.Name):
            env[t.id] = v
        elif isinstance(t, (ast.Tuple, ast.List)) and isinstance(v, (tuple, list)) and len(v) == len(t.elts):
            for a, b in zip(t.elts, v):
                bind(a, b)
        elif isinstance(t, ast.Subscript):
            d = ev(t.value)
            if not isinstance(d, (dict, list)):
                raise CannotEvaluate("store into a non-container")
            d[ev(t.slice)] = v
        else:
            raise CannotEvaluate(f"target {ast.unparse(t)}")

    def run(block):
        for st in block:
            if isinstance(st, (ast.FunctionDef, ast.AsyncFunctionDef, ast.ClassDef, ast.Pass)) or \
                    isinstance(st, ast.Expr) and isinstance(st.value, ast.Constant):
                continue
            if isinstance(st, ast.Assign):
                try:
                    v = ev(st.value)
                except CannotEvaluate:
                    for t in st.targets:
                        if isinstance(t, ast.Name):
                            env.pop(t.id, None)         # not needed unless somebody reads it
                    continue
                for t in st.targets:
                    bind(t, v)
            elif isinstance(st, ast.For) and not st.orelse:
                for item in ev(st.iter):
                    bind(st.target, item)
                    run(st.body)
            elif isinstance(st, ast.Expr) and isinstance(st.value, ast.Call) and isinstance(st.value.func, ast.Attribute) \
                    and st.value.func.attr == "append" and len(st.value.args) == 1:
                xs = ev(st.value.func.value)
                if not isinstance(xs, list):
                    raise CannotEvaluate("append to a non-list")
                xs.append(ev(st.value.args[0]))
            else:
                raise CannotEvaluate(f"statement {type(st).__name__} at line {getattr(st, 'lineno', '?')}")
    run(cls_node.body)
    return env
