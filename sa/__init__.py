"""Static analyser for the biotite verification properties (stdlib only)."""
