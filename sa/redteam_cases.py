"""Behaviour-changing edits found by the two red-team passes (redteam/A: undo-normalisers, redteam/B: expression layer;
the n.md files there give the failing input of each).  Every one of them was accepted by an earlier state of the
machinery; they are replayed as breaking variants in the thorough tier of their property (core.self_validate): a variant
that raises no new finding fails the run as ANALYSIS-ERROR."""

CASES = {
    'A1': ('C17', 'structure/residues.py', [
        ('np.where(residue_change_mask)[0] + 1',
         'np.where(residue_change_mask)[0] + 1.0'),
    ]),
    'A2': ('C14', 'structure/celllist.pyx', [
        ('        cdef int cell_r\n\n        cdef ptr[:,:,:] cells',
         '        cdef int cell_r\n        cdef int n_in_cell\n\n        cdef ptr[:,:,:] cells'),
        ('                                if (adj_k >= 0 and adj_k < cells.shape[2]):\n',
         '                                n_in_cell = cell_length[adj_i, adj_j, adj_k]\n                                if (adj_k >= 0 and adj_k < cells.shape[2]):\n'),
        ('length = cell_length[adj_i, adj_j, adj_k]',
         'length = n_in_cell'),
    ]),
    'A3': ('C14', 'structure/celllist.pyx', [
        ('                                    list_ptr = <int*>cells',
         '                                    adj_k = adj_k + cell_r\n                                    list_ptr = <int*>cells'),
    ]),
    'A3b': ('C14', 'structure/celllist.pyx', [
        ('                                    list_ptr = <int*>cells',
         '                                    self._get_cell_index(x, y, z + cell_r, &adj_i, &adj_j, &adj_k)\n                                    list_ptr = <int*>cells'),
    ]),
    'A4a': ('C17', 'structure/segments.py', [
        ('def get_segment_masks(starts, indices):',
         'def _as_index_array(indices):\n    indices = np.asarray(indices)\n\n\ndef get_segment_masks(starts, indices):'),
        ('    """\n    indices = np.asarray(indices)\n    length = starts[-1]\n    masks',
         '    """\n    _as_index_array(indices)\n    length = starts[-1]\n    masks'),
    ]),
    'A4b': ('C17', 'structure/segments.py', [
        ('def get_segment_positions(starts, indices):',
         'def _exclusive_stop(starts):\n    length = starts[-1]\n\n\ndef get_segment_positions(starts, indices):'),
        ('    length = starts[-1]\n    # Remove exclusive stop\n    starts = starts[:-1]\n\n    if (indices < 0).any():\n        raise ValueError("This function does not support negative indices")\n    if (indices >= length).any():\n        index = np.min(np.where(indices >= length)[0])\n        raise ValueError(\n            f"Index {index} is out of range for an atom array with length {length}"\n        )\n\n    return np.searchsorted',
         '    length = starts[-2]\n    _exclusive_stop(starts)\n    # Remove exclusive stop\n    starts = starts[:-1]\n\n    if (indices < 0).any():\n        raise ValueError("This function does not support negative indices")\n    if (indices >= length).any():\n        index = np.min(np.where(indices >= length)[0])\n        raise ValueError(\n            f"Index {index} is out of range for an atom array with length {length}"\n        )\n\n    return np.searchsorted'),
    ]),
    'A5': ('C05', 'structure/io/pdbx/compress.py', [
        ('import itertools\n',
         'import itertools\nimport sys\n'),
        ('def _compress_data(',
         '_FIXED_POINT_TYPE = np.int32\nif sys.maxsize > 2**32:\n    _FIXED_POINT_TYPE = np.int64\n\n\ndef _compress_data('),
        ('np.abs(array) * factor >= np.iinfo(np.int32).max',
         'np.abs(array) * factor >= np.iinfo(_FIXED_POINT_TYPE).max'),
    ]),
    'A6': ('C16', 'structure/superimpose.py', [
        ('        rotation_mat = _3d_identity(n_models, 4)\n',
         '        rotation_mat = center_translation_mat = target_translation_mat = _3d_identity(n_models, 4)\n'),
        ('        center_translation_mat = _3d_identity(n_models, 4)\n',
         ''),
        ('        target_translation_mat = _3d_identity(n_models, 4)\n',
         ''),
    ]),
    'A7': ('C16', 'structure/superimpose.py', [
        ('    v, s, w = np.linalg.svd(cov)\n',
         '    v, s, w = np.linalg.svd(cov)\n    product = v @ w\n'),
        ('    matrices = np.matmul(v, w)\n',
         '    matrices = product\n'),
    ]),
    'A8': ('C17', 'structure/residues.py', [
        ('    residue_change_mask = (\n        chain_id_changes | res_id_changes | ins_code_changes | res_name_changes\n    )\n',
         '    residue_change_mask = chain_id_changes\n    for changes in (\n        residue_change_mask | res_id_changes,\n        residue_change_mask | ins_code_changes,\n        residue_change_mask | res_name_changes,\n    ):\n        residue_change_mask = changes\n'),
    ]),
    'A9': ('C15', 'structure/transform.py', [
        ('        # Single value -> centered rotation does not change coordinates\n        return atoms.copy()',
         '        # Single value -> centered rotation does not change coordinates\n        return np.copy(atoms)'),
    ]),
    'A10': ('C05', 'structure/io/pdbx/compress.py', [
        ('import itertools\n',
         'import itertools\nimport sys\n'),
        ('def _compress_data(',
         'def _fixed_point_limit():\n    return np.iinfo(np.int64).max\n\n\nif sys.maxsize < 2**32:\n\n    def _fixed_point_limit():\n        return np.iinfo(np.int32).max\n\n\ndef _compress_data('),
        ('np.abs(array) * factor >= np.iinfo(np.int32).max',
         'np.abs(array) * factor >= _fixed_point_limit()'),
    ]),
    'A11': ('C03', 'sequence/alphabet.py', [
        ('        try:\n            return self._symbol_dict[symbol]\n        except KeyError:',
         '        code = self._symbol_dict[symbol]\n        try:\n            return code\n        except KeyError:'),
    ]),
    'A12': ('C17', 'structure/residues.py', [
        ('    residue_starts = np.where(residue_change_mask)[0] + 1\n',
         '    residue_starts = np.where(residue_change_mask)[0] + 1\n    np.add(residue_starts, 1, out=residue_starts)\n'),
    ]),
    'A12b': ('C17', 'structure/residues.py', [
        ('    residue_starts = np.where(residue_change_mask)[0] + 1\n',
         '    residue_starts = np.where(residue_change_mask)[0] + 1\n    np.add(residue_starts, 1, residue_starts)\n'),
    ]),
    'A13': ('C03', 'sequence/codon.py', [
        ('        codons = np.zeros(numbers.shape + (3,), dtype=int)\n        for n in (2, 1, 0):\n',
         '        codons = np.empty(numbers.shape + (3,), dtype=int)\n        for n in (2, 1, 0):\n            codons[..., -(n + 1)] = 0\n        for n in (0, 1, 2):\n'),
    ]),
    'A14': ('C03', 'sequence/codec.pyx', [
        ('    cdef uint8 symbol_code\n    for i in range(symbols.shape[0]):\n        symbol_code = sym_to_code[symbols[i]]\n',
         '    cdef uint8 symbol_code\n    cdef char symbol_byte\n    for i in range(symbols.shape[0]):\n        symbol_byte = symbols[i]\n        symbol_code = sym_to_code[symbol_byte]\n'),
    ]),
    'B1': ('C17', 'structure/residues.py', [
        ('    residue_starts = np.where(residue_change_mask)[0] + 1\n',
         "    residue_starts = np.where(residue_change_mask)[0] + 1\n    with np.errstate(all='ignore'):\n        if not add_exclusive_stop:\n            return residue_starts\n"),
    ]),
    'B1b': ('C06', 'structure/io/pdbx/cif.py', [
        ('def _escape(value):\n',
         'def _escape(value):\n    try:\n        float(value)\n        return value\n    except ValueError:\n        pass\n'),
    ]),
    'B1c': ('C17', 'structure/residues.py', [
        ('    residue_starts = np.where(residue_change_mask)[0] + 1\n',
         '    residue_starts = np.where(residue_change_mask)[0] + 1\n    for _ in range(1):\n        if not add_exclusive_stop:\n            return residue_starts\n'),
    ]),
    'B2': ('C17', 'structure/residues.py', [
        ('    residue_starts = np.where(residue_change_mask)[0] + 1\n',
         '    residue_starts = np.where(residue_change_mask)[0] + 1\n    np.add(residue_starts, 1, out=residue_starts)\n'),
    ]),
    'B2b': ('C07', 'structure/io/util.py', [
        ('    values = values.astype(int, copy=False)\n',
         '    values = values.astype(int, copy=False)\n    np.abs(values, out=values)\n'),
    ]),
    'B3': ('C17', 'structure/residues.py', [
        ('    residue_starts = np.where(residue_change_mask)[0] + 1\n',
         '    residue_starts = np.where(residue_change_mask)[0] + 1\n    if add_exclusive_stop:\n        if len(residue_starts) == 0:\n            return np.array([0])\n'),
    ]),
    'B4': ('C17', 'structure/segments.py', [
        ('    if (indices < 0).any():\n        raise ValueError("This function does not support negative indices")\n    if (indices >= length).any():\n        index = np.min(np.where(indices >= length)[0])\n        raise ValueError(\n            f"Index {index} is out of range for an atom array with length {length}"\n        )\n\n    return np.searchsorted',
         '    if (indices < 0).any():\n        if (indices >= -length).all():\n            return np.full(indices.shape, -1, dtype=int)\n        raise ValueError("This function does not support negative indices")\n    if (indices >= length).any():\n        index = np.min(np.where(indices >= length)[0])\n        raise ValueError(\n            f"Index {index} is out of range for an atom array with length {length}"\n        )\n\n    return np.searchsorted'),
    ]),
    'B5': ('C13', 'sequence/annotation.py', [
        ('                if loc.defect & Location.Defect.UNK_LOC:\n                    rev_loc_defect |= Location.Defect.UNK_LOC\n',
         '                if loc.defect & Location.Defect.UNK_LOC:\n                    rev_loc_defect |= Location.Defect.UNK_LOC\n                    continue\n'),
    ]),
    'B5b': ('C13', 'sequence/annotation.py', [
        ('                if loc.defect & Location.Defect.UNK_LOC:\n                    rev_loc_defect |= Location.Defect.UNK_LOC\n',
         '                if loc.defect & Location.Defect.UNK_LOC:\n                    rev_loc_defect |= Location.Defect.UNK_LOC\n                    break\n'),
    ]),
    'B6': ('C13', 'sequence/annotation.py', [
        ('                if loc.defect & Location.Defect.UNK_LOC:\n                    rev_loc_defect |= Location.Defect.UNK_LOC\n                if loc.defect & Location.Defect.BETWEEN:\n                    rev_loc_defect |= Location.Defect.BETWEEN\n\n                rev_locs.append(\n                    Location(\n                        rev_loc_first, rev_loc_last, rev_loc_strand, rev_loc_defect\n                    )\n                )\n',
         '                rev_locs.append(\n                    Location(\n                        rev_loc_first, rev_loc_last, rev_loc_strand, rev_loc_defect\n                    )\n                )\n                if loc.defect & Location.Defect.UNK_LOC:\n                    rev_loc_defect |= Location.Defect.UNK_LOC\n                if loc.defect & Location.Defect.BETWEEN:\n                    rev_loc_defect |= Location.Defect.BETWEEN\n'),
    ]),
    'B7': ('C13', 'sequence/annotation.py', [
        ('                if loc.defect & Location.Defect.UNK_LOC:\n',
         '                if min(feature.locs, key=lambda l: l.first).defect & Location.Defect.UNK_LOC:\n'),
    ]),
    'B8': ('C15', 'structure/transform.py', [
        ('        # Single value -> centered rotation does not change coordinates\n        return atoms.copy()',
         '        # Single value -> centered rotation does not change coordinates\n        return np.copy(atoms)'),
    ]),
    'B9': ('C16', 'structure/compare.py', [
        ('    dif = subject_coord - reference_coord\n',
         '    dif = subject_coord\n    dif -= reference_coord\n'),
    ]),
    'B9b': ('C16', 'structure/compare.py', [
        ('    dif = subject_coord - reference_coord\n    return vector_dot(dif, dif)',
         '    subject_coord -= reference_coord\n    return vector_dot(subject_coord, subject_coord)'),
    ]),
    'B10': ('C14', 'structure/celllist.pyx', [
        ('                                    list_ptr = <int*>cells[adj_i, adj_j, adj_k]\n',
         '                                    adj_k = adj_k + 1\n                                    list_ptr = <int*>cells[adj_i, adj_j, adj_k]\n'),
    ]),
    'B11': ('C19', 'sequence/phylo/upgma.pyx', [
        ('                if is_clustered_v[j]:\n                    continue\n',
         '                if is_clustered_v[j]:\n                    break\n'),
    ]),
    'B11b': ('C19', 'sequence/phylo/nj.pyx', [
        ('                if is_clustered_v[j]:\n                    continue\n                corr_distances_v[i,j]',
         '                if is_clustered_v[j]:\n                    break\n                corr_distances_v[i,j]'),
    ]),
    'B11c': ('C19', 'sequence/phylo/nj.pyx', [
        ('                if is_clustered_v[j]:\n                    continue\n                dist = corr',
         '                if is_clustered_v[j]:\n                    break\n                dist = corr'),
    ]),
    'B12': ('C06', 'structure/io/pdbx/cif.py', [
        ('    elif " " in value:\n        return "\'" + value + "\'"\n',
         '    elif " " in value:\n        return "\'" + value.strip() + "\'"\n'),
    ]),
    'B12b': ('C06', 'structure/io/pdbx/cif.py', [
        ('    elif len(value) == 0:\n',
         '    elif len(value.strip()) == 0:\n'),
    ]),
    # ---- red team C (redteam/C: normalisation / canonicalisation layer, alias and evaluation models) ----
    'C1': ('C17', 'structure/segments.py', [
        ('    if (indices < 0).any():\n        raise ValueError("This function does not support negative indices")\n    if (indices >= length).any():\n        index = np.min(np.where(indices >= length)[0])\n        raise ValueError(\n            f"Index {index} is out of range for an atom array with length {length}"\n        )\n\n    return np.searchsorted(starts, indices, side="right") - 1\n',
         '    import contextlib\n    with contextlib.suppress(ValueError):\n        if (indices < 0).any():\n            raise ValueError("This function does not support negative indices")\n        if (indices >= length).any():\n            index = np.min(np.where(indices >= length)[0])\n            raise ValueError(\n                f"Index {index} is out of range for an atom array with length {length}"\n            )\n\n    return np.searchsorted(starts, indices, side="right") - 1\n'),
    ]),
    'C2': ('C17', 'structure/residues.py', [
        ('def get_residue_starts(array, add_exclusive_stop=False):\n',
         'def _starts_of(mask, _n_atoms):\n    return np.where(mask)[0] + 1\n\n\ndef get_residue_starts(array, add_exclusive_stop=False):\n'),
        ('    residue_starts = np.where(residue_change_mask)[0] + 1\n',
         '    residue_starts = _starts_of(residue_change_mask, residue_change_mask.fill(True))\n'),
    ]),
    'C3': ('C17', 'structure/residues.py', [
        ('def get_residue_starts(array, add_exclusive_stop=False):\n',
         'def _starts_of(mask):\n    return np.where(mask)[0] + 1\n\n\ndef get_residue_starts(array, add_exclusive_stop=False):\n'),
        ('    residue_starts = np.where(residue_change_mask)[0] + 1\n',
         '    def _starts_of(mask):\n        return np.where(mask)[0]\n\n    residue_starts = _starts_of(residue_change_mask)\n'),
    ]),
    'C3b': ('C17', 'structure/residues.py', [
        ('def get_residue_starts(array, add_exclusive_stop=False):\n',
         'def _starts_of(mask):\n    return np.where(mask)[0] + 1\n\n\ndef get_residue_starts(array, add_exclusive_stop=False, _starts_of=np.flatnonzero):\n'),
        ('    residue_starts = np.where(residue_change_mask)[0] + 1\n',
         '    residue_starts = _starts_of(residue_change_mask)\n'),
    ]),
    'C4': ('C01', 'structure/atoms.py', [
        ('    def _del_element(self, index):\n',
         '    def _without_atoms(self, coord, index):\n        return np.delete(coord, index, axis=-2)\n\n    def _del_element(self, index):\n'),
        ('            self._coord = np.delete(self._coord, index, axis=-2)',
         '            self._coord = self._without_atoms(self._coord, index)'),
        ('    def __init__(self, depth, length):\n        super().__ini',
         '    def _without_atoms(self, coord, index):\n        return np.delete(coord, index, axis=0)\n\n    def __init__(self, depth, length):\n        super().__ini'),
    ]),
    'C5': ('C01', 'structure/atoms.py', [
        ('    def __init__(self, length):\n        """\n        Create the annotation arrays\n        """\n',
         '    _ATOM_AXIS = -2\n\n    def __init__(self, length):\n        """\n        Create the annotation arrays\n        """\n'),
        ('            self._coord = np.delete(self._coord, index, axis=-2)',
         '            self._coord = np.delete(self._coord, index, axis=self._ATOM_AXIS)'),
        ('    def __init__(self, depth, length):\n        super().__ini',
         '    _ATOM_AXIS = 0\n\n    def __init__(self, depth, length):\n        super().__ini'),
    ]),
    'C6': ('C04', 'structure/io/pdbx/convert.py', [
        ('_proteinseq_type_list = ["polypeptide(D)", "polypeptide(L)"]\n',
         '_COORD_COLUMNS = ["Cartn_x", "Cartn_y", "Cartn_z"]\n_COORD_COLUMNS.reverse()\n_proteinseq_type_list = ["polypeptide(D)", "polypeptide(L)"]\n'),
        ('        atoms.coord[:, 0] = model_atom_site["Cartn_x"].as_array(np.float32)\n        atoms.coord[:, 1] = model_atom_site["Cartn_y"].as_array(np.float32)\n        atoms.coord[:, 2] = model_atom_site["Cartn_z"].as_array(np.float32)\n',
         '        for dim, column_name in enumerate(_COORD_COLUMNS):\n            atoms.coord[:, dim] = model_atom_site[column_name].as_array(np.float32)\n'),
    ]),
    'C6b': ('C04', 'structure/io/pdbx/convert.py', [
        ('_proteinseq_type_list = ["polypeptide(D)", "polypeptide(L)"]\n',
         '_COORD_COLUMNS = ["Cartn_x", "Cartn_y", "Cartn_z"]\n_proteinseq_type_list = ["polypeptide(D)", "polypeptide(L)"]\n'),
        ('        atoms.coord[:, 0] = model_atom_site["Cartn_x"].as_array(np.float32)\n        atoms.coord[:, 1] = model_atom_site["Cartn_y"].as_array(np.float32)\n        atoms.coord[:, 2] = model_atom_site["Cartn_z"].as_array(np.float32)\n',
         '        for dim, column_name in enumerate(_COORD_COLUMNS):\n            atoms.coord[:, dim] = model_atom_site[column_name].as_array(np.float32)\n        _COORD_COLUMNS.append(_COORD_COLUMNS.pop(0))\n'),
    ]),
    'C7': ('C16', 'structure/superimpose.py', [
        ('    mob_coord = _reshape_to_3d(coord(mobile))\n',
         '    for mobile in (mobile, fixed):\n        assert mobile is not None\n    mob_coord = _reshape_to_3d(coord(mobile))\n'),
    ]),
    'C8': ('C16', 'structure/superimpose.py', [
        ('    v[reflected_mask, :, -1] *= -1\n    matrices = np.matmul(v, w)\n',
         '    u = v\n    m = u @ w\n    v[reflected_mask, :, -1] *= -1\n    matrices = m\n'),
    ]),
    'C9': ('C14', 'structure/celllist.pyx', [
        ('        cdef float32 sq_dist\n',
         '        cdef float32 sq_dist\n        cdef int whole_sq_dist\n'),
        ('                    if sq_dist <= sq_radius:\n',
         '                    whole_sq_dist = sq_dist\n                    if whole_sq_dist <= sq_radius:\n'),
    ]),
    'C10': ('C11', 'sequence/align/cigar.py', [
        ('        elif op == CigarOp.SOFT_CLIP:\n',
         '        elif op == CigarOp.SOFT_CLIP or op == 5:\n'),
    ]),
    'C11': ('C11', 'sequence/align/cigar.py', [
        ('_str_to_op = {\n',
         '# Does the operation consume bases of the query (segment) sequence?\n_CONSUMES_QUERY = {\n    CigarOp.MATCH: True,\n    CigarOp.INSERTION: True,\n    CigarOp.DELETION: False,\n    CigarOp.INTRON: False,\n    CigarOp.SOFT_CLIP: True,\n    CigarOp.HARD_CLIP: False,\n    CigarOp.PADDING: False,\n    CigarOp.EQUAL: True,\n    CigarOp.DIFFERENT: True,\n    CigarOp.SOFT_CLIP: False,\n}\n\n_str_to_op = {\n'),
        ('            clip_mask[i : i + length] = False\n            seg_pos += length\n',
         '            clip_mask[i : i + length] = False\n            if _CONSUMES_QUERY[op]:\n                seg_pos += length\n'),
    ]),
    'C12': ('C14', 'structure/celllist.pyx', [
        ('        cdef int* list_ptr\n',
         '        cdef int* list_ptr\n        cdef int* k_ptr\n'),
        ('                                    list_ptr = <int*>cells[adj_i, adj_j, adj_k]\n',
         '                                    k_ptr = &adj_k\n                                    k_ptr[0] = adj_k + 1\n                                    list_ptr = <int*>cells[adj_i, adj_j, adj_k]\n'),
    ]),
    'C13': ('C14', 'structure/celllist.pyx', [
        ('        # Get indices for adjacent atoms, based on a cell radius\n        all_indices = self._get_atoms_in_cells(\n            coord, cell_radii, is_multi_radius',
         '        sq_radii[:] = np.asarray(sq_radii) * 2\n        # Get indices for adjacent atoms, based on a cell radius\n        all_indices = self._get_atoms_in_cells(\n            coord, cell_radii, is_multi_radius'),
    ]),
    'C13b': ('C14', 'structure/celllist.pyx', [
        ('        if is_multi_radius:\n            sq_radii = radius * radius\n',
         '        radius = radius * 2\n        if is_multi_radius:\n            sq_radii = radius * radius\n'),
    ]),
    'C14': ('C10', 'sequence/align/selector.pyx', [
        ('        self._threshold = permutation_offset + permutation_range / compression\n',
         "        self._threshold = permutation_offset + permutation_range / compression\n        setattr(self, '_threshold', permutation_range / compression)\n"),
    ]),
    'C14b': ('C10', 'sequence/align/selector.pyx', [
        ('        self._threshold = permutation_offset + permutation_range / compression\n',
         '        self._threshold = permutation_offset + permutation_range / compression\n        self.rescale(permutation_offset)\n\n    def rescale(self, offset):\n        self._threshold = self._threshold - offset\n'),
    ]),
    'C15': ('C17', 'structure/residues.py', [
        ('    residue_starts = np.where(residue_change_mask)[0] + 1\n',
         '    residue_starts = np.where(residue_change_mask)[0] + 1\n    view = residue_starts[:]\n    view += 1\n'),
    ]),
    'C15b': ('C17', 'structure/residues.py', [
        ('    residue_starts = np.where(residue_change_mask)[0] + 1\n',
         '    residue_starts = np.where(residue_change_mask)[0] + 1\n    def _shift():\n        residue_starts[:] = residue_starts + 1\n    _shift()\n'),
    ]),
    'C15c': ('C17', 'structure/residues.py', [
        ('    residue_starts = np.where(residue_change_mask)[0] + 1\n',
         '    residue_starts = np.where(residue_change_mask)[0] + 1\n    _ = residue_starts.clip(3, None, residue_starts)\n'),
    ]),
    'C15d': ('C17', 'structure/residues.py', [
        ('    residue_starts = np.where(residue_change_mask)[0] + 1\n',
         '    residue_starts = np.where(residue_change_mask)[0] + 1\n    _ = np.copyto(residue_starts, residue_starts + 1)\n'),
    ]),
    'C16': ('C04', 'structure/io/pdbx/convert.py', [
        ('    block = _get_block(pdbx_file, data_block)\n\n    extra_fields = set() if extra_fields is None else set(extra_fields)\n',
         '    block, extra_fields = _get_block(pdbx_file, data_block), ([] if extra_fields is None else extra_fields)\n'),
    ]),
    'C16b': ('C04', 'structure/io/pdbx/convert.py', [
        ('    block = _get_block(pdbx_file, data_block)\n\n    extra_fields = set() if extra_fields is None else set(extra_fields)\n',
         '    block = _get_block(pdbx_file, data_block)\n\n    fields = [] if extra_fields is None else extra_fields\n'),
        ('    _fill_annotations(atoms, model_atom_site, extra_fields, use_author_fields)\n',
         '    def _fill():\n        _fill_annotations(atoms, model_atom_site, fields, use_author_fields)\n    _fill()\n'),
    ]),
    'C16c': ('C04', 'structure/io/pdbx/convert.py', [
        ('    block = _get_block(pdbx_file, data_block)\n\n    extra_fields = set() if extra_fields is None else set(extra_fields)\n',
         '    block = _get_block(pdbx_file, data_block)\n\n    opts = [[] if extra_fields is None else extra_fields]\n'),
        ('    _fill_annotations(atoms, model_atom_site, extra_fields, use_author_fields)\n',
         '    _fill_annotations(atoms, model_atom_site, opts[0], use_author_fields)\n'),
    ]),
    'C16d': ('C04', 'structure/io/pdbx/convert.py', [
        ('    block = _get_block(pdbx_file, data_block)\n\n    extra_fields = set() if extra_fields is None else set(extra_fields)\n',
         '    block = _get_block(pdbx_file, data_block)\n\n    if (fields := extra_fields) is None:\n        fields = []\n'),
        ('    _fill_annotations(atoms, model_atom_site, extra_fields, use_author_fields)\n',
         '    _fill_annotations(atoms, model_atom_site, fields, use_author_fields)\n'),
    ]),
    'C16e': ('C04', 'structure/io/pdbx/convert.py', [
        ('    block = _get_block(pdbx_file, data_block)\n\n    extra_fields = set() if extra_fields is None else set(extra_fields)\n',
         '    block = _get_block(pdbx_file, data_block)\n\n    extra_fields = (lambda x: x)([] if extra_fields is None else extra_fields)\n'),
    ]),
    'C17': ('C05', 'structure/io/pdbx/compress.py', [
        ('def _compress_column(bcif_column, float_tolerance):\n',
         'def _compress_column(bcif_column, float_tolerance):\n    float_tolerance = 1e-6\n'),
    ]),
    'C17b': ('C05', 'structure/io/pdbx/compress.py', [
        ('def _compress_column(bcif_column, float_tolerance):\n',
         'def _compress_column(bcif_column, float_tolerance):\n    for float_tolerance in (1e-6,):\n        pass\n'),
    ]),
    'C18': ('C05', 'structure/io/pdbx/bcif.py', [
        ('            array = self._data.array.astype(dtype, copy=True)\n            if masked_value is None:\n',
         '            array = self._data.array.astype(dtype, copy=dtype != self._data.array.dtype)\n            if masked_value is None:\n'),
    ]),
    'C18b': ('C05', 'structure/io/pdbx/bcif.py', [
        ('            array = self._data.array.astype(dtype, copy=True)\n            if masked_value is None:\n',
         '            array = np.array(self._data.array, dtype=dtype, copy=None)\n            if masked_value is None:\n'),
    ]),
    'C19': ('C20', 'application/application.py', [
        ('            if timeout is not None and time.time() - self._start_time > timeout:\n',
         '            if bool(timeout) and time.time() - self._start_time > timeout:\n'),
    ]),
    'C19b': ('C20', 'application/application.py', [
        ('            if timeout is not None and time.time() - self._start_time > timeout:\n',
         '            if (timeout or 0) > 0 and time.time() - self._start_time > timeout:\n'),
    ]),
    # rule gaps red team C reported on the side (the plain edit was silent as well): lower bound of decode, a second digit loop, a truncating cast
    'Cg1': ('C03', 'sequence/alphabet.py', [
        ('        if code < 0 or code >= len(self._symbols):\n            raise AlphabetError(f"\'{code:d}\' is not a valid code")\n        return chr(',
         '        if code < -256 or code >= len(self._symbols):\n            raise AlphabetError(f"\'{code:d}\' is not a valid code")\n        return chr('),
    ]),
    'Cg2': ('C03', 'sequence/codon.py', [
        ('        return codons\n\n    @staticmethod\n    def load',
         '        wrong = np.zeros(numbers.shape + (3,), dtype=int)\n        for n in (0, 1, 2):\n            wrong[..., n] = numbers % _radix\n        return wrong\n\n    @staticmethod\n    def load'),
    ]),
    'Cg3': ('C14', 'structure/celllist.pyx', [
        ('                    if sq_dist <= sq_radius:\n',
         '                    if <int>sq_dist <= sq_radius:\n'),
    ]),
    # ---- red team D (redteam/D: alias model, effects, by-value inlining, casts, slices, folding, facts, equivalence) ----
    'D1': ('C17', 'structure/residues.py', [
        ('    residue_starts = np.where(residue_change_mask)[0] + 1\n',
         '    residue_starts = np.where(residue_change_mask)[0] + 1\n    view = residue_starts.T\n    view[:] = 0\n'),
    ]),
    'D1b': ('C05', 'structure/io/pdbx/bcif.py', [
        ('            array = self._data.array.astype(dtype, copy=True)\n            if masked_value is None:\n',
         '            array = self._data.array.T\n            if masked_value is None:\n'),
    ]),
    'D1c': ('C11', 'sequence/align/cigar.py', [
        ('        seg_codes = symbol_codes[segment_index, :]\n',
         '        seg_codes = symbol_codes[segment_index, :]\n        flipped = seg_codes.T\n        flipped[:] = 0\n'),
    ]),
    'D2': ('C17', 'structure/residues.py', [
        ('    residue_starts = np.where(residue_change_mask)[0] + 1\n',
         "    residue_starts = np.where(residue_change_mask)[0] + 1\n    view = np.einsum('i->i', residue_starts)\n    view[:] = 0\n"),
    ]),
    'D2b': ('C17', 'structure/residues.py', [
        ('    residue_starts = np.where(residue_change_mask)[0] + 1\n',
         '    residue_starts = np.where(residue_change_mask)[0] + 1\n    view = np.ascontiguousarray(a=residue_starts)\n    view[:] = 0\n'),
    ]),
    'D2c': ('C17', 'structure/residues.py', [
        ('    residue_starts = np.where(residue_change_mask)[0] + 1\n',
         '    residue_starts = np.where(residue_change_mask)[0] + 1\n    view = residue_starts.__array__()\n    view[:] = 0\n'),
    ]),
    'D2d': ('C17', 'structure/residues.py', [
        ('    residue_starts = np.where(residue_change_mask)[0] + 1\n',
         '    residue_starts = np.where(residue_change_mask)[0] + 1\n    view = max(residue_starts, residue_starts, key=id)\n    view[:] = 0\n'),
    ]),
    'D2e': ('C04', 'structure/io/pdbx/convert.py', [
        ('    block = _get_block(pdbx_file, data_block)\n\n    extra_fields = set() if extra_fields is None else set(extra_fields)\n',
         '    block = _get_block(pdbx_file, data_block)\n\n    extra_fields = set() if extra_fields is None else next(iter([extra_fields]))\n'),
    ]),
    'D2f': ('C04', 'structure/io/pdbx/convert.py', [
        ('    block = _get_block(pdbx_file, data_block)\n\n    extra_fields = set() if extra_fields is None else set(extra_fields)\n',
         '    block = _get_block(pdbx_file, data_block)\n\n    import contextlib\n    with contextlib.nullcontext(set() if extra_fields is None else extra_fields) as extra_fields:\n        pass\n'),
    ]),
    'D2g': ('C13', 'sequence/annotation.py', [
        ('            self._features = set(features)\n',
         '            self._features = next(iter([features]))\n'),
    ]),
    'D3': ('C17', 'structure/residues.py', [
        ('    residue_starts = np.where(residue_change_mask)[0] + 1\n',
         '    residue_starts = np.where(residue_change_mask)[0] + 1\n    box = []\n    box.append(residue_starts)\n    box[0][:] = 0\n'),
    ]),
    'D3b': ('C17', 'structure/residues.py', [
        ('    residue_starts = np.where(residue_change_mask)[0] + 1\n',
         '    residue_starts = np.where(residue_change_mask)[0] + 1\n    box = []\n    box += [residue_starts]\n    box[0][:] = 0\n'),
    ]),
    'D3c': ('C17', 'structure/residues.py', [
        ('    residue_starts = np.where(residue_change_mask)[0] + 1\n',
         '    residue_starts = np.where(residue_change_mask)[0] + 1\n    box = [] + [residue_starts]\n    box[0][:] = 0\n'),
    ]),
    'D3d': ('C04', 'structure/io/pdbx/convert.py', [
        ('    block = _get_block(pdbx_file, data_block)\n\n    extra_fields = set() if extra_fields is None else set(extra_fields)\n',
         "    block = _get_block(pdbx_file, data_block)\n\n    extra_fields = dict(given=set() if extra_fields is None else extra_fields)['given']\n"),
    ]),
    'D3e': ('C04', 'structure/io/pdbx/convert.py', [
        ('    block = _get_block(pdbx_file, data_block)\n\n    extra_fields = set() if extra_fields is None else set(extra_fields)\n',
         '    block = _get_block(pdbx_file, data_block)\n\n    extra_fields = [set() if extra_fields is None else extra_fields].copy()[0]\n'),
    ]),
    'D3f': ('C17', 'structure/residues.py', [
        ('    residue_starts = np.where(residue_change_mask)[0] + 1\n',
         '    residue_starts = np.where(residue_change_mask)[0] + 1\n    try:\n        raise ValueError(residue_starts)\n    except ValueError as e:\n        e.args[0][:] = 0\n'),
    ]),
    'D4': ('C05', 'structure/io/pdbx/bcif.py', [
        ('            array = self._data.array.astype(dtype, copy=True)\n            if masked_value is None:\n',
         '            opts = dict(copy=False)\n            array = self._data.array.astype(dtype, **opts)\n            if masked_value is None:\n'),
    ]),
    'D5': ('C11', 'sequence/align/cigar.py', [
        ('        seg_codes = symbol_codes[segment_index, :]\n',
         '        seg_codes = symbol_codes[segment_index, :]\n        part = np.split(seg_codes, 1)[0]\n        part[:] = 0\n'),
    ]),
    'D6': ('C17', 'structure/residues.py', [
        ('    residue_starts = np.where(residue_change_mask)[0] + 1\n',
         '    residue_starts = np.where(residue_change_mask)[0] + 1\n    np.asarray(residue_starts)[:] = 0\n'),
    ]),
    'D6b': ('C17', 'structure/residues.py', [
        ('    residue_starts = np.where(residue_change_mask)[0] + 1\n',
         '    residue_starts = np.where(residue_change_mask)[0] + 1\n    residue_starts.view().fill(0)\n'),
    ]),
    'D6c': ('C17', 'structure/residues.py', [
        ('    residue_starts = np.where(residue_change_mask)[0] + 1\n',
         '    residue_starts = np.where(residue_change_mask)[0] + 1\n    (residue_starts if add_exclusive_stop else residue_starts)[:] = 0\n'),
    ]),
    'D6d': ('C11', 'sequence/align/cigar.py', [
        ('        seg_codes = symbol_codes[segment_index, :]\n',
         '        seg_codes = symbol_codes[segment_index, :]\n        np.asarray(seg_codes)[:] = 0\n'),
    ]),
    'D7': ('C16', 'structure/superimpose.py', [
        ('    v[reflected_mask, :, -1] *= -1\n    matrices = np.matmul(v, w)\n',
         '    u = v if reflected_mask.all() else v.copy()\n    v[reflected_mask, :, -1] *= -1\n    matrices = np.matmul(u, w)\n'),
    ]),
    'D7b': ('C16', 'structure/superimpose.py', [
        ('    v[reflected_mask, :, -1] *= -1\n    matrices = np.matmul(v, w)\n',
         '    u = v[::-1]\n    v[reflected_mask, :, -1] *= -1\n    matrices = np.matmul(u, w)\n'),
    ]),
    'D8': ('C17', 'structure/residues.py', [
        ('    residue_starts = np.where(residue_change_mask)[0] + 1\n',
         '    residue_starts = np.where(residue_change_mask)[0] + 1\n    residue_starts.size and residue_starts.fill(0)\n'),
    ]),
    'D8b': ('C17', 'structure/residues.py', [
        ('    residue_starts = np.where(residue_change_mask)[0] + 1\n',
         '    residue_starts = np.where(residue_change_mask)[0] + 1\n    assert residue_starts.fill(0) is None\n'),
    ]),
    'D8c': ('C17', 'structure/residues.py', [
        ('    residue_starts = np.where(residue_change_mask)[0] + 1\n',
         '    residue_starts = np.where(residue_change_mask)[0] + 1\n    class _Scratch:\n        residue_starts.fill(0)\n'),
    ]),
    'D8d': ('C03', 'sequence/codon.py', [
        ('            numbers = numbers - digit * val\n        return codons\n',
         '            numbers = numbers - digit * val\n        numbers.shape and codons.sort()\n        return codons\n'),
    ]),
    'D9': ('C17', 'structure/residues.py', [
        ('    residue_starts = np.where(residue_change_mask)[0] + 1\n',
         '    residue_starts = np.where(residue_change_mask)[0] + 1\n    (residue_starts := residue_starts[::-1])\n'),
    ]),
    'D9b': ('C17', 'structure/residues.py', [
        ('    residue_starts = np.where(residue_change_mask)[0] + 1\n',
         '    residue_starts = np.where(residue_change_mask)[0] + 1\n    if (residue_starts := residue_starts[::-1]) is None:\n        pass\n'),
    ]),
    'D9c': ('C17', 'structure/residues.py', [
        ('    residue_starts = np.where(residue_change_mask)[0] + 1\n',
         '    residue_starts = np.where(residue_change_mask)[0] + 1\n    n_starts = len(residue_starts := residue_starts[::-1])\n'),
    ]),
    'D10': ('C05', 'structure/io/pdbx/compress.py', [
        ('def _compress_column(bcif_column, float_tolerance):\n',
         'def _compress_column(bcif_column, float_tolerance):\n    match 1e-6:\n        case float_tolerance:\n            pass\n'),
    ]),
    'D10b': ('C17', 'structure/residues.py', [
        ('    residue_starts = np.where(residue_change_mask)[0] + 1\n',
         '    residue_starts = np.where(residue_change_mask)[0] + 1\n    from numpy import flatnonzero as residue_starts\n'),
    ]),
    'D10c': ('C17', 'structure/residues.py', [
        ('    residue_starts = np.where(residue_change_mask)[0] + 1\n',
         '    residue_starts = np.where(residue_change_mask)[0] + 1\n    def residue_starts():\n        return 0\n'),
    ]),
    'D11': ('C17', 'structure/residues.py', [
        ('    residue_starts = np.where(residue_change_mask)[0] + 1\n',
         '    residue_starts = np.where(residue_change_mask)[0] + 1\n    if 1 == 1.0:\n        residue_starts = residue_starts[::-1]\n'),
    ]),
    'D11b': ('C03', 'sequence/codon.py', [
        ('            codons[..., -(n + 1)] = digit\n',
         '            codons[..., -(n + 1)] = digit if n != 0.0 else 0\n'),
    ]),
    'D11c': ('C11', 'sequence/align/cigar.py', [
        ('            clip_mask[i : i + length] = False\n            seg_pos += length\n',
         '            clip_mask[i : i + length] = False\n            if True != 1:\n                seg_pos += length\n'),
    ]),
    'D11d': ('C11', 'sequence/align/cigar.py', [
        ('_str_to_op = {\n',
         'CigarOp.CLIP = CigarOp.HARD_CLIP\n\n_str_to_op = {\n'),
        ('        elif op == CigarOp.SOFT_CLIP:\n',
         '        elif op == CigarOp.SOFT_CLIP or op == CigarOp.CLIP:\n'),
    ]),
    'D12': ('C17', 'structure/residues.py', [
        ('    residue_starts = np.where(residue_change_mask)[0] + 1\n',
         '    def _clear():\n        residue_starts[:] = 0\n    residue_starts = np.where(residue_change_mask)[0] + 1\n    _clear()\n'),
    ]),
    'D12b': ('C17', 'structure/residues.py', [
        ('    residue_starts = np.where(residue_change_mask)[0] + 1\n',
         '    residue_starts = np.where(residue_change_mask)[0] + 1\n    def _clear():\n        np.put(residue_starts, 0, 0)\n    _clear()\n'),
    ]),
    'D12c': ('C17', 'structure/residues.py', [
        ('    residue_starts = np.where(residue_change_mask)[0] + 1\n',
         '    residue_starts = np.where(residue_change_mask)[0] + 1\n    def _clear():\n        target = residue_starts\n        target[:] = 0\n    _clear()\n'),
    ]),
    'D12d': ('C05', 'structure/io/pdbx/bcif.py', [
        ('            array = self._data.array.astype(dtype, copy=True)\n            if masked_value is None:\n',
         '            def _values():\n                return self._data.array\n            array = _values()\n            if masked_value is None:\n'),
    ]),
    'D13': ('C17', 'structure/residues.py', [
        ('    residue_starts = np.where(residue_change_mask)[0] + 1\n',
         '    residue_starts = np.where(residue_change_mask)[0] + 1\n    for row in residue_starts.reshape(1, -1):\n        row[:] = 0\n'),
    ]),
    'D13b': ('C17', 'structure/residues.py', [
        ('    residue_starts = np.where(residue_change_mask)[0] + 1\n',
         '    residue_starts = np.where(residue_change_mask)[0] + 1\n    try:\n        part = residue_starts[:]\n        part[:] = 0\n    except ValueError:\n        pass\n'),
    ]),
    'D14': ('C17', 'structure/residues.py', [
        ('def get_residue_starts(array, add_exclusive_stop=False):\n',
         'def _check_starts(starts):\n    clear = lambda: 0\n    starts[:] = clear()\n\n\ndef get_residue_starts(array, add_exclusive_stop=False):\n'),
        ('    residue_starts = np.where(residue_change_mask)[0] + 1\n',
         '    residue_starts = np.where(residue_change_mask)[0] + 1\n    _check_starts(residue_starts)\n'),
    ]),
    'D15': ('C11', 'sequence/align/cigar.py', [
        ('        symbol_codes = get_codes(alignment)\n',
         '        symbol_codes = get_codes(alignment)\n        np.minimum(symbol_codes, 0, symbol_codes)\n'),
    ]),
    'D15b': ('C11', 'sequence/align/cigar.py', [
        ('        seg_codes = symbol_codes[segment_index, :]\n',
         '        seg_codes = symbol_codes[segment_index, :]\n        np.minimum(seg_codes, 0, seg_codes)\n'),
    ]),
    'D15c': ('C11', 'sequence/align/cigar.py', [
        ('        symbol_codes = get_codes(alignment)\n',
         '        symbol_codes = get_codes(alignment)\n        np.random.default_rng(0).shuffle(symbol_codes, axis=1)\n'),
    ]),
    'D15d': ('C17', 'structure/residues.py', [
        ('    residue_starts = np.where(residue_change_mask)[0] + 1\n',
         '    residue_starts = np.where(residue_change_mask)[0] + 1\n    _ = np.clip(residue_starts, 3, None, residue_starts)\n'),
    ]),
    'D15e': ('C17', 'structure/residues.py', [
        ('    residue_starts = np.where(residue_change_mask)[0] + 1\n',
         '    residue_starts = np.where(residue_change_mask)[0] + 1\n    _ = np.ndarray.fill(residue_starts, 0)\n'),
    ]),
    'D15f': ('C17', 'structure/residues.py', [
        ('    residue_starts = np.where(residue_change_mask)[0] + 1\n',
         '    residue_starts = np.where(residue_change_mask)[0] + 1\n    _ = np.random.default_rng(3).shuffle(residue_starts)\n'),
    ]),
    'D16': ('C17', 'structure/residues.py', [
        ('    residue_starts = np.where(residue_change_mask)[0] + 1\n',
         '    for _unused in (residue_change_mask.fill(True),):\n        pass\n    residue_starts = np.where(residue_change_mask)[0] + 1\n'),
    ]),
    'D16b': ('C17', 'structure/residues.py', [
        ('    residue_starts = np.where(residue_change_mask)[0] + 1\n',
         '    _junk = [0 for _unused in (residue_change_mask.fill(True),)]\n    residue_starts = np.where(residue_change_mask)[0] + 1\n'),
    ]),
    'D17': ('C01', 'structure/atoms.py', [
        ('    def __init__(self, length):\n        """\n        Create the annotation arrays\n        """\n',
         '    _ATOM_AXIS = -2\n\n    def __init__(self, length):\n        """\n        Create the annotation arrays\n        """\n'),
        ('            self._coord = np.delete(self._coord, index, axis=-2)',
         '            self._coord = np.delete(self._coord, index, axis=self._ATOM_AXIS)'),
        ('    def __init__(self, depth, length):\n        super().__ini',
         "    def __init__(self, depth, length):\n        self.__dict__['_ATOM_AXIS'] = 0\n        super().__ini"),
    ]),
    'D17b': ('C01', 'structure/atoms.py', [
        ('    def __init__(self, length):\n        """\n        Create the annotation arrays\n        """\n',
         '    _ATOM_AXIS = -2\n\n    def __init__(self, length):\n        """\n        Create the annotation arrays\n        """\n'),
        ('            self._coord = np.delete(self._coord, index, axis=-2)',
         '            self._coord = np.delete(self._coord, index, axis=self._ATOM_AXIS)'),
        ('    def __init__(self, depth, length):\n        super().__ini',
         "    def __init__(self, depth, length):\n        object.__setattr__(self, '_ATOM_AXIS', 0)\n        super().__ini"),
    ]),
    'D17c': ('C01', 'structure/atoms.py', [
        ('    def __init__(self, length):\n        """\n        Create the annotation arrays\n        """\n',
         '    _ATOM_AXIS = -2\n\n    def __init__(self, length):\n        """\n        Create the annotation arrays\n        """\n'),
        ('            self._coord = np.delete(self._coord, index, axis=-2)',
         '            self._coord = np.delete(self._coord, index, axis=self._ATOM_AXIS)'),
        ('class AtomArrayStack(_AtomArrayBase):',
         "class AtomArrayStack(type('_StackAxes', (_AtomArrayBase,), {'_ATOM_AXIS': 0})):"),
    ]),
    'D18': ('C20', 'application/application.py', [
        ('        else:\n            self._state = AppState.JOINED\n        self.clean_up()\n',
         '        else:\n            self._state = AppState.JOINED\n        self._finish()\n\n    @requires_state(AppState.CREATED)\n    def _finish(self):\n        self.clean_up()\n'),
    ]),
    'D18b': ('C17', 'structure/residues.py', [
        ('def get_residue_starts(array, add_exclusive_stop=False):\n',
         'def _shifted(f):\n    return lambda *a: f(*a) + 1\n\n\n@_shifted\ndef _starts_of(mask):\n    return np.where(mask)[0] + 1\n\n\ndef get_residue_starts(array, add_exclusive_stop=False):\n'),
        ('    residue_starts = np.where(residue_change_mask)[0] + 1\n',
         '    residue_starts = _starts_of(residue_change_mask)\n'),
    ]),
    'D19': ('C17', 'structure/residues.py', [
        ('def get_residue_starts(array, add_exclusive_stop=False):\n',
         'residue_change_mask = np.zeros(0, dtype=bool)\n\n\ndef _starts():\n    return np.where(residue_change_mask)[0] + 1\n\n\ndef get_residue_starts(array, add_exclusive_stop=False):\n'),
        ('    residue_starts = np.where(residue_change_mask)[0] + 1\n',
         '    residue_starts = _starts()\n'),
    ]),
    'D20': ('C14', 'structure/celllist.pyx', [
        ('                    if sq_dist <= sq_radius:\n',
         '                    if <signed int>sq_dist <= sq_radius:\n'),
    ]),
    'D20b': ('C14', 'structure/celllist.pyx', [
        ('                    if sq_dist <= sq_radius:\n',
         '                    if <long int>sq_dist <= sq_radius:\n'),
    ]),
    'D20c': ('C14', 'structure/celllist.pyx', [
        ('ctypedef np.uint64_t ptr\n',
         'ctypedef np.uint64_t ptr\nctypedef int whole\n'),
        ('                    if sq_dist <= sq_radius:\n',
         '                    if <whole>sq_dist <= sq_radius:\n'),
    ]),
    'D20d': ('C14', 'structure/celllist.pyx', [
        ('                    if sq_dist <= sq_radius:\n',
         '                    if <ptr>sq_dist <= sq_radius:\n'),
    ]),
    'D21': ('C14', 'structure/celllist.pyx', [
        ('                                if (adj_k >= 0 and adj_k < cells.shape[2]):\n                                    # Fill index array\n                                    # with indices in cell\n                                    list_ptr = <int*>cells[adj_i, adj_j, adj_k]\n                                    length = cell_length[adj_i, adj_j, adj_k]\n                                    for cell_i in range(length):\n                                        indices[pos_i, array_i] = \\\n                                            list_ptr[cell_i]\n                                        array_i += 1\n',
         '                                if (adj_k >= 0 and adj_k < cells.shape[2]):\n                                    adj_k = adj_k + 1\n                                else:\n                                    continue\n                                list_ptr = <int*>cells[adj_i, adj_j, adj_k]\n                                length = cell_length[adj_i, adj_j, adj_k]\n                                for cell_i in range(length):\n                                    indices[pos_i, array_i] = \\\n                                        list_ptr[cell_i]\n                                    array_i += 1\n'),
    ]),
    'D21b': ('C14', 'structure/celllist.pyx', [
        ('                                if (adj_k >= 0 and adj_k < cells.shape[2]):\n',
         '                                if (adj_k >= 0 and adj_k < cells.shape[2] and advance(&adj_k)):\n'),
    ]),
    'D21c': ('C14', 'structure/celllist.pyx', [
        ('                                if (adj_k >= 0 and adj_k < cells.shape[2]):\n',
         '                                if (adj_k >= 0 and adj_k < cells.shape[2] and (adj_k := adj_k + 1)):\n'),
    ]),
    'D21d': ('C14', 'structure/celllist.pyx', [
        ('        cdef int* list_ptr\n',
         '        cdef int* list_ptr\n        cdef int* k_ptr = &adj_k\n'),
        ('                                    list_ptr = <int*>cells[adj_i, adj_j, adj_k]\n',
         '                                    memset(k_ptr, 1, sizeof(int))\n                                    list_ptr = <int*>cells[adj_i, adj_j, adj_k]\n'),
    ]),
    'D22': ('C05', 'structure/io/pdbx/bcif.py', [
        ('            array = self._data.array.astype(dtype, copy=True)\n            if masked_value is None:\n',
         "            array = self._data.array.astype(dtype, copy=True)\n            if masked_value is None:\n                np.putmask(self._data.array, self._mask.array == MaskValue.INAPPLICABLE, '.')\n"),
    ]),
    'D22b': ('C05', 'structure/io/pdbx/bcif.py', [
        ('            array = self._data.array.astype(dtype, copy=True)\n            if masked_value is None:\n',
         "            array = self._data.array.astype(dtype, copy=True)\n            if masked_value is None:\n                np.copyto(self._data.array, '.', where=self._mask.array == MaskValue.INAPPLICABLE)\n"),
    ]),
    'D23': ('C04', 'structure/io/pdbx/convert.py', [
        ('    block = _get_block(pdbx_file, data_block)\n\n    extra_fields = set() if extra_fields is None else set(extra_fields)\n',
         '    block = _get_block(pdbx_file, data_block)\n\n    extra_fields = set() if extra_fields is None else extra_fields\n'),
        ('    _fill_annotations(atoms, model_atom_site, extra_fields, use_author_fields)\n',
         '    (_fill_annotations if use_author_fields else _fill_annotations)(atoms, model_atom_site, extra_fields, use_author_fields)\n'),
    ]),
    'D23b': ('C04', 'structure/io/pdbx/convert.py', [
        ('    block = _get_block(pdbx_file, data_block)\n\n    extra_fields = set() if extra_fields is None else set(extra_fields)\n',
         '    block = _get_block(pdbx_file, data_block)\n\n    extra_fields = set() if extra_fields is None else extra_fields\n'),
        ('    _fill_annotations(atoms, model_atom_site, extra_fields, use_author_fields)\n',
         '    import functools\n    functools.partial(_fill_annotations, atoms, model_atom_site, extra_fields)(use_author_fields)\n'),
    ]),
    'D23c': ('C05', 'structure/io/pdbx/compress.py', [
        ('def _compress_column(bcif_column, float_tolerance):\n    data = _compress_data(bcif_column.data, float_tolerance)\n',
         'def _compress_column(bcif_column, float_tolerance):\n    import functools\n    data = functools.partial(_compress_data, float_tolerance=1e-6)(bcif_column.data)\n'),
    ]),
    'D24': ('C13', 'sequence/annotation.py', [
        ('            self._features = set(features)\n',
         "            setattr(self, '_features', features)\n"),
    ]),
    'D24b': ('C13', 'sequence/annotation.py', [
        ('            self._features = set(features)\n',
         "            self.__dict__['_features'] = features\n"),
    ]),
    'D24c': ('C13', 'sequence/annotation.py', [
        ('            self._features = set(features)\n',
         '            self._features, _ = features, None\n'),
    ]),
    'D25': ('C20', 'application/application.py', [
        ('            if timeout is not None and time.time() - self._start_time > timeout:\n',
         '            if timeout is not None and timeout.__bool__() and time.time() - self._start_time > timeout:\n'),
    ]),
    'D25b': ('C20', 'application/application.py', [
        ('            if timeout is not None and time.time() - self._start_time > timeout:\n',
         '            if timeout is not None and timeout != 0 and time.time() - self._start_time > timeout:\n'),
    ]),
    'D25c': ('C20', 'application/application.py', [
        ('            if timeout is not None and time.time() - self._start_time > timeout:\n',
         '            if any(t for t in [timeout]) and time.time() - self._start_time > timeout:\n'),
    ]),
    'D26': ('C11', 'sequence/align/cigar.py', [
        ('_str_to_op = {\n',
         '# Does the operation consume bases of the query (segment) sequence?\n_CONSUMES_QUERY = {\n    CigarOp.MATCH: True,\n    CigarOp.INSERTION: True,\n    CigarOp.DELETION: False,\n    CigarOp.INTRON: False,\n    CigarOp.SOFT_CLIP: True,\n    CigarOp.HARD_CLIP: False,\n    CigarOp.PADDING: False,\n    CigarOp.EQUAL: True,\n    CigarOp.DIFFERENT: True,\n}\n_CONSUMES_QUERY[CigarOp.SOFT_CLIP] = False\n\n_str_to_op = {\n'),
        ('            clip_mask[i : i + length] = False\n            seg_pos += length\n',
         '            clip_mask[i : i + length] = False\n            if _CONSUMES_QUERY[op]:\n                seg_pos += length\n'),
    ]),
    'D26b': ('C11', 'sequence/align/cigar.py', [
        ('_str_to_op = {\n',
         '# Does the operation consume bases of the query (segment) sequence?\n_CONSUMES_QUERY = {\n    CigarOp.MATCH: True,\n    CigarOp.INSERTION: True,\n    CigarOp.DELETION: False,\n    CigarOp.INTRON: False,\n    CigarOp.SOFT_CLIP: True,\n    CigarOp.HARD_CLIP: False,\n    CigarOp.PADDING: False,\n    CigarOp.EQUAL: True,\n    CigarOp.DIFFERENT: True,\n}\n_CONSUMES_QUERY.update({CigarOp.SOFT_CLIP: False})\n\n_str_to_op = {\n'),
        ('            clip_mask[i : i + length] = False\n            seg_pos += length\n',
         '            clip_mask[i : i + length] = False\n            if _CONSUMES_QUERY[op]:\n                seg_pos += length\n'),
    ]),
    'D27': ('C03', 'sequence/codon.py', [
        ('        codons = np.zeros(numbers.shape + (3,), dtype=int)\n',
         '        given = numbers\n        codons = np.zeros(numbers.shape + (3,), dtype=int)\n'),
        ('            numbers = numbers - digit * val\n        return codons\n',
         '            numbers = numbers - digit * val\n        given[...] = numbers\n        return codons\n'),
    ]),
    'D28': ('C16', 'structure/superimpose.py', [
        ('        mob_filtered = mob_coord[:, atom_mask, :]\n        fix_filtered = fix_coord[:, atom_mask, :]\n',
         '        mob_filtered = mob_coord[:, atom_mask * 1 * 1, :]\n        fix_filtered = fix_coord[:, atom_mask * 1 * 1, :]\n'),
    ]),
    'D28b': ('C16', 'structure/superimpose.py', [
        ('        mob_filtered = mob_coord[:, atom_mask, :]\n        fix_filtered = fix_coord[:, atom_mask, :]\n',
         '        mob_filtered = mob_coord[:, atom_mask + 1 - 1, :]\n        fix_filtered = fix_coord[:, atom_mask + 1 - 1, :]\n'),
    ]),
    'D29': ('C04', 'structure/io/pdbx/convert.py', [
        ('_proteinseq_type_list = ["polypeptide(D)", "polypeptide(L)"]\n',
         '_COORD_COLUMNS = ["Cartn_x", "Cartn_y", "Cartn_z"]\nglobals()[\'_COORD_COLUMNS\'].reverse()\n_proteinseq_type_list = ["polypeptide(D)", "polypeptide(L)"]\n'),
        ('        atoms.coord[:, 0] = model_atom_site["Cartn_x"].as_array(np.float32)\n        atoms.coord[:, 1] = model_atom_site["Cartn_y"].as_array(np.float32)\n        atoms.coord[:, 2] = model_atom_site["Cartn_z"].as_array(np.float32)\n',
         '        for dim, column_name in enumerate(_COORD_COLUMNS):\n            atoms.coord[:, dim] = model_atom_site[column_name].as_array(np.float32)\n'),
    ]),
    'D29b': ('C04', 'structure/io/pdbx/convert.py', [
        ('_proteinseq_type_list = ["polypeptide(D)", "polypeptide(L)"]\n',
         '_COORD_COLUMNS = ["Cartn_x", "Cartn_y", "Cartn_z"]\nvars()[\'_COORD_COLUMNS\'].reverse()\n_proteinseq_type_list = ["polypeptide(D)", "polypeptide(L)"]\n'),
        ('        atoms.coord[:, 0] = model_atom_site["Cartn_x"].as_array(np.float32)\n        atoms.coord[:, 1] = model_atom_site["Cartn_y"].as_array(np.float32)\n        atoms.coord[:, 2] = model_atom_site["Cartn_z"].as_array(np.float32)\n',
         '        for dim, column_name in enumerate(_COORD_COLUMNS):\n            atoms.coord[:, dim] = model_atom_site[column_name].as_array(np.float32)\n'),
    ]),
    # rule gaps red team D reported on the side
    'Dg1': ('C03', 'sequence/codon.py', [
        ('        return np.sum(_radix_multiplier * codons, axis=-1)\n',
         '        number = np.sum(_radix_multiplier * codons, axis=-1)\n        codons[...] = 0\n        return number\n'),
    ]),
    'Dg2': ('C20', 'application/application.py', [
        ('            if timeout is not None and time.time() - self._start_time > timeout:\n',
         '            if timeout is not None and timeout > 0 and time.time() - self._start_time > timeout:\n'),
    ]),
    'Dg3': ('C20', 'application/application.py', [
        ('            if timeout is not None and time.time() - self._start_time > timeout:\n',
         '            if timeout not in (None, 0) and time.time() - self._start_time > timeout:\n'),
    ]),
}
