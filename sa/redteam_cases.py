"""Behaviour-changing edits found by the two red-team passes (redteam/A: undo-normalisers, redteam/B: expression layer;
the n.md files there give the failing input of each).  Every one of them was accepted by an earlier state of the
machinery; they are replayed as breaking variants in the thorough tier of their property (core.self_validate): a variant
that raises no new finding fails the run as ANALYSIS-ERROR."""

CASES = {
    'A1': ('C17', 'structure/residues.py', [
        ('np.where(residue_change_mask)[0] + 1',
         'np.where(residue_change_mask)[0] + 1.0'),
    ]),
    'A2': ('C14', 'structure/celllist.pyx', [
        ('        cdef int cell_r\n\n        cdef ptr[:,:,:] cells',
         '        cdef int cell_r\n        cdef int n_in_cell\n\n        cdef ptr[:,:,:] cells'),
        ('                                if (adj_k >= 0 and adj_k < cells.shape[2]):\n',
         '                                n_in_cell = cell_length[adj_i, adj_j, adj_k]\n                                if (adj_k >= 0 and adj_k < cells.shape[2]):\n'),
        ('length = cell_length[adj_i, adj_j, adj_k]',
         'length = n_in_cell'),
    ]),
    'A3': ('C14', 'structure/celllist.pyx', [
        ('                                    list_ptr = <int*>cells',
         '                                    adj_k = adj_k + cell_r\n                                    list_ptr = <int*>cells'),
    ]),
    'A3b': ('C14', 'structure/celllist.pyx', [
        ('                                    list_ptr = <int*>cells',
         '                                    self._get_cell_index(x, y, z + cell_r, &adj_i, &adj_j, &adj_k)\n                                    list_ptr = <int*>cells'),
    ]),
    'A4a': ('C17', 'structure/segments.py', [
        ('def get_segment_masks(starts, indices):',
         'def _as_index_array(indices):\n    indices = np.asarray(indices)\n\n\ndef get_segment_masks(starts, indices):'),
        ('    """\n    indices = np.asarray(indices)\n    length = starts[-1]\n    masks',
         '    """\n    _as_index_array(indices)\n    length = starts[-1]\n    masks'),
    ]),
    'A4b': ('C17', 'structure/segments.py', [
        ('def get_segment_positions(starts, indices):',
         'def _exclusive_stop(starts):\n    length = starts[-1]\n\n\ndef get_segment_positions(starts, indices):'),
        ('    length = starts[-1]\n    # Remove exclusive stop\n    starts = starts[:-1]\n\n    if (indices < 0).any():\n        raise ValueError("This function does not support negative indices")\n    if (indices >= length).any():\n        index = np.min(np.where(indices >= length)[0])\n        raise ValueError(\n            f"Index {index} is out of range for an atom array with length {length}"\n        )\n\n    return np.searchsorted',
         '    length = starts[-2]\n    _exclusive_stop(starts)\n    # Remove exclusive stop\n    starts = starts[:-1]\n\n    if (indices < 0).any():\n        raise ValueError("This function does not support negative indices")\n    if (indices >= length).any():\n        index = np.min(np.where(indices >= length)[0])\n        raise ValueError(\n            f"Index {index} is out of range for an atom array with length {length}"\n        )\n\n    return np.searchsorted'),
    ]),
    'A5': ('C05', 'structure/io/pdbx/compress.py', [
        ('import itertools\n',
         'import itertools\nimport sys\n'),
        ('def _compress_data(',
         '_FIXED_POINT_TYPE = np.int32\nif sys.maxsize > 2**32:\n    _FIXED_POINT_TYPE = np.int64\n\n\ndef _compress_data('),
        ('np.abs(array) * factor >= np.iinfo(np.int32).max',
         'np.abs(array) * factor >= np.iinfo(_FIXED_POINT_TYPE).max'),
    ]),
    'A6': ('C16', 'structure/superimpose.py', [
        ('        rotation_mat = _3d_identity(n_models, 4)\n',
         '        rotation_mat = center_translation_mat = target_translation_mat = _3d_identity(n_models, 4)\n'),
        ('        center_translation_mat = _3d_identity(n_models, 4)\n',
         ''),
        ('        target_translation_mat = _3d_identity(n_models, 4)\n',
         ''),
    ]),
    'A7': ('C16', 'structure/superimpose.py', [
        ('    v, s, w = np.linalg.svd(cov)\n',
         '    v, s, w = np.linalg.svd(cov)\n    product = v @ w\n'),
        ('    matrices = np.matmul(v, w)\n',
         '    matrices = product\n'),
    ]),
    'A8': ('C17', 'structure/residues.py', [
        ('    residue_change_mask = (\n        chain_id_changes | res_id_changes | ins_code_changes | res_name_changes\n    )\n',
         '    residue_change_mask = chain_id_changes\n    for changes in (\n        residue_change_mask | res_id_changes,\n        residue_change_mask | ins_code_changes,\n        residue_change_mask | res_name_changes,\n    ):\n        residue_change_mask = changes\n'),
    ]),
    'A9': ('C15', 'structure/transform.py', [
        ('        # Single value -> centered rotation does not change coordinates\n        return atoms.copy()',
         '        # Single value -> centered rotation does not change coordinates\n        return np.copy(atoms)'),
    ]),
    'A10': ('C05', 'structure/io/pdbx/compress.py', [
        ('import itertools\n',
         'import itertools\nimport sys\n'),
        ('def _compress_data(',
         'def _fixed_point_limit():\n    return np.iinfo(np.int64).max\n\n\nif sys.maxsize < 2**32:\n\n    def _fixed_point_limit():\n        return np.iinfo(np.int32).max\n\n\ndef _compress_data('),
        ('np.abs(array) * factor >= np.iinfo(np.int32).max',
         'np.abs(array) * factor >= _fixed_point_limit()'),
    ]),
    'A11': ('C03', 'sequence/alphabet.py', [
        ('        try:\n            return self._symbol_dict[symbol]\n        except KeyError:',
         '        code = self._symbol_dict[symbol]\n        try:\n            return code\n        except KeyError:'),
    ]),
    'A12': ('C17', 'structure/residues.py', [
        ('    residue_starts = np.where(residue_change_mask)[0] + 1\n',
         '    residue_starts = np.where(residue_change_mask)[0] + 1\n    np.add(residue_starts, 1, out=residue_starts)\n'),
    ]),
    'A12b': ('C17', 'structure/residues.py', [
        ('    residue_starts = np.where(residue_change_mask)[0] + 1\n',
         '    residue_starts = np.where(residue_change_mask)[0] + 1\n    np.add(residue_starts, 1, residue_starts)\n'),
    ]),
    'A13': ('C03', 'sequence/codon.py', [
        ('        codons = np.zeros(numbers.shape + (3,), dtype=int)\n        for n in (2, 1, 0):\n',
         '        codons = np.empty(numbers.shape + (3,), dtype=int)\n        for n in (2, 1, 0):\n            codons[..., -(n + 1)] = 0\n        for n in (0, 1, 2):\n'),
    ]),
    'A14': ('C03', 'sequence/codec.pyx', [
        ('    cdef uint8 symbol_code\n    for i in range(symbols.shape[0]):\n        symbol_code = sym_to_code[symbols[i]]\n',
         '    cdef uint8 symbol_code\n    cdef char symbol_byte\n    for i in range(symbols.shape[0]):\n        symbol_byte = symbols[i]\n        symbol_code = sym_to_code[symbol_byte]\n'),
    ]),
    'B1': ('C17', 'structure/residues.py', [
        ('    residue_starts = np.where(residue_change_mask)[0] + 1\n',
         "    residue_starts = np.where(residue_change_mask)[0] + 1\n    with np.errstate(all='ignore'):\n        if not add_exclusive_stop:\n            return residue_starts\n"),
    ]),
    'B1b': ('C06', 'structure/io/pdbx/cif.py', [
        ('def _escape(value):\n',
         'def _escape(value):\n    try:\n        float(value)\n        return value\n    except ValueError:\n        pass\n'),
    ]),
    'B1c': ('C17', 'structure/residues.py', [
        ('    residue_starts = np.where(residue_change_mask)[0] + 1\n',
         '    residue_starts = np.where(residue_change_mask)[0] + 1\n    for _ in range(1):\n        if not add_exclusive_stop:\n            return residue_starts\n'),
    ]),
    'B2': ('C17', 'structure/residues.py', [
        ('    residue_starts = np.where(residue_change_mask)[0] + 1\n',
         '    residue_starts = np.where(residue_change_mask)[0] + 1\n    np.add(residue_starts, 1, out=residue_starts)\n'),
    ]),
    'B2b': ('C07', 'structure/io/util.py', [
        ('    values = values.astype(int, copy=False)\n',
         '    values = values.astype(int, copy=False)\n    np.abs(values, out=values)\n'),
    ]),
    'B3': ('C17', 'structure/residues.py', [
        ('    residue_starts = np.where(residue_change_mask)[0] + 1\n',
         '    residue_starts = np.where(residue_change_mask)[0] + 1\n    if add_exclusive_stop:\n        if len(residue_starts) == 0:\n            return np.array([0])\n'),
    ]),
    'B4': ('C17', 'structure/segments.py', [
        ('    if (indices < 0).any():\n        raise ValueError("This function does not support negative indices")\n    if (indices >= length).any():\n        index = np.min(np.where(indices >= length)[0])\n        raise ValueError(\n            f"Index {index} is out of range for an atom array with length {length}"\n        )\n\n    return np.searchsorted',
         '    if (indices < 0).any():\n        if (indices >= -length).all():\n            return np.full(indices.shape, -1, dtype=int)\n        raise ValueError("This function does not support negative indices")\n    if (indices >= length).any():\n        index = np.min(np.where(indices >= length)[0])\n        raise ValueError(\n            f"Index {index} is out of range for an atom array with length {length}"\n        )\n\n    return np.searchsorted'),
    ]),
    'B5': ('C13', 'sequence/annotation.py', [
        ('                if loc.defect & Location.Defect.UNK_LOC:\n                    rev_loc_defect |= Location.Defect.UNK_LOC\n',
         '                if loc.defect & Location.Defect.UNK_LOC:\n                    rev_loc_defect |= Location.Defect.UNK_LOC\n                    continue\n'),
    ]),
    'B5b': ('C13', 'sequence/annotation.py', [
        ('                if loc.defect & Location.Defect.UNK_LOC:\n                    rev_loc_defect |= Location.Defect.UNK_LOC\n',
         '                if loc.defect & Location.Defect.UNK_LOC:\n                    rev_loc_defect |= Location.Defect.UNK_LOC\n                    break\n'),
    ]),
    'B6': ('C13', 'sequence/annotation.py', [
        ('                if loc.defect & Location.Defect.UNK_LOC:\n                    rev_loc_defect |= Location.Defect.UNK_LOC\n                if loc.defect & Location.Defect.BETWEEN:\n                    rev_loc_defect |= Location.Defect.BETWEEN\n\n                rev_locs.append(\n                    Location(\n                        rev_loc_first, rev_loc_last, rev_loc_strand, rev_loc_defect\n                    )\n                )\n',
         '                rev_locs.append(\n                    Location(\n                        rev_loc_first, rev_loc_last, rev_loc_strand, rev_loc_defect\n                    )\n                )\n                if loc.defect & Location.Defect.UNK_LOC:\n                    rev_loc_defect |= Location.Defect.UNK_LOC\n                if loc.defect & Location.Defect.BETWEEN:\n                    rev_loc_defect |= Location.Defect.BETWEEN\n'),
    ]),
    'B7': ('C13', 'sequence/annotation.py', [
        ('                if loc.defect & Location.Defect.UNK_LOC:\n',
         '                if min(feature.locs, key=lambda l: l.first).defect & Location.Defect.UNK_LOC:\n'),
    ]),
    'B8': ('C15', 'structure/transform.py', [
        ('        # Single value -> centered rotation does not change coordinates\n        return atoms.copy()',
         '        # Single value -> centered rotation does not change coordinates\n        return np.copy(atoms)'),
    ]),
    'B9': ('C16', 'structure/compare.py', [
        ('    dif = subject_coord - reference_coord\n',
         '    dif = subject_coord\n    dif -= reference_coord\n'),
    ]),
    'B9b': ('C16', 'structure/compare.py', [
        ('    dif = subject_coord - reference_coord\n    return vector_dot(dif, dif)',
         '    subject_coord -= reference_coord\n    return vector_dot(subject_coord, subject_coord)'),
    ]),
    'B10': ('C14', 'structure/celllist.pyx', [
        ('                                    list_ptr = <int*>cells[adj_i, adj_j, adj_k]\n',
         '                                    adj_k = adj_k + 1\n                                    list_ptr = <int*>cells[adj_i, adj_j, adj_k]\n'),
    ]),
    'B11': ('C19', 'sequence/phylo/upgma.pyx', [
        ('                if is_clustered_v[j]:\n                    continue\n',
         '                if is_clustered_v[j]:\n                    break\n'),
    ]),
    'B11b': ('C19', 'sequence/phylo/nj.pyx', [
        ('                if is_clustered_v[j]:\n                    continue\n                corr_distances_v[i,j]',
         '                if is_clustered_v[j]:\n                    break\n                corr_distances_v[i,j]'),
    ]),
    'B11c': ('C19', 'sequence/phylo/nj.pyx', [
        ('                if is_clustered_v[j]:\n                    continue\n                dist = corr',
         '                if is_clustered_v[j]:\n                    break\n                dist = corr'),
    ]),
    'B12': ('C06', 'structure/io/pdbx/cif.py', [
        ('    elif " " in value:\n        return "\'" + value + "\'"\n',
         '    elif " " in value:\n        return "\'" + value.strip() + "\'"\n'),
    ]),
    'B12b': ('C06', 'structure/io/pdbx/cif.py', [
        ('    elif len(value) == 0:\n',
         '    elif len(value.strip()) == 0:\n'),
    ]),
    # ---- red team C (redteam/C: normalisation / canonicalisation layer, alias and evaluation models) ----
    'C1': ('C17', 'structure/segments.py', [
        ('    if (indices < 0).any():\n        raise ValueError("This function does not support negative indices")\n    if (indices >= length).any():\n        index = np.min(np.where(indices >= length)[0])\n        raise ValueError(\n            f"Index {index} is out of range for an atom array with length {length}"\n        )\n\n    return np.searchsorted(starts, indices, side="right") - 1\n',
         '    import contextlib\n    with contextlib.suppress(ValueError):\n        if (indices < 0).any():\n            raise ValueError("This function does not support negative indices")\n        if (indices >= length).any():\n            index = np.min(np.where(indices >= length)[0])\n            raise ValueError(\n                f"Index {index} is out of range for an atom array with length {length}"\n            )\n\n    return np.searchsorted(starts, indices, side="right") - 1\n'),
    ]),
    'C2': ('C17', 'structure/residues.py', [
        ('def get_residue_starts(array, add_exclusive_stop=False):\n',
         'def _starts_of(mask, _n_atoms):\n    return np.where(mask)[0] + 1\n\n\ndef get_residue_starts(array, add_exclusive_stop=False):\n'),
        ('    residue_starts = np.where(residue_change_mask)[0] + 1\n',
         '    residue_starts = _starts_of(residue_change_mask, residue_change_mask.fill(True))\n'),
    ]),
    'C3': ('C17', 'structure/residues.py', [
        ('def get_residue_starts(array, add_exclusive_stop=False):\n',
         'def _starts_of(mask):\n    return np.where(mask)[0] + 1\n\n\ndef get_residue_starts(array, add_exclusive_stop=False):\n'),
        ('    residue_starts = np.where(residue_change_mask)[0] + 1\n',
         '    def _starts_of(mask):\n        return np.where(mask)[0]\n\n    residue_starts = _starts_of(residue_change_mask)\n'),
    ]),
    'C3b': ('C17', 'structure/residues.py', [
        ('def get_residue_starts(array, add_exclusive_stop=False):\n',
         'def _starts_of(mask):\n    return np.where(mask)[0] + 1\n\n\ndef get_residue_starts(array, add_exclusive_stop=False, _starts_of=np.flatnonzero):\n'),
        ('    residue_starts = np.where(residue_change_mask)[0] + 1\n',
         '    residue_starts = _starts_of(residue_change_mask)\n'),
    ]),
    'C4': ('C01', 'structure/atoms.py', [
        ('    def _del_element(self, index):\n',
         '    def _without_atoms(self, coord, index):\n        return np.delete(coord, index, axis=-2)\n\n    def _del_element(self, index):\n'),
        ('            self._coord = np.delete(self._coord, index, axis=-2)',
         '            self._coord = self._without_atoms(self._coord, index)'),
        ('    def __init__(self, depth, length):\n        super().__ini',
         '    def _without_atoms(self, coord, index):\n        return np.delete(coord, index, axis=0)\n\n    def __init__(self, depth, length):\n        super().__ini'),
    ]),
    'C5': ('C01', 'structure/atoms.py', [
        ('    def __init__(self, length):\n        """\n        Create the annotation arrays\n        """\n',
         '    _ATOM_AXIS = -2\n\n    def __init__(self, length):\n        """\n        Create the annotation arrays\n        """\n'),
        ('            self._coord = np.delete(self._coord, index, axis=-2)',
         '            self._coord = np.delete(self._coord, index, axis=self._ATOM_AXIS)'),
        ('    def __init__(self, depth, length):\n        super().__ini',
         '    _ATOM_AXIS = 0\n\n    def __init__(self, depth, length):\n        super().__ini'),
    ]),
    'C6': ('C04', 'structure/io/pdbx/convert.py', [
        ('_proteinseq_type_list = ["polypeptide(D)", "polypeptide(L)"]\n',
         '_COORD_COLUMNS = ["Cartn_x", "Cartn_y", "Cartn_z"]\n_COORD_COLUMNS.reverse()\n_proteinseq_type_list = ["polypeptide(D)", "polypeptide(L)"]\n'),
        ('        atoms.coord[:, 0] = model_atom_site["Cartn_x"].as_array(np.float32)\n        atoms.coord[:, 1] = model_atom_site["Cartn_y"].as_array(np.float32)\n        atoms.coord[:, 2] = model_atom_site["Cartn_z"].as_array(np.float32)\n',
         '        for dim, column_name in enumerate(_COORD_COLUMNS):\n            atoms.coord[:, dim] = model_atom_site[column_name].as_array(np.float32)\n'),
    ]),
    'C6b': ('C04', 'structure/io/pdbx/convert.py', [
        ('_proteinseq_type_list = ["polypeptide(D)", "polypeptide(L)"]\n',
         '_COORD_COLUMNS = ["Cartn_x", "Cartn_y", "Cartn_z"]\n_proteinseq_type_list = ["polypeptide(D)", "polypeptide(L)"]\n'),
        ('        atoms.coord[:, 0] = model_atom_site["Cartn_x"].as_array(np.float32)\n        atoms.coord[:, 1] = model_atom_site["Cartn_y"].as_array(np.float32)\n        atoms.coord[:, 2] = model_atom_site["Cartn_z"].as_array(np.float32)\n',
         '        for dim, column_name in enumerate(_COORD_COLUMNS):\n            atoms.coord[:, dim] = model_atom_site[column_name].as_array(np.float32)\n        _COORD_COLUMNS.append(_COORD_COLUMNS.pop(0))\n'),
    ]),
    'C7': ('C16', 'structure/superimpose.py', [
        ('    mob_coord = _reshape_to_3d(coord(mobile))\n',
         '    for mobile in (mobile, fixed):\n        assert mobile is not None\n    mob_coord = _reshape_to_3d(coord(mobile))\n'),
    ]),
    'C8': ('C16', 'structure/superimpose.py', [
        ('    v[reflected_mask, :, -1] *= -1\n    matrices = np.matmul(v, w)\n',
         '    u = v\n    m = u @ w\n    v[reflected_mask, :, -1] *= -1\n    matrices = m\n'),
    ]),
    'C9': ('C14', 'structure/celllist.pyx', [
        ('        cdef float32 sq_dist\n',
         '        cdef float32 sq_dist\n        cdef int whole_sq_dist\n'),
        ('                    if sq_dist <= sq_radius:\n',
         '                    whole_sq_dist = sq_dist\n                    if whole_sq_dist <= sq_radius:\n'),
    ]),
    'C10': ('C11', 'sequence/align/cigar.py', [
        ('        elif op == CigarOp.SOFT_CLIP:\n',
         '        elif op == CigarOp.SOFT_CLIP or op == 5:\n'),
    ]),
    'C11': ('C11', 'sequence/align/cigar.py', [
        ('_str_to_op = {\n',
         '# Does the operation consume bases of the query (segment) sequence?\n_CONSUMES_QUERY = {\n    CigarOp.MATCH: True,\n    CigarOp.INSERTION: True,\n    CigarOp.DELETION: False,\n    CigarOp.INTRON: False,\n    CigarOp.SOFT_CLIP: True,\n    CigarOp.HARD_CLIP: False,\n    CigarOp.PADDING: False,\n    CigarOp.EQUAL: True,\n    CigarOp.DIFFERENT: True,\n    CigarOp.SOFT_CLIP: False,\n}\n\n_str_to_op = {\n'),
        ('            clip_mask[i : i + length] = False\n            seg_pos += length\n',
         '            clip_mask[i : i + length] = False\n            if _CONSUMES_QUERY[op]:\n                seg_pos += length\n'),
    ]),
    'C12': ('C14', 'structure/celllist.pyx', [
        ('        cdef int* list_ptr\n',
         '        cdef int* list_ptr\n        cdef int* k_ptr\n'),
        ('                                    list_ptr = <int*>cells[adj_i, adj_j, adj_k]\n',
         '                                    k_ptr = &adj_k\n                                    k_ptr[0] = adj_k + 1\n                                    list_ptr = <int*>cells[adj_i, adj_j, adj_k]\n'),
    ]),
    'C13': ('C14', 'structure/celllist.pyx', [
        ('        # Get indices for adjacent atoms, based on a cell radius\n        all_indices = self._get_atoms_in_cells(\n            coord, cell_radii, is_multi_radius',
         '        sq_radii[:] = np.asarray(sq_radii) * 2\n        # Get indices for adjacent atoms, based on a cell radius\n        all_indices = self._get_atoms_in_cells(\n            coord, cell_radii, is_multi_radius'),
    ]),
    'C13b': ('C14', 'structure/celllist.pyx', [
        ('        if is_multi_radius:\n            sq_radii = radius * radius\n',
         '        radius = radius * 2\n        if is_multi_radius:\n            sq_radii = radius * radius\n'),
    ]),
    'C14': ('C10', 'sequence/align/selector.pyx', [
        ('        self._threshold = permutation_offset + permutation_range / compression\n',
         "        self._threshold = permutation_offset + permutation_range / compression\n        setattr(self, '_threshold', permutation_range / compression)\n"),
    ]),
    'C14b': ('C10', 'sequence/align/selector.pyx', [
        ('        self._threshold = permutation_offset + permutation_range / compression\n',
         '        self._threshold = permutation_offset + permutation_range / compression\n        self.rescale(permutation_offset)\n\n    def rescale(self, offset):\n        self._threshold = self._threshold - offset\n'),
    ]),
    'C15': ('C17', 'structure/residues.py', [
        ('    residue_starts = np.where(residue_change_mask)[0] + 1\n',
         '    residue_starts = np.where(residue_change_mask)[0] + 1\n    view = residue_starts[:]\n    view += 1\n'),
    ]),
    'C15b': ('C17', 'structure/residues.py', [
        ('    residue_starts = np.where(residue_change_mask)[0] + 1\n',
         '    residue_starts = np.where(residue_change_mask)[0] + 1\n    def _shift():\n        residue_starts[:] = residue_starts + 1\n    _shift()\n'),
    ]),
    'C15c': ('C17', 'structure/residues.py', [
        ('    residue_starts = np.where(residue_change_mask)[0] + 1\n',
         '    residue_starts = np.where(residue_change_mask)[0] + 1\n    _ = residue_starts.clip(3, None, residue_starts)\n'),
    ]),
    'C15d': ('C17', 'structure/residues.py', [
        ('    residue_starts = np.where(residue_change_mask)[0] + 1\n',
         '    residue_starts = np.where(residue_change_mask)[0] + 1\n    _ = np.copyto(residue_starts, residue_starts + 1)\n'),
    ]),
    'C16': ('C04', 'structure/io/pdbx/convert.py', [
        ('    block = _get_block(pdbx_file, data_block)\n\n    extra_fields = set() if extra_fields is None else set(extra_fields)\n',
         '    block, extra_fields = _get_block(pdbx_file, data_block), ([] if extra_fields is None else extra_fields)\n'),
    ]),
    'C16b': ('C04', 'structure/io/pdbx/convert.py', [
        ('    block = _get_block(pdbx_file, data_block)\n\n    extra_fields = set() if extra_fields is None else set(extra_fields)\n',
         '    block = _get_block(pdbx_file, data_block)\n\n    fields = [] if extra_fields is None else extra_fields\n'),
        ('    _fill_annotations(atoms, model_atom_site, extra_fields, use_author_fields)\n',
         '    def _fill():\n        _fill_annotations(atoms, model_atom_site, fields, use_author_fields)\n    _fill()\n'),
    ]),
    'C16c': ('C04', 'structure/io/pdbx/convert.py', [
        ('    block = _get_block(pdbx_file, data_block)\n\n    extra_fields = set() if extra_fields is None else set(extra_fields)\n',
         '    block = _get_block(pdbx_file, data_block)\n\n    opts = [[] if extra_fields is None else extra_fields]\n'),
        ('    _fill_annotations(atoms, model_atom_site, extra_fields, use_author_fields)\n',
         '    _fill_annotations(atoms, model_atom_site, opts[0], use_author_fields)\n'),
    ]),
    'C16d': ('C04', 'structure/io/pdbx/convert.py', [
        ('    block = _get_block(pdbx_file, data_block)\n\n    extra_fields = set() if extra_fields is None else set(extra_fields)\n',
         '    block = _get_block(pdbx_file, data_block)\n\n    if (fields := extra_fields) is None:\n        fields = []\n'),
        ('    _fill_annotations(atoms, model_atom_site, extra_fields, use_author_fields)\n',
         '    _fill_annotations(atoms, model_atom_site, fields, use_author_fields)\n'),
    ]),
    'C16e': ('C04', 'structure/io/pdbx/convert.py', [
        ('    block = _get_block(pdbx_file, data_block)\n\n    extra_fields = set() if extra_fields is None else set(extra_fields)\n',
         '    block = _get_block(pdbx_file, data_block)\n\n    extra_fields = (lambda x: x)([] if extra_fields is None else extra_fields)\n'),
    ]),
    'C17': ('C05', 'structure/io/pdbx/compress.py', [
        ('def _compress_column(bcif_column, float_tolerance):\n',
         'def _compress_column(bcif_column, float_tolerance):\n    float_tolerance = 1e-6\n'),
    ]),
    'C17b': ('C05', 'structure/io/pdbx/compress.py', [
        ('def _compress_column(bcif_column, float_tolerance):\n',
         'def _compress_column(bcif_column, float_tolerance):\n    for float_tolerance in (1e-6,):\n        pass\n'),
    ]),
    'C18': ('C05', 'structure/io/pdbx/bcif.py', [
        ('            array = self._data.array.astype(dtype, copy=True)\n            if masked_value is None:\n',
         '            array = self._data.array.astype(dtype, copy=dtype != self._data.array.dtype)\n            if masked_value is None:\n'),
    ]),
    'C18b': ('C05', 'structure/io/pdbx/bcif.py', [
        ('            array = self._data.array.astype(dtype, copy=True)\n            if masked_value is None:\n',
         '            array = np.array(self._data.array, dtype=dtype, copy=None)\n            if masked_value is None:\n'),
    ]),
    'C19': ('C20', 'application/application.py', [
        ('            if timeout is not None and time.time() - self._start_time > timeout:\n',
         '            if bool(timeout) and time.time() - self._start_time > timeout:\n'),
    ]),
    'C19b': ('C20', 'application/application.py', [
        ('            if timeout is not None and time.time() - self._start_time > timeout:\n',
         '            if (timeout or 0) > 0 and time.time() - self._start_time > timeout:\n'),
    ]),
    # rule gaps red team C reported on the side (the plain edit was silent as well): lower bound of decode, a second digit loop, a truncating cast
    'Cg1': ('C03', 'sequence/alphabet.py', [
        ('        if code < 0 or code >= len(self._symbols):\n            raise AlphabetError(f"\'{code:d}\' is not a valid code")\n        return chr(',
         '        if code < -256 or code >= len(self._symbols):\n            raise AlphabetError(f"\'{code:d}\' is not a valid code")\n        return chr('),
    ]),
    'Cg2': ('C03', 'sequence/codon.py', [
        ('        return codons\n\n    @staticmethod\n    def load',
         '        wrong = np.zeros(numbers.shape + (3,), dtype=int)\n        for n in (0, 1, 2):\n            wrong[..., n] = numbers % _radix\n        return wrong\n\n    @staticmethod\n    def load'),
    ]),
    'Cg3': ('C14', 'structure/celllist.pyx', [
        ('                    if sq_dist <= sq_radius:\n',
         '                    if <int>sq_dist <= sq_radius:\n'),
    ]),
    # ---- red team D (redteam/D: alias model, effects, by-value inlining, casts, slices, folding, facts, equivalence) ----
    'D1': ('C17', 'structure/residues.py', [
        ('    residue_starts = np.where(residue_change_mask)[0] + 1\n',
         '    residue_starts = np.where(residue_change_mask)[0] + 1\n    view = residue_starts.T\n    view[:] = 0\n'),
    ]),
    'D1b': ('C05', 'structure/io/pdbx/bcif.py', [
        ('            array = self._data.array.astype(dtype, copy=True)\n            if masked_value is None:\n',
         '            array = self._data.array.T\n            if masked_value is None:\n'),
    ]),
    'D1c': ('C11', 'sequence/align/cigar.py', [
        ('        seg_codes = symbol_codes[segment_index, :]\n',
         '        seg_codes = symbol_codes[segment_index, :]\n        flipped = seg_codes.T\n        flipped[:] = 0\n'),
    ]),
    'D2': ('C17', 'structure/residues.py', [
        ('    residue_starts = np.where(residue_change_mask)[0] + 1\n',
         "    residue_starts = np.where(residue_change_mask)[0] + 1\n    view = np.einsum('i->i', residue_starts)\n    view[:] = 0\n"),
    ]),
    'D2b': ('C17', 'structure/residues.py', [
        ('    residue_starts = np.where(residue_change_mask)[0] + 1\n',
         '    residue_starts = np.where(residue_change_mask)[0] + 1\n    view = np.ascontiguousarray(a=residue_starts)\n    view[:] = 0\n'),
    ]),
    'D2c': ('C17', 'structure/residues.py', [
        ('    residue_starts = np.where(residue_change_mask)[0] + 1\n',
         '    residue_starts = np.where(residue_change_mask)[0] + 1\n    view = residue_starts.__array__()\n    view[:] = 0\n'),
    ]),
    'D2d': ('C17', 'structure/residues.py', [
        ('    residue_starts = np.where(residue_change_mask)[0] + 1\n',
         '    residue_starts = np.where(residue_change_mask)[0] + 1\n    view = max(residue_starts, residue_starts, key=id)\n    view[:] = 0\n'),
    ]),
    'D2e': ('C04', 'structure/io/pdbx/convert.py', [
        ('    block = _get_block(pdbx_file, data_block)\n\n    extra_fields = set() if extra_fields is None else set(extra_fields)\n',
         '    block = _get_block(pdbx_file, data_block)\n\n    extra_fields = set() if extra_fields is None else next(iter([extra_fields]))\n'),
    ]),
    'D2f': ('C04', 'structure/io/pdbx/convert.py', [
        ('    block = _get_block(pdbx_file, data_block)\n\n    extra_fields = set() if extra_fields is None else set(extra_fields)\n',
         '    block = _get_block(pdbx_file, data_block)\n\n    import contextlib\n    with contextlib.nullcontext(set() if extra_fields is None else extra_fields) as extra_fields:\n        pass\n'),
    ]),
    'D2g': ('C13', 'sequence/annotation.py', [
        ('            self._features = set(features)\n',
         '            self._features = next(iter([features]))\n'),
    ]),
    'D3': ('C17', 'structure/residues.py', [
        ('    residue_starts = np.where(residue_change_mask)[0] + 1\n',
         '    residue_starts = np.where(residue_change_mask)[0] + 1\n    box = []\n    box.append(residue_starts)\n    box[0][:] = 0\n'),
    ]),
    'D3b': ('C17', 'structure/residues.py', [
        ('    residue_starts = np.where(residue_change_mask)[0] + 1\n',
         '    residue_starts = np.where(residue_change_mask)[0] + 1\n    box = []\n    box += [residue_starts]\n    box[0][:] = 0\n'),
    ]),
    'D3c': ('C17', 'structure/residues.py', [
        ('    residue_starts = np.where(residue_change_mask)[0] + 1\n',
         '    residue_starts = np.where(residue_change_mask)[0] + 1\n    box = [] + [residue_starts]\n    box[0][:] = 0\n'),
    ]),
    'D3d': ('C04', 'structure/io/pdbx/convert.py', [
        ('    block = _get_block(pdbx_file, data_block)\n\n    extra_fields = set() if extra_fields is None else set(extra_fields)\n',
         "    block = _get_block(pdbx_file, data_block)\n\n    extra_fields = dict(given=set() if extra_fields is None else extra_fields)['given']\n"),
    ]),
    'D3e': ('C04', 'structure/io/pdbx/convert.py', [
        ('    block = _get_block(pdbx_file, data_block)\n\n    extra_fields = set() if extra_fields is None else set(extra_fields)\n',
         '    block = _get_block(pdbx_file, data_block)\n\n    extra_fields = [set() if extra_fields is None else extra_fields].copy()[0]\n'),
    ]),
    'D3f': ('C17', 'structure/residues.py', [
        ('    residue_starts = np.where(residue_change_mask)[0] + 1\n',
         '    residue_starts = np.where(residue_change_mask)[0] + 1\n    try:\n        raise ValueError(residue_starts)\n    except ValueError as e:\n        e.args[0][:] = 0\n'),
    ]),
    'D4': ('C05', 'structure/io/pdbx/bcif.py', [
        ('            array = self._data.array.astype(dtype, copy=True)\n            if masked_value is None:\n',
         '            opts = dict(copy=False)\n            array = self._data.array.astype(dtype, **opts)\n            if masked_value is None:\n'),
    ]),
    'D5': ('C11', 'sequence/align/cigar.py', [
        ('        seg_codes = symbol_codes[segment_index, :]\n',
         '        seg_codes = symbol_codes[segment_index, :]\n        part = np.split(seg_codes, 1)[0]\n        part[:] = 0\n'),
    ]),
    'D6': ('C17', 'structure/residues.py', [
        ('    residue_starts = np.where(residue_change_mask)[0] + 1\n',
         '    residue_starts = np.where(residue_change_mask)[0] + 1\n    np.asarray(residue_starts)[:] = 0\n'),
    ]),
    'D6b': ('C17', 'structure/residues.py', [
        ('    residue_starts = np.where(residue_change_mask)[0] + 1\n',
         '    residue_starts = np.where(residue_change_mask)[0] + 1\n    residue_starts.view().fill(0)\n'),
    ]),
    'D6c': ('C17', 'structure/residues.py', [
        ('    residue_starts = np.where(residue_change_mask)[0] + 1\n',
         '    residue_starts = np.where(residue_change_mask)[0] + 1\n    (residue_starts if add_exclusive_stop else residue_starts)[:] = 0\n'),
    ]),
    'D6d': ('C11', 'sequence/align/cigar.py', [
        ('        seg_codes = symbol_codes[segment_index, :]\n',
         '        seg_codes = symbol_codes[segment_index, :]\n        np.asarray(seg_codes)[:] = 0\n'),
    ]),
    'D7': ('C16', 'structure/superimpose.py', [
        ('    v[reflected_mask, :, -1] *= -1\n    matrices = np.matmul(v, w)\n',
         '    u = v if reflected_mask.all() else v.copy()\n    v[reflected_mask, :, -1] *= -1\n    matrices = np.matmul(u, w)\n'),
    ]),
    'D7b': ('C16', 'structure/superimpose.py', [
        ('    v[reflected_mask, :, -1] *= -1\n    matrices = np.matmul(v, w)\n',
         '    u = v[::-1]\n    v[reflected_mask, :, -1] *= -1\n    matrices = np.matmul(u, w)\n'),
    ]),
    'D8': ('C17', 'structure/residues.py', [
        ('    residue_starts = np.where(residue_change_mask)[0] + 1\n',
         '    residue_starts = np.where(residue_change_mask)[0] + 1\n    residue_starts.size and residue_starts.fill(0)\n'),
    ]),
    'D8b': ('C17', 'structure/residues.py', [
        ('    residue_starts = np.where(residue_change_mask)[0] + 1\n',
         '    residue_starts = np.where(residue_change_mask)[0] + 1\n    assert residue_starts.fill(0) is None\n'),
    ]),
    'D8c': ('C17', 'structure/residues.py', [
        ('    residue_starts = np.where(residue_change_mask)[0] + 1\n',
         '    residue_starts = np.where(residue_change_mask)[0] + 1\n    class _Scratch:\n        residue_starts.fill(0)\n'),
    ]),
    'D8d': ('C03', 'sequence/codon.py', [
        ('            numbers = numbers - digit * val\n        return codons\n',
         '            numbers = numbers - digit * val\n        numbers.shape and codons.sort()\n        return codons\n'),
    ]),
    'D9': ('C17', 'structure/residues.py', [
        ('    residue_starts = np.where(residue_change_mask)[0] + 1\n',
         '    residue_starts = np.where(residue_change_mask)[0] + 1\n    (residue_starts := residue_starts[::-1])\n'),
    ]),
    'D9b': ('C17', 'structure/residues.py', [
        ('    residue_starts = np.where(residue_change_mask)[0] + 1\n',
         '    residue_starts = np.where(residue_change_mask)[0] + 1\n    if (residue_starts := residue_starts[::-1]) is None:\n        pass\n'),
    ]),
    'D9c': ('C17', 'structure/residues.py', [
        ('    residue_starts = np.where(residue_change_mask)[0] + 1\n',
         '    residue_starts = np.where(residue_change_mask)[0] + 1\n    n_starts = len(residue_starts := residue_starts[::-1])\n'),
    ]),
    'D10': ('C05', 'structure/io/pdbx/compress.py', [
        ('def _compress_column(bcif_column, float_tolerance):\n',
         'def _compress_column(bcif_column, float_tolerance):\n    match 1e-6:\n        case float_tolerance:\n            pass\n'),
    ]),
    'D10b': ('C17', 'structure/residues.py', [
        ('    residue_starts = np.where(residue_change_mask)[0] + 1\n',
         '    residue_starts = np.where(residue_change_mask)[0] + 1\n    from numpy import flatnonzero as residue_starts\n'),
    ]),
    'D10c': ('C17', 'structure/residues.py', [
        ('    residue_starts = np.where(residue_change_mask)[0] + 1\n',
         '    residue_starts = np.where(residue_change_mask)[0] + 1\n    def residue_starts():\n        return 0\n'),
    ]),
    'D11': ('C17', 'structure/residues.py', [
        ('    residue_starts = np.where(residue_change_mask)[0] + 1\n',
         '    residue_starts = np.where(residue_change_mask)[0] + 1\n    if 1 == 1.0:\n        residue_starts = residue_starts[::-1]\n'),
    ]),
    'D11b': ('C03', 'sequence/codon.py', [
        ('            codons[..., -(n + 1)] = digit\n',
         '            codons[..., -(n + 1)] = digit if n != 0.0 else 0\n'),
    ]),
    'D11c': ('C11', 'sequence/align/cigar.py', [
        ('            clip_mask[i : i + length] = False\n            seg_pos += length\n',
         '            clip_mask[i : i + length] = False\n            if True != 1:\n                seg_pos += length\n'),
    ]),
    'D11d': ('C11', 'sequence/align/cigar.py', [
        ('_str_to_op = {\n',
         'CigarOp.CLIP = CigarOp.HARD_CLIP\n\n_str_to_op = {\n'),
        ('        elif op == CigarOp.SOFT_CLIP:\n',
         '        elif op == CigarOp.SOFT_CLIP or op == CigarOp.CLIP:\n'),
    ]),
    'D12': ('C17', 'structure/residues.py', [
        ('    residue_starts = np.where(residue_change_mask)[0] + 1\n',
         '    def _clear():\n        residue_starts[:] = 0\n    residue_starts = np.where(residue_change_mask)[0] + 1\n    _clear()\n'),
    ]),
    'D12b': ('C17', 'structure/residues.py', [
        ('    residue_starts = np.where(residue_change_mask)[0] + 1\n',
         '    residue_starts = np.where(residue_change_mask)[0] + 1\n    def _clear():\n        np.put(residue_starts, 0, 0)\n    _clear()\n'),
    ]),
    'D12c': ('C17', 'structure/residues.py', [
        ('    residue_starts = np.where(residue_change_mask)[0] + 1\n',
         '    residue_starts = np.where(residue_change_mask)[0] + 1\n    def _clear():\n        target = residue_starts\n        target[:] = 0\n    _clear()\n'),
    ]),
    'D12d': ('C05', 'structure/io/pdbx/bcif.py', [
        ('            array = self._data.array.astype(dtype, copy=True)\n            if masked_value is None:\n',
         '            def _values():\n                return self._data.array\n            array = _values()\n            if masked_value is None:\n'),
    ]),
    'D13': ('C17', 'structure/residues.py', [
        ('    residue_starts = np.where(residue_change_mask)[0] + 1\n',
         '    residue_starts = np.where(residue_change_mask)[0] + 1\n    for row in residue_starts.reshape(1, -1):\n        row[:] = 0\n'),
    ]),
    'D13b': ('C17', 'structure/residues.py', [
        ('    residue_starts = np.where(residue_change_mask)[0] + 1\n',
         '    residue_starts = np.where(residue_change_mask)[0] + 1\n    try:\n        part = residue_starts[:]\n        part[:] = 0\n    except ValueError:\n        pass\n'),
    ]),
    'D14': ('C17', 'structure/residues.py', [
        ('def get_residue_starts(array, add_exclusive_stop=False):\n',
         'def _check_starts(starts):\n    clear = lambda: 0\n    starts[:] = clear()\n\n\ndef get_residue_starts(array, add_exclusive_stop=False):\n'),
        ('    residue_starts = np.where(residue_change_mask)[0] + 1\n',
         '    residue_starts = np.where(residue_change_mask)[0] + 1\n    _check_starts(residue_starts)\n'),
    ]),
    'D15': ('C11', 'sequence/align/cigar.py', [
        ('        symbol_codes = get_codes(alignment)\n',
         '        symbol_codes = get_codes(alignment)\n        np.minimum(symbol_codes, 0, symbol_codes)\n'),
    ]),
    'D15b': ('C11', 'sequence/align/cigar.py', [
        ('        seg_codes = symbol_codes[segment_index, :]\n',
         '        seg_codes = symbol_codes[segment_index, :]\n        np.minimum(seg_codes, 0, seg_codes)\n'),
    ]),
    'D15c': ('C11', 'sequence/align/cigar.py', [
        ('        symbol_codes = get_codes(alignment)\n',
         '        symbol_codes = get_codes(alignment)\n        np.random.default_rng(0).shuffle(symbol_codes, axis=1)\n'),
    ]),
    'D15d': ('C17', 'structure/residues.py', [
        ('    residue_starts = np.where(residue_change_mask)[0] + 1\n',
         '    residue_starts = np.where(residue_change_mask)[0] + 1\n    _ = np.clip(residue_starts, 3, None, residue_starts)\n'),
    ]),
    'D15e': ('C17', 'structure/residues.py', [
        ('    residue_starts = np.where(residue_change_mask)[0] + 1\n',
         '    residue_starts = np.where(residue_change_mask)[0] + 1\n    _ = np.ndarray.fill(residue_starts, 0)\n'),
    ]),
    'D15f': ('C17', 'structure/residues.py', [
        ('    residue_starts = np.where(residue_change_mask)[0] + 1\n',
         '    residue_starts = np.where(residue_change_mask)[0] + 1\n    _ = np.random.default_rng(3).shuffle(residue_starts)\n'),
    ]),
    'D16': ('C17', 'structure/residues.py', [
        ('    residue_starts = np.where(residue_change_mask)[0] + 1\n',
         '    for _unused in (residue_change_mask.fill(True),):\n        pass\n    residue_starts = np.where(residue_change_mask)[0] + 1\n'),
    ]),
    'D16b': ('C17', 'structure/residues.py', [
        ('    residue_starts = np.where(residue_change_mask)[0] + 1\n',
         '    _junk = [0 for _unused in (residue_change_mask.fill(True),)]\n    residue_starts = np.where(residue_change_mask)[0] + 1\n'),
    ]),
    'D17': ('C01', 'structure/atoms.py', [
        ('    def __init__(self, length):\n        """\n        Create the annotation arrays\n        """\n',
         '    _ATOM_AXIS = -2\n\n    def __init__(self, length):\n        """\n        Create the annotation arrays\n        """\n'),
        ('            self._coord = np.delete(self._coord, index, axis=-2)',
         '            self._coord = np.delete(self._coord, index, axis=self._ATOM_AXIS)'),
        ('    def __init__(self, depth, length):\n        super().__ini',
         "    def __init__(self, depth, length):\n        self.__dict__['_ATOM_AXIS'] = 0\n        super().__ini"),
    ]),
    'D17b': ('C01', 'structure/atoms.py', [
        ('    def __init__(self, length):\n        """\n        Create the annotation arrays\n        """\n',
         '    _ATOM_AXIS = -2\n\n    def __init__(self, length):\n        """\n        Create the annotation arrays\n        """\n'),
        ('            self._coord = np.delete(self._coord, index, axis=-2)',
         '            self._coord = np.delete(self._coord, index, axis=self._ATOM_AXIS)'),
        ('    def __init__(self, depth, length):\n        super().__ini',
         "    def __init__(self, depth, length):\n        object.__setattr__(self, '_ATOM_AXIS', 0)\n        super().__ini"),
    ]),
    'D17c': ('C01', 'structure/atoms.py', [
        ('    def __init__(self, length):\n        """\n        Create the annotation arrays\n        """\n',
         '    _ATOM_AXIS = -2\n\n    def __init__(self, length):\n        """\n        Create the annotation arrays\n        """\n'),
        ('            self._coord = np.delete(self._coord, index, axis=-2)',
         '            self._coord = np.delete(self._coord, index, axis=self._ATOM_AXIS)'),
        ('class AtomArrayStack(_AtomArrayBase):',
         "class AtomArrayStack(type('_StackAxes', (_AtomArrayBase,), {'_ATOM_AXIS': 0})):"),
    ]),
    'D18': ('C20', 'application/application.py', [
        ('        else:\n            self._state = AppState.JOINED\n        self.clean_up()\n',
         '        else:\n            self._state = AppState.JOINED\n        self._finish()\n\n    @requires_state(AppState.CREATED)\n    def _finish(self):\n        self.clean_up()\n'),
    ]),
    'D18b': ('C17', 'structure/residues.py', [
        ('def get_residue_starts(array, add_exclusive_stop=False):\n',
         'def _shifted(f):\n    return lambda *a: f(*a) + 1\n\n\n@_shifted\ndef _starts_of(mask):\n    return np.where(mask)[0] + 1\n\n\ndef get_residue_starts(array, add_exclusive_stop=False):\n'),
        ('    residue_starts = np.where(residue_change_mask)[0] + 1\n',
         '    residue_starts = _starts_of(residue_change_mask)\n'),
    ]),
    'D19': ('C17', 'structure/residues.py', [
        ('def get_residue_starts(array, add_exclusive_stop=False):\n',
         'residue_change_mask = np.zeros(0, dtype=bool)\n\n\ndef _starts():\n    return np.where(residue_change_mask)[0] + 1\n\n\ndef get_residue_starts(array, add_exclusive_stop=False):\n'),
        ('    residue_starts = np.where(residue_change_mask)[0] + 1\n',
         '    residue_starts = _starts()\n'),
    ]),
    'D20': ('C14', 'structure/celllist.pyx', [
        ('                    if sq_dist <= sq_radius:\n',
         '                    if <signed int>sq_dist <= sq_radius:\n'),
    ]),
    'D20b': ('C14', 'structure/celllist.pyx', [
        ('                    if sq_dist <= sq_radius:\n',
         '                    if <long int>sq_dist <= sq_radius:\n'),
    ]),
    'D20c': ('C14', 'structure/celllist.pyx', [
        ('ctypedef np.uint64_t ptr\n',
         'ctypedef np.uint64_t ptr\nctypedef int whole\n'),
        ('                    if sq_dist <= sq_radius:\n',
         '                    if <whole>sq_dist <= sq_radius:\n'),
    ]),
    'D20d': ('C14', 'structure/celllist.pyx', [
        ('                    if sq_dist <= sq_radius:\n',
         '                    if <ptr>sq_dist <= sq_radius:\n'),
    ]),
    'D21': ('C14', 'structure/celllist.pyx', [
        ('                                if (adj_k >= 0 and adj_k < cells.shape[2]):\n                                    # Fill index array\n                                    # with indices in cell\n                                    list_ptr = <int*>cells[adj_i, adj_j, adj_k]\n                                    length = cell_length[adj_i, adj_j, adj_k]\n                                    for cell_i in range(length):\n                                        indices[pos_i, array_i] = \\\n                                            list_ptr[cell_i]\n                                        array_i += 1\n',
         '                                if (adj_k >= 0 and adj_k < cells.shape[2]):\n                                    adj_k = adj_k + 1\n                                else:\n                                    continue\n                                list_ptr = <int*>cells[adj_i, adj_j, adj_k]\n                                length = cell_length[adj_i, adj_j, adj_k]\n                                for cell_i in range(length):\n                                    indices[pos_i, array_i] = \\\n                                        list_ptr[cell_i]\n                                    array_i += 1\n'),
    ]),
    'D21b': ('C14', 'structure/celllist.pyx', [
        ('                                if (adj_k >= 0 and adj_k < cells.shape[2]):\n',
         '                                if (adj_k >= 0 and adj_k < cells.shape[2] and advance(&adj_k)):\n'),
    ]),
    'D21c': ('C14', 'structure/celllist.pyx', [
        ('                                if (adj_k >= 0 and adj_k < cells.shape[2]):\n',
         '                                if (adj_k >= 0 and adj_k < cells.shape[2] and (adj_k := adj_k + 1)):\n'),
    ]),
    'D21d': ('C14', 'structure/celllist.pyx', [
        ('        cdef int* list_ptr\n',
         '        cdef int* list_ptr\n        cdef int* k_ptr = &adj_k\n'),
        ('                                    list_ptr = <int*>cells[adj_i, adj_j, adj_k]\n',
         '                                    memset(k_ptr, 1, sizeof(int))\n                                    list_ptr = <int*>cells[adj_i, adj_j, adj_k]\n'),
    ]),
    'D22': ('C05', 'structure/io/pdbx/bcif.py', [
        ('            array = self._data.array.astype(dtype, copy=True)\n            if masked_value is None:\n',
         "            array = self._data.array.astype(dtype, copy=True)\n            if masked_value is None:\n                np.putmask(self._data.array, self._mask.array == MaskValue.INAPPLICABLE, '.')\n"),
    ]),
    'D22b': ('C05', 'structure/io/pdbx/bcif.py', [
        ('            array = self._data.array.astype(dtype, copy=True)\n            if masked_value is None:\n',
         "            array = self._data.array.astype(dtype, copy=True)\n            if masked_value is None:\n                np.copyto(self._data.array, '.', where=self._mask.array == MaskValue.INAPPLICABLE)\n"),
    ]),
    'D23': ('C04', 'structure/io/pdbx/convert.py', [
        ('    block = _get_block(pdbx_file, data_block)\n\n    extra_fields = set() if extra_fields is None else set(extra_fields)\n',
         '    block = _get_block(pdbx_file, data_block)\n\n    extra_fields = set() if extra_fields is None else extra_fields\n'),
        ('    _fill_annotations(atoms, model_atom_site, extra_fields, use_author_fields)\n',
         '    (_fill_annotations if use_author_fields else _fill_annotations)(atoms, model_atom_site, extra_fields, use_author_fields)\n'),
    ]),
    'D23b': ('C04', 'structure/io/pdbx/convert.py', [
        ('    block = _get_block(pdbx_file, data_block)\n\n    extra_fields = set() if extra_fields is None else set(extra_fields)\n',
         '    block = _get_block(pdbx_file, data_block)\n\n    extra_fields = set() if extra_fields is None else extra_fields\n'),
        ('    _fill_annotations(atoms, model_atom_site, extra_fields, use_author_fields)\n',
         '    import functools\n    functools.partial(_fill_annotations, atoms, model_atom_site, extra_fields)(use_author_fields)\n'),
    ]),
    'D23c': ('C05', 'structure/io/pdbx/compress.py', [
        ('def _compress_column(bcif_column, float_tolerance):\n    data = _compress_data(bcif_column.data, float_tolerance)\n',
         'def _compress_column(bcif_column, float_tolerance):\n    import functools\n    data = functools.partial(_compress_data, float_tolerance=1e-6)(bcif_column.data)\n'),
    ]),
    'D24': ('C13', 'sequence/annotation.py', [
        ('            self._features = set(features)\n',
         "            setattr(self, '_features', features)\n"),
    ]),
    'D24b': ('C13', 'sequence/annotation.py', [
        ('            self._features = set(features)\n',
         "            self.__dict__['_features'] = features\n"),
    ]),
    'D24c': ('C13', 'sequence/annotation.py', [
        ('            self._features = set(features)\n',
         '            self._features, _ = features, None\n'),
    ]),
    'D25': ('C20', 'application/application.py', [
        ('            if timeout is not None and time.time() - self._start_time > timeout:\n',
         '            if timeout is not None and timeout.__bool__() and time.time() - self._start_time > timeout:\n'),
    ]),
    'D25b': ('C20', 'application/application.py', [
        ('            if timeout is not None and time.time() - self._start_time > timeout:\n',
         '            if timeout is not None and timeout != 0 and time.time() - self._start_time > timeout:\n'),
    ]),
    'D25c': ('C20', 'application/application.py', [
        ('            if timeout is not None and time.time() - self._start_time > timeout:\n',
         '            if any(t for t in [timeout]) and time.time() - self._start_time > timeout:\n'),
    ]),
    'D26': ('C11', 'sequence/align/cigar.py', [
        ('_str_to_op = {\n',
         '# Does the operation consume bases of the query (segment) sequence?\n_CONSUMES_QUERY = {\n    CigarOp.MATCH: True,\n    CigarOp.INSERTION: True,\n    CigarOp.DELETION: False,\n    CigarOp.INTRON: False,\n    CigarOp.SOFT_CLIP: True,\n    CigarOp.HARD_CLIP: False,\n    CigarOp.PADDING: False,\n    CigarOp.EQUAL: True,\n    CigarOp.DIFFERENT: True,\n}\n_CONSUMES_QUERY[CigarOp.SOFT_CLIP] = False\n\n_str_to_op = {\n'),
        ('            clip_mask[i : i + length] = False\n            seg_pos += length\n',
         '            clip_mask[i : i + length] = False\n            if _CONSUMES_QUERY[op]:\n                seg_pos += length\n'),
    ]),
    'D26b': ('C11', 'sequence/align/cigar.py', [
        ('_str_to_op = {\n',
         '# Does the operation consume bases of the query (segment) sequence?\n_CONSUMES_QUERY = {\n    CigarOp.MATCH: True,\n    CigarOp.INSERTION: True,\n    CigarOp.DELETION: False,\n    CigarOp.INTRON: False,\n    CigarOp.SOFT_CLIP: True,\n    CigarOp.HARD_CLIP: False,\n    CigarOp.PADDING: False,\n    CigarOp.EQUAL: True,\n    CigarOp.DIFFERENT: True,\n}\n_CONSUMES_QUERY.update({CigarOp.SOFT_CLIP: False})\n\n_str_to_op = {\n'),
        ('            clip_mask[i : i + length] = False\n            seg_pos += length\n',
         '            clip_mask[i : i + length] = False\n            if _CONSUMES_QUERY[op]:\n                seg_pos += length\n'),
    ]),
    'D27': ('C03', 'sequence/codon.py', [
        ('        codons = np.zeros(numbers.shape + (3,), dtype=int)\n',
         '        given = numbers\n        codons = np.zeros(numbers.shape + (3,), dtype=int)\n'),
        ('            numbers = numbers - digit * val\n        return codons\n',
         '            numbers = numbers - digit * val\n        given[...] = numbers\n        return codons\n'),
    ]),
    'D28': ('C16', 'structure/superimpose.py', [
        ('        mob_filtered = mob_coord[:, atom_mask, :]\n        fix_filtered = fix_coord[:, atom_mask, :]\n',
         '        mob_filtered = mob_coord[:, atom_mask * 1 * 1, :]\n        fix_filtered = fix_coord[:, atom_mask * 1 * 1, :]\n'),
    ]),
    'D28b': ('C16', 'structure/superimpose.py', [
        ('        mob_filtered = mob_coord[:, atom_mask, :]\n        fix_filtered = fix_coord[:, atom_mask, :]\n',
         '        mob_filtered = mob_coord[:, atom_mask + 1 - 1, :]\n        fix_filtered = fix_coord[:, atom_mask + 1 - 1, :]\n'),
    ]),
    'D29': ('C04', 'structure/io/pdbx/convert.py', [
        ('_proteinseq_type_list = ["polypeptide(D)", "polypeptide(L)"]\n',
         '_COORD_COLUMNS = ["Cartn_x", "Cartn_y", "Cartn_z"]\nglobals()[\'_COORD_COLUMNS\'].reverse()\n_proteinseq_type_list = ["polypeptide(D)", "polypeptide(L)"]\n'),
        ('        atoms.coord[:, 0] = model_atom_site["Cartn_x"].as_array(np.float32)\n        atoms.coord[:, 1] = model_atom_site["Cartn_y"].as_array(np.float32)\n        atoms.coord[:, 2] = model_atom_site["Cartn_z"].as_array(np.float32)\n',
         '        for dim, column_name in enumerate(_COORD_COLUMNS):\n            atoms.coord[:, dim] = model_atom_site[column_name].as_array(np.float32)\n'),
    ]),
    'D29b': ('C04', 'structure/io/pdbx/convert.py', [
        ('_proteinseq_type_list = ["polypeptide(D)", "polypeptide(L)"]\n',
         '_COORD_COLUMNS = ["Cartn_x", "Cartn_y", "Cartn_z"]\nvars()[\'_COORD_COLUMNS\'].reverse()\n_proteinseq_type_list = ["polypeptide(D)", "polypeptide(L)"]\n'),
        ('        atoms.coord[:, 0] = model_atom_site["Cartn_x"].as_array(np.float32)\n        atoms.coord[:, 1] = model_atom_site["Cartn_y"].as_array(np.float32)\n        atoms.coord[:, 2] = model_atom_site["Cartn_z"].as_array(np.float32)\n',
         '        for dim, column_name in enumerate(_COORD_COLUMNS):\n            atoms.coord[:, dim] = model_atom_site[column_name].as_array(np.float32)\n'),
    ]),
    # rule gaps red team D reported on the side
    'Dg1': ('C03', 'sequence/codon.py', [
        ('        return np.sum(_radix_multiplier * codons, axis=-1)\n',
         '        number = np.sum(_radix_multiplier * codons, axis=-1)\n        codons[...] = 0\n        return number\n'),
    ]),
    'Dg2': ('C20', 'application/application.py', [
        ('            if timeout is not None and time.time() - self._start_time > timeout:\n',
         '            if timeout is not None and timeout > 0 and time.time() - self._start_time > timeout:\n'),
    ]),
    'Dg3': ('C20', 'application/application.py', [
        ('            if timeout is not None and time.time() - self._start_time > timeout:\n',
         '            if timeout not in (None, 0) and time.time() - self._start_time > timeout:\n'),
    ]),
    # red team E (redteam/E): the edits that the machinery reports now
    'Em1': ('C17', 'structure/residues.py', [
        ('    residue_starts = np.where(residue_change_mask)[0] + 1\n',
         '    residue_starts = np.where(residue_change_mask)[0] + 1\n    view = residue_starts.conj()\n    view[:] = 0\n'),
    ]),
    'Em1b': ('C17', 'structure/residues.py', [
        ('    residue_starts = np.where(residue_change_mask)[0] + 1\n',
         '    residue_starts = np.where(residue_change_mask)[0] + 1\n    view = residue_starts.conjugate()\n    view[:] = 0\n'),
    ]),
    'Em1c': ('C17', 'structure/residues.py', [
        ('    residue_starts = np.where(residue_change_mask)[0] + 1\n',
         "    residue_starts = np.where(residue_change_mask)[0] + 1\n    box = dict.fromkeys(['k'], residue_starts)\n    box['k'][:] = 0\n"),
    ]),
    'Em1d': ('C05', 'structure/io/pdbx/bcif.py', [
        ('                array = self._data.array.astype(dtype, copy=True)\n',
         '                array = self._data.array.conj()\n'),
    ]),
    'Em2': ('C17', 'structure/residues.py', [
        ('    residue_starts = np.where(residue_change_mask)[0] + 1\n',
         '    residue_starts = np.where(residue_change_mask)[0] + 1\n    from biotite.structure.io.pdbx.cif import _arrayfy as _lift\n    view = _lift(residue_starts)\n    view[:] = 0\n'),
    ]),
    'Em2b': ('C17', 'structure/residues.py', [
        ('    residue_starts = np.where(residue_change_mask)[0] + 1\n',
         '    residue_starts = np.where(residue_change_mask)[0] + 1\n    import biotite.structure.io.pdbx.cif as _cif\n    view = _cif._arrayfy(residue_starts)\n    view[:] = 0\n'),
    ]),
    'Em3': ('C17', 'structure/residues.py', [
        ('    residue_starts = np.where(residue_change_mask)[0] + 1\n',
         '    residue_starts = np.where(residue_change_mask)[0] + 1\n    box = {}\n    box[0, 0] = residue_starts\n    box[0, 0][:] = 0\n'),
    ]),
    'Em3b': ('C17', 'structure/residues.py', [
        ('    residue_starts = np.where(residue_change_mask)[0] + 1\n',
         '    residue_starts = np.where(residue_change_mask)[0] + 1\n    box = np.empty((1, 1), dtype=object)\n    box[0, 0] = residue_starts\n    box[0, 0][:] = 0\n'),
    ]),
    'Em4': ('C17', 'structure/residues.py', [
        ('    residue_change_mask = (\n        chain_id_changes | res_id_changes | ins_code_changes | res_name_changes\n    )\n',
         '    residue_change_mask = chain_id_changes | res_id_changes\n    def _starts(mask=residue_change_mask):\n        return np.where(mask)[0] + 1\n    residue_change_mask = residue_change_mask | ins_code_changes | res_name_changes\n'),
        ('    residue_starts = np.where(residue_change_mask)[0] + 1\n',
         '    residue_starts = _starts()\n'),
    ]),
    'Em5': ('C17', 'structure/residues.py', [
        ('def get_residue_starts(array, add_exclusive_stop=False):\n',
         'async def _starts(mask):\n    return np.where(mask)[0] + 1\n\n\ndef get_residue_starts(array, add_exclusive_stop=False):\n'),
        ('    residue_starts = np.where(residue_change_mask)[0] + 1\n',
         '    residue_starts = _starts(residue_change_mask)\n'),
    ]),
    'Em6': ('C11', 'sequence/align/cigar.py', [
        ('    operations[insertion_mask] = CigarOp.INSERTION\n',
         '    operations[insertion_mask] = CigarOp.INSERTION\n    operations[insertion_mask] = CigarOp.DELETION\n'),
    ]),
    'Em6b': ('C11', 'sequence/align/cigar.py', [
        ('    operations[insertion_mask] = CigarOp.INSERTION\n',
         '    if False:\n        operations[insertion_mask] = CigarOp.INSERTION\n    operations[insertion_mask] = CigarOp.DELETION\n'),
    ]),
    'Em7': ('C11', 'sequence/align/cigar.py', [
        ('    @staticmethod\n    def from_cigar_symbol(symbol):',
         '    def __eq__(self, other):\n        return int(self) == int(other) or {int(self), int(other)} == {4, 5}\n\n    __hash__ = enum.IntEnum.__hash__\n\n    @staticmethod\n    def from_cigar_symbol(symbol):'),
    ]),
    'Em8': ('C17', 'structure/residues.py', [
        ('    residue_starts = np.where(residue_change_mask)[0] + 1\n',
         '    residue_starts = np.where(residue_change_mask)[0] + 1\n    residue_starts[:] = 0\n'),
        ('def apply_residue_wise(',
         'if False:\n    def get_residue_starts(array, add_exclusive_stop=False):\n        if array.array_length() == 0:\n            if add_exclusive_stop:\n                return np.array([0], dtype=int)\n            return np.array([], dtype=int)\n        chain_id_changes = array.chain_id[1:] != array.chain_id[:-1]\n        res_id_changes = array.res_id[1:] != array.res_id[:-1]\n        ins_code_changes = array.ins_code[1:] != array.ins_code[:-1]\n        res_name_changes = array.res_name[1:] != array.res_name[:-1]\n        residue_change_mask = chain_id_changes | res_id_changes | ins_code_changes | res_name_changes\n        residue_starts = np.where(residue_change_mask)[0] + 1\n        if add_exclusive_stop:\n            return np.concatenate(([0], residue_starts, [array.array_length()]))\n        else:\n            return np.concatenate(([0], residue_starts))\n\n\ndef apply_residue_wise('),
    ]),
    'Em8b': ('C17', 'structure/residues.py', [
        ('    residue_starts = np.where(residue_change_mask)[0] + 1\n',
         '    residue_starts = np.where(residue_change_mask)[0] + 1\n    residue_starts[:] = 0\n'),
        ('def apply_residue_wise(',
         'try:\n    raise ImportError\nexcept ImportError:\n    pass\nelse:\n    def get_residue_starts(array, add_exclusive_stop=False):\n        if array.array_length() == 0:\n            if add_exclusive_stop:\n                return np.array([0], dtype=int)\n            return np.array([], dtype=int)\n        chain_id_changes = array.chain_id[1:] != array.chain_id[:-1]\n        res_id_changes = array.res_id[1:] != array.res_id[:-1]\n        ins_code_changes = array.ins_code[1:] != array.ins_code[:-1]\n        res_name_changes = array.res_name[1:] != array.res_name[:-1]\n        residue_change_mask = chain_id_changes | res_id_changes | ins_code_changes | res_name_changes\n        residue_starts = np.where(residue_change_mask)[0] + 1\n        if add_exclusive_stop:\n            return np.concatenate(([0], residue_starts, [array.array_length()]))\n        else:\n            return np.concatenate(([0], residue_starts))\n\n\ndef apply_residue_wise('),
    ]),
    'Em8c': ('C17', 'structure/residues.py', [
        ('def apply_residue_wise(',
         'def _other(array, add_exclusive_stop=False):\n    return np.array([0])\n\n\nget_residue_starts = _other\n\n\ndef apply_residue_wise('),
    ]),
    'Em8d': ('C11', 'sequence/align/cigar.py', [
        ('    HARD_CLIP = 5\n',
         '    HARD_CLIP = 4\n'),
        ('_str_to_op = {\n',
         'if False:\n    class CigarOp(enum.IntEnum):\n        MATCH = 0\n        INSERTION = 1\n        DELETION = 2\n        INTRON = 3\n        SOFT_CLIP = 4\n        HARD_CLIP = 5\n        PADDING = 6\n        EQUAL = 7\n        DIFFERENT = 8\n        BACK = 9\n\n_str_to_op = {\n'),
    ]),
    'Em9': ('C13', 'sequence/annotation.py', [
        ('                        locs_in_scope.append(Location(first, last, loc.strand, defect))\n',
         '                        from sys import maxsize as last\n                        locs_in_scope.append(Location(first, last, loc.strand, defect))\n'),
    ]),
    'Em9b': ('C13', 'sequence/annotation.py', [
        ('                        locs_in_scope.append(Location(first, last, loc.strand, defect))\n',
         '                        _unused = (0, (last := sys.maxsize))\n                        locs_in_scope.append(Location(first, last, loc.strand, defect))\n'),
    ]),
    'Em9c': ('C13', 'sequence/annotation.py', [
        ('                        locs_in_scope.append(Location(first, last, loc.strand, defect))\n',
         '                        try:\n                            raise ValueError(0)\n                        except ValueError as last:\n                            pass\n                        locs_in_scope.append(Location(first, last, loc.strand, defect))\n'),
    ]),
    'Em10': ('C13', 'sequence/annotation.py', [
        ('                        locs_in_scope.append(Location(first, last, loc.strand, defect))\n',
         '                        locs_in_scope.extend(Location(first, last, loc.strand, defect) for last in (sys.maxsize,))\n'),
    ]),
    'Em10b': ('C13', 'sequence/annotation.py', [
        ('                        locs_in_scope.append(Location(first, last, loc.strand, defect))\n',
         '                        locs_in_scope.append((lambda last: Location(first, last, loc.strand, defect))(sys.maxsize))\n'),
    ]),
    'Em11': ('C16', 'structure/superimpose.py', [
        ('        mob_filtered = mob_coord[:, atom_mask, :]\n        fix_filtered = fix_coord[:, atom_mask, :]\n',
         '        mob_filtered = mob_coord[:, atom_mask + 0, :]\n        fix_filtered = fix_coord[:, atom_mask + 0, :]\n'),
    ]),
    'Em11b': ('C16', 'structure/superimpose.py', [
        ('        mob_filtered = mob_coord[:, atom_mask, :]\n        fix_filtered = fix_coord[:, atom_mask, :]\n',
         '        mob_filtered = mob_coord[:, atom_mask - 0, :]\n        fix_filtered = fix_coord[:, atom_mask - 0, :]\n'),
    ]),
    'Em12': ('C17', 'structure/residues.py', [
        ('    residue_change_mask = (\n        chain_id_changes | res_id_changes | ins_code_changes | res_name_changes\n    )\n',
         '    residue_change_mask = (\n        chain_id_changes | res_id_changes | ins_code_changes | res_name_changes | np.zeros((1, 1), dtype=bool)\n    )\n'),
    ]),
    'Em13': ('C03', 'sequence/codon.py', [
        ('    def _to_codon(numbers):\n',
         '    def _to_codon(numbers, _radix=5):\n'),
    ]),
    'Em13b': ('C03', 'sequence/codon.py', [
        ('    def _to_number(codons):\n',
         '    def _to_number(codons, _radix_multiplier=np.array([1, 4, 16])):\n'),
    ]),
    'Em14': ('C17', 'structure/residues.py', [
        ('def get_residue_starts(array, add_exclusive_stop=False):\n',
         'def _shifted(f):\n    return lambda *a, **k: f(*a, **k) + 1\n\n\n@_shifted\ndef get_residue_starts(array, add_exclusive_stop=False):\n'),
    ]),
    'Em14b': ('C15', 'structure/atoms.py', [
        ('def coord(item):\n',
         'def _rounded(f):\n    return lambda item: np.round(f(item))\n\n\n@_rounded\ndef coord(item):\n'),
    ]),
    'Em15b': ('C20', 'application/application.py', [
        ('            if timeout is not None and time.time() - self._start_time > timeout:\n',
         '            if timeout is not None and timeout != False and time.time() - self._start_time > timeout:\n'),
    ]),
    'Em15c': ('C20', 'application/application.py', [
        ('            if timeout is not None and time.time() - self._start_time > timeout:\n',
         '            if [t for t in [timeout] if t] and time.time() - self._start_time > timeout:\n'),
    ]),
    'Em15d': ('C20', 'application/application.py', [
        ('            if timeout is not None and time.time() - self._start_time > timeout:\n',
         '            if list(filter(None, [timeout])) and time.time() - self._start_time > timeout:\n'),
    ]),
    'Em15e': ('C20', 'application/application.py', [
        ('            if timeout is not None and time.time() - self._start_time > timeout:\n',
         '            limit = [timeout][0]\n            if limit and time.time() - self._start_time > timeout:\n'),
    ]),
    'Em15f': ('C20', 'application/application.py', [
        ('            if timeout is not None and time.time() - self._start_time > timeout:\n',
         '            given = lambda t: t\n            if given(timeout) and time.time() - self._start_time > timeout:\n'),
    ]),
    'Em16': ('C03', 'sequence/seqtypes.py', [
        ('            sequence = [symbol.upper() for symbol in sequence]\n',
         '            upper = (symbol.upper() for symbol in sequence)\n            sequence = upper\n'),
    ]),
    'Em16b': ('C03', 'sequence/seqtypes.py', [
        ('            sequence = [symbol.upper() for symbol in sequence]\n',
         '            sequence = (symbol.upper() for symbol in sequence) if True else None\n'),
    ]),
    'Em16c': ('C03', 'sequence/seqtypes.py', [
        ('            sequence = [symbol.upper() for symbol in sequence]\n',
         '            def _up(seq):\n                for symbol in seq:\n                    yield symbol.upper()\n            sequence = _up(sequence)\n'),
    ]),
    'Em16d': ('C03', 'sequence/seqtypes.py', [
        ('            sequence = [symbol.upper() for symbol in sequence]\n',
         '            import itertools as it\n            sequence = it.chain([symbol.upper() for symbol in sequence])\n'),
    ]),
    'Em16e': ('C03', 'sequence/seqtypes.py', [
        ('            sequence = [symbol.upper() for symbol in sequence]\n',
         '            sequence = [symbol.upper() for symbol in sequence].__iter__()\n'),
    ]),
    'Em17': ('C05', 'structure/io/pdbx/compress.py', [
        ('    data = _compress_data(bcif_column.data, float_tolerance)\n',
         "    data = globals()['_compress_data'](bcif_column.data, 1e-6)\n"),
    ]),
    'Em17b': ('C05', 'structure/io/pdbx/compress.py', [
        ('    data = _compress_data(bcif_column.data, float_tolerance)\n',
         "    data = eval('_compress_data')(bcif_column.data, 1e-6)\n"),
    ]),
    'Em18': ('C04', 'structure/io/pdbx/convert.py', [
        ('    _check_non_empty(array)\n\n    block = _get_or_create_block(pdbx_file, data_block)\n    Category = block.subcomponent_class()\n',
         '    _check_non_empty(array)\n\n    block = _get_or_create_block(pdbx_file, data_block)\n    Category = block.subcomponent_class()\n    array.res_id.__ifloordiv__(2)\n'),
    ]),
    'Em18b': ('C04', 'structure/io/pdbx/convert.py', [
        ('    _check_non_empty(array)\n\n    block = _get_or_create_block(pdbx_file, data_block)\n    Category = block.subcomponent_class()\n',
         '    _check_non_empty(array)\n\n    block = _get_or_create_block(pdbx_file, data_block)\n    Category = block.subcomponent_class()\n    import operator\n    operator.isub(array.res_id, 1)\n'),
    ]),
    'Em18c': ('C04', 'structure/io/pdbx/convert.py', [
        ('    _check_non_empty(array)\n\n    block = _get_or_create_block(pdbx_file, data_block)\n    Category = block.subcomponent_class()\n',
         '    _check_non_empty(array)\n\n    block = _get_or_create_block(pdbx_file, data_block)\n    Category = block.subcomponent_class()\n    import operator\n    operator.setitem(array.res_id, slice(None), 0)\n'),
    ]),
    'Em18d': ('C04', 'structure/io/pdbx/convert.py', [
        ('    _check_non_empty(array)\n\n    block = _get_or_create_block(pdbx_file, data_block)\n    Category = block.subcomponent_class()\n',
         '    _check_non_empty(array)\n\n    block = _get_or_create_block(pdbx_file, data_block)\n    Category = block.subcomponent_class()\n    array.res_id.setfield(0, array.res_id.dtype)\n'),
    ]),
    'Em18e': ('C04', 'structure/io/pdbx/convert.py', [
        ('    _check_non_empty(array)\n\n    block = _get_or_create_block(pdbx_file, data_block)\n    Category = block.subcomponent_class()\n',
         '    _check_non_empty(array)\n\n    block = _get_or_create_block(pdbx_file, data_block)\n    Category = block.subcomponent_class()\n    type(array.res_id).__setitem__(array.res_id, slice(None), 0)\n'),
    ]),
    'Em18f': ('C04', 'structure/io/pdbx/convert.py', [
        ('    _check_non_empty(array)\n\n    block = _get_or_create_block(pdbx_file, data_block)\n    Category = block.subcomponent_class()\n',
         "    _check_non_empty(array)\n\n    block = _get_or_create_block(pdbx_file, data_block)\n    Category = block.subcomponent_class()\n    vars(array)['_coord'] = array.coord * 0\n"),
    ]),
    'Em18g': ('C05', 'structure/io/pdbx/bcif.py', [
        ('            array = self._data.array.astype(dtype, copy=True)\n            if masked_value is None:\n',
         "            array = self._data.array.astype(dtype, copy=True)\n            if masked_value is None:\n                import operator\n                operator.setitem(self._data.array, self._mask.array == MaskValue.INAPPLICABLE, '.')\n"),
    ]),
    'Em19': ('C13', 'sequence/annotation.py', [
        ('            self._features = set(features)\n',
         "            vars(self)['_features'] = features\n"),
    ]),
    'Em19b': ('C13', 'sequence/annotation.py', [
        ('            self._features = set(features)\n',
         "            object.__setattr__(self, '_features', features)\n"),
    ]),
    'Em19c': ('C13', 'sequence/annotation.py', [
        ('            self._features = set(features)\n',
         '            self.__dict__.update(_features=features)\n'),
    ]),
    'Em20': ('C14', 'structure/celllist.pyx', [
        ('        cdef float32 sq_dist\n',
         '        cdef int sq_dist\n'),
    ]),
    'Em20b': ('C14', 'structure/celllist.pyx', [
        ('cdef inline float32 squared_distance(',
         'cdef inline int squared_distance('),
    ]),
    'Em20c': ('C14', 'structure/celllist.pyx', [
        ('    cdef float32 diff_x = x2 - x1\n',
         '    cdef int diff_x = x2 - x1\n'),
    ]),
    'Em21': ('C14', 'structure/celllist.pyx', [
        ('                                    list_ptr = <int*>cells[adj_i, adj_j, adj_k]\n                                    length = cell_length[adj_i, adj_j, adj_k]\n',
         '                                    try:\n                                        adj_k = adj_k + 1\n                                        raise ValueError\n                                    except ValueError:\n                                        list_ptr = <int*>cells[adj_i, adj_j, adj_k]\n                                        length = cell_length[adj_i, adj_j, adj_k]\n'),
    ]),
    'Em21b': ('C14', 'structure/celllist.pyx', [
        ('                                    list_ptr = <int*>cells[adj_i, adj_j, adj_k]\n                                    length = cell_length[adj_i, adj_j, adj_k]\n',
         '                                    try:\n                                        adj_k = adj_k + 1\n                                    except ValueError:\n                                        pass\n                                    else:\n                                        list_ptr = <int*>cells[adj_i, adj_j, adj_k]\n                                        length = cell_length[adj_i, adj_j, adj_k]\n'),
    ]),
    'Em21c': ('C14', 'structure/celllist.pyx', [
        ('                                    list_ptr = <int*>cells[adj_i, adj_j, adj_k]\n                                    length = cell_length[adj_i, adj_j, adj_k]\n',
         '                                    try:\n                                        adj_k = adj_k + 1\n                                    finally:\n                                        list_ptr = <int*>cells[adj_i, adj_j, adj_k]\n                                        length = cell_length[adj_i, adj_j, adj_k]\n'),
    ]),
    'Em22': ('C14', 'structure/celllist.pyx', [
        ('            for adj_i in range(i-cell_r, i+cell_r+1):\n                if (adj_i >= 0 and adj_i < cells.shape[0]):\n                    for adj_j in range(j-cell_r, j+cell_r+1):\n',
         '            for adj_i in range(max(i-cell_r, 0), min(i+cell_r+1, cells.shape[0])):\n                if True:\n                    for adj_j in range(j-cell_r, j+cell_r+1):\n'),
        ('                                        array_i += 1\n',
         '                                        array_i += 1\n                cells = self._cells[:1, :, :]\n                cell_length = self._cell_length[:1, :, :]\n'),
    ]),
    'Em23': ('C14', 'structure/celllist.pyx', [
        ('            for adj_i in range(i-cell_r, i+cell_r+1):\n                if (adj_i >= 0 and adj_i < cells.shape[0]):\n                    for adj_j in range(j-cell_r, j+cell_r+1):\n',
         '            for adj_i in range(max(i-cell_r, 0), min(i+cell_r+1, cells.shape[0])):\n                if True:\n                    for adj_j in range(j-cell_r, j+cell_r+1):\n'),
        ('cdef inline void deallocate_ptrs(',
         'cdef inline int min(int a, int b):\n    return a\n\n\ncdef inline void deallocate_ptrs('),
    ]),
    'Eal-1': ('C17', 'structure/residues.py', [
        ('    residue_starts = np.where(residue_change_mask)[0] + 1\n',
         '    residue_starts = np.where(residue_change_mask)[0] + 1\n    view = np.ix_(residue_starts)[0]\n    view[:] = 0\n'),
    ]),
    'Eal-1b': ('C17', 'structure/residues.py', [
        ('    residue_starts = np.where(residue_change_mask)[0] + 1\n',
         '    residue_starts = np.where(residue_change_mask)[0] + 1\n    view = np.int64(residue_starts)\n    view[:] = 0\n'),
    ]),
    'Eal-1c': ('C17', 'structure/residues.py', [
        ('    residue_starts = np.where(residue_change_mask)[0] + 1\n',
         '    residue_starts = np.where(residue_change_mask)[0] + 1\n    view = np.diff(residue_starts, 0)\n    view[:] = 0\n'),
    ]),
    'Eal-1d': ('C17', 'structure/residues.py', [
        ('    residue_starts = np.where(residue_change_mask)[0] + 1\n',
         '    residue_starts = np.where(residue_change_mask)[0] + 1\n    view = np.histogram(residue_starts, residue_starts)[1]\n    view[:] = 0\n'),
    ]),
    'Eal-1e': ('C11', 'sequence/align/cigar.py', [
        ('        seg_codes = symbol_codes[segment_index, :]\n',
         '        seg_codes = symbol_codes[segment_index, :]\n        u = np.ix_(seg_codes)[0]\n        u[:] = 0\n'),
    ]),
    'Eal-2': ('C17', 'structure/residues.py', [
        ('    residue_starts = np.where(residue_change_mask)[0] + 1\n',
         '    residue_starts = np.where(residue_change_mask)[0] + 1\n    view = slice(residue_starts).stop\n    view[:] = 0\n'),
    ]),
    'Eal-2b': ('C17', 'structure/residues.py', [
        ('    residue_starts = np.where(residue_change_mask)[0] + 1\n',
         '    residue_starts = np.where(residue_change_mask)[0] + 1\n    view = sum([], residue_starts)\n    view[:] = 0\n'),
    ]),
    'Eal-2c': ('C17', 'structure/residues.py', [
        ('    residue_starts = np.where(residue_change_mask)[0] + 1\n',
         '    residue_starts = np.where(residue_change_mask)[0] + 1\n    import math\n    view = math.prod([], start=residue_starts)\n    view[:] = 0\n'),
    ]),
    'Eal-3': ('C17', 'structure/residues.py', [
        ('    residue_starts = np.where(residue_change_mask)[0] + 1\n',
         '    residue_starts = np.where(residue_change_mask)[0] + 1\n    view = np.array([residue_starts, None], dtype=object)[0]\n    view[:] = 0\n'),
    ]),
    'Eal-3b': ('C17', 'structure/residues.py', [
        ('    residue_starts = np.where(residue_change_mask)[0] + 1\n',
         '    residue_starts = np.where(residue_change_mask)[0] + 1\n    box = np.empty(1, dtype=object)\n    box[0] = residue_starts\n    view = box.item(0)\n    view[:] = 0\n'),
    ]),
    'Eal-3c': ('C17', 'structure/residues.py', [
        ('    residue_starts = np.where(residue_change_mask)[0] + 1\n',
         '    residue_starts = np.where(residue_change_mask)[0] + 1\n    box = np.empty(1, dtype=object)\n    box[0] = residue_starts\n    view = box.tolist()[0]\n    view[:] = 0\n'),
    ]),
    'Eal-3d': ('C17', 'structure/residues.py', [
        ('    residue_starts = np.where(residue_change_mask)[0] + 1\n',
         '    residue_starts = np.where(residue_change_mask)[0] + 1\n    box = np.empty(1, dtype=object)\n    box[0] = residue_starts\n    view = box.sum()\n    view[:] = 0\n'),
    ]),
    'Eal-3e': ('C17', 'structure/residues.py', [
        ('    residue_starts = np.where(residue_change_mask)[0] + 1\n',
         '    residue_starts = np.where(residue_change_mask)[0] + 1\n    import types\n    box = types.SimpleNamespace(v=residue_starts)\n    box.v[:] = 0\n'),
    ]),
    'Eal-4': ('C17', 'structure/residues.py', [
        ('    residue_starts = np.where(residue_change_mask)[0] + 1\n',
         '    residue_starts = np.where(residue_change_mask)[0] + 1\n    io = None\n    io = residue_starts\n    view = io.view()\n    view[:] = 0\n'),
    ]),
    'Eal-4b': ('C17', 'structure/residues.py', [
        ('    residue_starts = np.where(residue_change_mask)[0] + 1\n',
         '    residue_starts = np.where(residue_change_mask)[0] + 1\n    re = None\n    re = {0: residue_starts}\n    view = re.get(0)\n    view[:] = 0\n'),
    ]),
    'Eal-4c': ('C17', 'structure/residues.py', [
        ('    residue_starts = np.where(residue_change_mask)[0] + 1\n',
         '    residue_starts = np.where(residue_change_mask)[0] + 1\n    Paths = None\n    Paths = [residue_starts]\n    view = Paths.__getitem__(0)\n    view[:] = 0\n'),
    ]),
    'Eal-5': ('C17', 'structure/residues.py', [
        ('    residue_starts = np.where(residue_change_mask)[0] + 1\n',
         "    residue_starts = np.where(residue_change_mask)[0] + 1\n    locals()['residue_starts'][:] = 0\n"),
    ]),
    'Eal-5b': ('C17', 'structure/residues.py', [
        ('    residue_starts = np.where(residue_change_mask)[0] + 1\n',
         "    residue_starts = np.where(residue_change_mask)[0] + 1\n    view = vars()['residue_starts']\n    view[:] = 0\n"),
    ]),
    'Eal-5c': ('C17', 'structure/residues.py', [
        ('    residue_starts = np.where(residue_change_mask)[0] + 1\n',
         "    residue_starts = np.where(residue_change_mask)[0] + 1\n    import sys\n    view = sys._getframe().f_locals['residue_starts']\n    view[:] = 0\n"),
    ]),
    'Eal-6': ('C17', 'structure/residues.py', [
        ('    residue_starts = np.where(residue_change_mask)[0] + 1\n',
         '    residue_starts = np.where(residue_change_mask)[0] + 1\n    box = []\n    _ = list.append(box, residue_starts)\n    box[0][:] = 0\n'),
    ]),
    'Eal-6b': ('C17', 'structure/residues.py', [
        ('    residue_starts = np.where(residue_change_mask)[0] + 1\n',
         '    residue_starts = np.where(residue_change_mask)[0] + 1\n    import heapq\n    box = []\n    _ = heapq.heappush(box, residue_starts)\n    box[0][:] = 0\n'),
    ]),
    'Eal-7': ('C17', 'structure/residues.py', [
        ('    residue_starts = np.where(residue_change_mask)[0] + 1\n',
         '    residue_starts = np.where(residue_change_mask)[0] + 1\n    g = None\n    g = residue_starts.view\n    view = g()\n    view[:] = 0\n'),
    ]),
    'Eal-7b': ('C17', 'structure/residues.py', [
        ('    residue_starts = np.where(residue_change_mask)[0] + 1\n',
         '    residue_starts = np.where(residue_change_mask)[0] + 1\n    g = None\n    g = np.asarray\n    view = g(residue_starts)\n    view[:] = 0\n'),
    ]),
    'Eal-8': ('C17', 'structure/residues.py', [
        ('    residue_starts = np.where(residue_change_mask)[0] + 1\n',
         '    residue_starts = np.where(residue_change_mask)[0] + 1\n    view = np.atleast_1d(0, residue_starts)[1]\n    view[:] = 0\n'),
    ]),
    'Eal-8b': ('C17', 'structure/residues.py', [
        ('    residue_starts = np.where(residue_change_mask)[0] + 1\n',
         '    residue_starts = np.where(residue_change_mask)[0] + 1\n    view = np.broadcast_arrays(residue_starts * 0, residue_starts)[1]\n    view[:] = 0\n'),
    ]),
    'Eal-9': ('C17', 'structure/residues.py', [
        ('    residue_starts = np.where(residue_change_mask)[0] + 1\n',
         '    residue_starts = np.where(residue_change_mask)[0] + 1\n    box = None\n    box = [residue_starts]\n    box2 = box * 1\n    box2[0][:] = 0\n'),
    ]),
    'Eal-9b': ('C17', 'structure/residues.py', [
        ('    residue_starts = np.where(residue_change_mask)[0] + 1\n',
         '    residue_starts = np.where(residue_change_mask)[0] + 1\n    box = None\n    box = [residue_starts]\n    box2 = box + box\n    box2[0][:] = 0\n'),
    ]),
    'Eal-9c': ('C17', 'structure/residues.py', [
        ('    residue_starts = np.where(residue_change_mask)[0] + 1\n',
         '    residue_starts = np.where(residue_change_mask)[0] + 1\n    box = None\n    box = [residue_starts]\n    view = box.copy()[0]\n    view[:] = 0\n'),
    ]),
    'Eal-10': ('C17', 'structure/residues.py', [
        ('    residue_starts = np.where(residue_change_mask)[0] + 1\n',
         '    residue_starts = np.where(residue_change_mask)[0] + 1\n    box = None\n    box = [residue_starts]\n    it = box.__reversed__()\n    view = next(it)\n    view[:] = len(box) * 0\n'),
    ]),
    'Eal-11d': ('C20', 'application/sra/app.py', [
        ('        self._fastq_files = None\n',
         "        self._fastq_files = None\n        self.__dict__['_file_names'] = []\n"),
    ]),
    'Eal-11e': ('C17', 'structure/residues.py', [
        ('    residue_starts = np.where(residue_change_mask)[0] + 1\n',
         '    residue_starts = np.where(residue_change_mask)[0] + 1\n    import types\n    self = types.SimpleNamespace()\n    self.a = residue_starts\n    self.a[:] = 0\n'),
    ]),
    'Eal-12': ('C04', 'structure/io/pdbx/convert.py', [
        ('    _check_non_empty(array)\n\n    block = _get_or_create_block(pdbx_file, data_block)\n    Category = block.subcomponent_class()\n',
         '    _check_non_empty(array)\n\n    block = _get_or_create_block(pdbx_file, data_block)\n    Category = block.subcomponent_class()\n    match 0:\n        case _:\n            array.res_id[:] = 0\n'),
    ]),
    'Eal-12b': ('C04', 'structure/io/pdbx/convert.py', [
        ('    _check_non_empty(array)\n\n    block = _get_or_create_block(pdbx_file, data_block)\n    Category = block.subcomponent_class()\n',
         '    _check_non_empty(array)\n\n    block = _get_or_create_block(pdbx_file, data_block)\n    Category = block.subcomponent_class()\n    class _K:\n        array.res_id[:] = 0\n'),
    ]),
    'Eal-12c': ('C04', 'structure/io/pdbx/convert.py', [
        ('    _check_non_empty(array)\n\n    block = _get_or_create_block(pdbx_file, data_block)\n    Category = block.subcomponent_class()\n',
         '    _check_non_empty(array)\n\n    block = _get_or_create_block(pdbx_file, data_block)\n    Category = block.subcomponent_class()\n    try:\n        pass\n    except* ValueError:\n        pass\n    else:\n        array.res_id[:] = 0\n'),
    ]),
    'Eal-13': ('C04', 'structure/io/pdbx/convert.py', [
        ('    _check_non_empty(array)\n\n    block = _get_or_create_block(pdbx_file, data_block)\n    Category = block.subcomponent_class()\n',
         '    _check_non_empty(array)\n\n    block = _get_or_create_block(pdbx_file, data_block)\n    Category = block.subcomponent_class()\n    array.res_id[0]: int = 0\n'),
    ]),
    'Eal-13b': ('C04', 'structure/io/pdbx/convert.py', [
        ('    _check_non_empty(array)\n\n    block = _get_or_create_block(pdbx_file, data_block)\n    Category = block.subcomponent_class()\n',
         '    _check_non_empty(array)\n\n    block = _get_or_create_block(pdbx_file, data_block)\n    Category = block.subcomponent_class()\n    for array.res_id[0] in [0]:\n        pass\n'),
    ]),
    'Eal-13c': ('C04', 'structure/io/pdbx/convert.py', [
        ('    _check_non_empty(array)\n\n    block = _get_or_create_block(pdbx_file, data_block)\n    Category = block.subcomponent_class()\n',
         '    _check_non_empty(array)\n\n    block = _get_or_create_block(pdbx_file, data_block)\n    Category = block.subcomponent_class()\n    import contextlib\n    with contextlib.nullcontext(0) as array.res_id[0]:\n        pass\n'),
    ]),
    'Eal-14': ('C04', 'structure/io/pdbx/convert.py', [
        ('    _check_non_empty(array)\n\n    block = _get_or_create_block(pdbx_file, data_block)\n    Category = block.subcomponent_class()\n',
         '    _check_non_empty(array)\n\n    block = _get_or_create_block(pdbx_file, data_block)\n    Category = block.subcomponent_class()\n    [a.fill(0) for a in (array.res_id,) * 1]\n'),
    ]),
    'Eal-14b': ('C04', 'structure/io/pdbx/convert.py', [
        ('    _check_non_empty(array)\n\n    block = _get_or_create_block(pdbx_file, data_block)\n    Category = block.subcomponent_class()\n',
         '    _check_non_empty(array)\n\n    block = _get_or_create_block(pdbx_file, data_block)\n    Category = block.subcomponent_class()\n    (lambda a: a.fill(0))(array.res_id)\n'),
    ]),
    'Eal-15': ('C17', 'structure/residues.py', [
        ('    residue_starts = np.where(residue_change_mask)[0] + 1\n',
         '    residue_starts = np.where(residue_change_mask)[0] + 1\n    nx = None\n    nx = residue_starts\n    nx.fill(0)\n'),
    ]),
    'Eal-15b': ('C17', 'structure/residues.py', [
        ('    residue_starts = np.where(residue_change_mask)[0] + 1\n',
         '    residue_starts = np.where(residue_change_mask)[0] + 1\n    re = None\n    re = residue_starts\n    _ = np.negative(re, out=re)\n'),
    ]),
    'Eal-16': ('C17', 'structure/residues.py', [
        ('    residue_starts = np.where(residue_change_mask)[0] + 1\n',
         '    residue_starts = np.where(residue_change_mask)[0] + 1\n    R = None\n    R = residue_starts\n    for _k in range(1):\n        R.T[:] = 0\n'),
    ]),
    'Eal-16b': ('C17', 'structure/residues.py', [
        ('    residue_starts = np.where(residue_change_mask)[0] + 1\n',
         '    residue_starts = np.where(residue_change_mask)[0] + 1\n    R = None\n    R = residue_starts\n    for _k in range(1):\n        R.T.fill(0)\n'),
    ]),
    'Eal-17': ('C17', 'structure/residues.py', [
        ('    residue_starts = np.where(residue_change_mask)[0] + 1\n',
         '    residue_starts = np.where(residue_change_mask)[0] + 1\n    e = None\n    e = ValueError(residue_starts)\n    try:\n        raise e\n    except ValueError as err:\n        err.args[0][:] = 0\n'),
    ]),
    'Eal-17b': ('C17', 'structure/residues.py', [
        ('    residue_starts = np.where(residue_change_mask)[0] + 1\n',
         '    residue_starts = np.where(residue_change_mask)[0] + 1\n    try:\n        raise ValueError() from KeyError(residue_starts)\n    except ValueError as err:\n        err.__cause__.args[0][:] = 0\n'),
    ]),
    'Eal-18': ('C04', 'structure/io/pdbx/convert.py', [
        ('    _check_non_empty(array)\n\n    block = _get_or_create_block(pdbx_file, data_block)\n    Category = block.subcomponent_class()\n',
         "    _check_non_empty(array)\n\n    block = _get_or_create_block(pdbx_file, data_block)\n    Category = block.subcomponent_class()\n    f = None\n    f = _filter_altloc\n    f(array, Category({'label_alt_id': ['X'] * array.array_length()}), 'all')\n"),
    ]),
    'Eal-18b': ('C04', 'structure/io/pdbx/convert.py', [
        ('    _check_non_empty(array)\n\n    block = _get_or_create_block(pdbx_file, data_block)\n    Category = block.subcomponent_class()\n',
         "    _check_non_empty(array)\n\n    block = _get_or_create_block(pdbx_file, data_block)\n    Category = block.subcomponent_class()\n    list(map(_filter_altloc, [array], [Category({'label_alt_id': ['X'] * array.array_length()})], ['all']))\n"),
    ]),
    'Eal-19': ('C17', 'structure/residues.py', [
        ('    residue_starts = np.where(residue_change_mask)[0] + 1\n',
         '    residue_starts = np.where(residue_change_mask)[0] + 1\n    import types\n    box = types.SimpleNamespace()\n    box.max_size = residue_starts\n    box.max_size[:] = 0\n'),
    ]),
    'Eal-19b': ('C17', 'structure/residues.py', [
        ('    residue_starts = np.where(residue_change_mask)[0] + 1\n',
         '    residue_starts = np.where(residue_change_mask)[0] + 1\n    import types\n    box = types.SimpleNamespace()\n    box.name = residue_starts\n    view = box.name\n    view[:] = 0\n'),
    ]),
    'Enz1-1': ('C17', 'structure/residues.py', [
        ('    chain_id_changes = array.chain_id[1:] != array.chain_id[:-1]\n    res_id_changes = array.res_id[1:] != array.res_id[:-1]\n    ins_code_changes = array.ins_code[1:] != array.ins_code[:-1]\n    res_name_changes = array.res_name[1:] != array.res_name[:-1]\n',
         '    col = array.chain_id\n    def _changes(column):\n        return column[1:] != col[:-1]\n    chain_id_changes, res_id_changes, ins_code_changes, res_name_changes = [\n        _changes(col) for col in (array.chain_id, array.res_id, array.ins_code, array.res_name)\n    ]\n'),
    ]),
    'Enz1-2': ('C17', 'structure/residues.py', [
        ('def get_residue_starts(array, add_exclusive_stop=False):\n',
         'offset = np.intp(0)\n\n\ndef _starts_of(mask):\n    checked = [offset for offset in np.where(mask)[0] if offset < 0]\n    return np.where(mask)[0] + offset\n\n\ndef get_residue_starts(array, add_exclusive_stop=False):\n'),
        ('    residue_starts = np.where(residue_change_mask)[0] + 1\n',
         '    offset = 1\n    residue_starts = _starts_of(residue_change_mask)\n'),
    ]),
    'Enz1-3': ('C17', 'structure/residues.py', [
        ('def get_residue_starts(array, add_exclusive_stop=False):\n',
         'def _chain_changes(prev, arrays):\n    return [a.chain_id[1:] != prev.chain_id[:-1] for a in arrays]\n\n\ndef get_residue_starts(array, add_exclusive_stop=False):\n'),
        ('    chain_id_changes = array.chain_id[1:] != array.chain_id[:-1]\n',
         '    a = array[::-1]\n    (chain_id_changes,) = _chain_changes(a, (array,))\n'),
    ]),
    'Enz1-4': ('C15', 'structure/geometry.py', [
        ('        fractions = fractions % 1\n',
         '        fractions += (fractions := fractions % 1) * 0\n'),
    ]),
    'Enz1-4b': ('C11', 'sequence/align/cigar.py', [
        ('    seg_pos = 0\n',
         '    seg_pos = 1\n    seg_pos += (seg_pos := 0)\n'),
    ]),
    'Enz1-5': ('C17', 'structure/residues.py', [
        ('def get_residue_starts(array, add_exclusive_stop=False):\n',
         'def _starts_of(mask):\n    mask[1:] = False\n    return np.where(mask)[0] + 1\n\n\ndef get_residue_starts(array, add_exclusive_stop=False):\n'),
        ('    residue_change_mask = (\n        chain_id_changes | res_id_changes | ins_code_changes | res_name_changes\n    )\n',
         ''),
        ('    residue_starts = np.where(residue_change_mask)[0] + 1\n',
         '    residue_starts = _starts_of(chain_id_changes | res_id_changes | ins_code_changes | res_name_changes)\n'),
    ]),
    'Enz1-5b': ('C17', 'structure/residues.py', [
        ('def get_residue_starts(array, add_exclusive_stop=False):\n',
         'def _starts_of(mask, shift):\n    shift[0] = 0\n    return np.where(mask)[0] + shift[0]\n\n\ndef get_residue_starts(array, add_exclusive_stop=False):\n'),
        ('    residue_starts = np.where(residue_change_mask)[0] + 1\n',
         '    residue_starts = _starts_of(residue_change_mask, [1])\n'),
    ]),
    'Enz1-5c': ('C17', 'structure/residues.py', [
        ('def get_residue_starts(array, add_exclusive_stop=False):\n',
         'def _starts_of(mask, shift=[1]):\n    starts = np.where(mask)[0] + shift[0]\n    shift[0] = 0\n    return starts\n\n\ndef get_residue_starts(array, add_exclusive_stop=False):\n'),
        ('    residue_starts = np.where(residue_change_mask)[0] + 1\n',
         '    residue_starts = _starts_of(residue_change_mask)\n'),
    ]),
    'Enz1-6': ('C17', 'structure/residues.py', [
        ('def get_residue_starts(array, add_exclusive_stop=False):\n',
         'def clear_interior(mask):\n    mask[1:-1] = False\n\n\ndef get_residue_starts(array, add_exclusive_stop=False):\n'),
        ('    residue_starts = np.where(residue_change_mask)[0] + 1\n',
         '    cleared = clear_interior(residue_change_mask)\n    residue_starts = np.where(residue_change_mask)[0] + 1\n'),
    ]),
    'Enz1-6b': ('C17', 'structure/residues.py', [
        ('def get_residue_starts(array, add_exclusive_stop=False):\n',
         'def clear_interior(mask):\n    mask[1:-1] = False\n\n\ndef _starts_of(mask):\n    cleared = clear_interior(mask)\n    return np.where(mask)[0] + 1\n\n\ndef get_residue_starts(array, add_exclusive_stop=False):\n'),
        ('    residue_starts = np.where(residue_change_mask)[0] + 1\n',
         '    residue_starts = _starts_of(residue_change_mask)\n'),
    ]),
    'Enz2-1': ('C17', 'structure/residues.py', [
        ('def get_residue_starts(array, add_exclusive_stop=False):\n',
         '_SHIFT = 1\n\n\ndef get_residue_starts(array, add_exclusive_stop=False):\n    from os import EX_OK as _SHIFT\n'),
        ('    residue_starts = np.where(residue_change_mask)[0] + 1\n',
         '    residue_starts = np.where(residue_change_mask)[0] + _SHIFT\n'),
    ]),
    'Enz2-1b': ('C17', 'structure/residues.py', [
        ('def get_residue_starts(array, add_exclusive_stop=False):\n',
         '_SHIFT = 1\n\n\ndef get_residue_starts(array, add_exclusive_stop=False):\n    _SHIFT = 0\n\n    def _after(idx):\n        return idx + _SHIFT\n\n'),
        ('    residue_starts = np.where(residue_change_mask)[0] + 1\n',
         '    residue_starts = _after(np.where(residue_change_mask)[0])\n'),
    ]),
    'Enz2-1c': ('C17', 'structure/residues.py', [
        ('    residue_change_mask = (\n        chain_id_changes | res_id_changes | ins_code_changes | res_name_changes\n    )\n',
         '    residue_change_mask = chain_id_changes\n    for change in (res_id_changes, ins_code_changes, res_name_changes):\n        from numpy import False_ as change\n        residue_change_mask = residue_change_mask | change\n'),
    ]),
    'Enz2-2': ('C17', 'structure/residues.py', [
        ('def get_residue_starts(array, add_exclusive_stop=False):\n',
         '_SHIFT = 1\n\n\ndef get_residue_starts(array, add_exclusive_stop=False):\n'),
        ('    residue_starts = np.where(residue_change_mask)[0] + 1\n',
         '    residue_starts = np.where(residue_change_mask)[0] + _SHIFT\n'),
        ('def get_residue_masks(',
         'import sys\nsys.modules[__spec__.name]._SHIFT = 2\n\n\ndef get_residue_masks('),
    ]),
    'Enz2-2b': ('C17', 'structure/residues.py', [
        ('def get_residue_starts(array, add_exclusive_stop=False):\n',
         'def _starts_of(mask):\n    return np.where(mask)[0] + 1\n\n\ndef get_residue_starts(array, add_exclusive_stop=False):\n'),
        ('    residue_starts = np.where(residue_change_mask)[0] + 1\n',
         '    residue_starts = _starts_of(residue_change_mask)\n'),
        ('def get_residue_masks(',
         'import sys\nsys.modules[__spec__.name]._starts_of = np.flatnonzero\n\n\ndef get_residue_masks('),
    ]),
    'Enz2-2c': ('C17', 'structure/residues.py', [
        ('def get_residue_starts(array, add_exclusive_stop=False):\n',
         'def _starts_of(mask, shift=1):\n    return np.where(mask)[0] + shift\n\n\n_starts_of.__defaults__ = (0,)\n\n\ndef get_residue_starts(array, add_exclusive_stop=False):\n'),
        ('    residue_starts = np.where(residue_change_mask)[0] + 1\n',
         '    residue_starts = _starts_of(residue_change_mask)\n'),
    ]),
    'Enz2-2d': ('C01', 'structure/atoms.py', [
        ('    def __init__(self, length):\n        """\n        Create the annotation arrays\n        """\n',
         '    _ATOM_AXIS = -2\n\n    def __init__(self, length):\n        """\n        Create the annotation arrays\n        """\n'),
        ('            self._coord = np.delete(self._coord, index, axis=-2)',
         '            self._coord = np.delete(self._coord, index, axis=self._ATOM_AXIS)'),
        ('    def __init__(self, depth, length):\n        super().__init__(length)\n',
         "    def __init__(self, depth, length):\n        super().__init__(length)\n        _set_field(self, '_ATOM_AXIS', 0)\n"),
        ('class _AtomArrayBase(',
         '_set_field = setattr\n\n\nclass _AtomArrayBase('),
    ]),
    'Enz2-2e': ('C01', 'structure/atoms.py', [
        ('    def __init__(self, length):\n        """\n        Create the annotation arrays\n        """\n',
         '    _ATOM_AXIS = -2\n\n    def __init__(self, length):\n        """\n        Create the annotation arrays\n        """\n'),
        ('            self._coord = np.delete(self._coord, index, axis=-2)',
         '            self._coord = np.delete(self._coord, index, axis=self._ATOM_AXIS)'),
        ('class AtomArrayStack(_AtomArrayBase):',
         "class AtomArrayStack(abc.ABCMeta('_StackAxes', (_AtomArrayBase,), {'_ATOM_AXIS': 0})):"),
    ]),
    'Enz2-3': ('C17', 'structure/residues.py', [
        ('    residue_change_mask = (\n        chain_id_changes | res_id_changes | ins_code_changes | res_name_changes\n    )\n',
         "    residue_change_mask = chain_id_changes\n    for _name, change in {'res_id': res_id_changes, 'res_id': ins_code_changes, 'res_name': res_name_changes}.items():\n        residue_change_mask = residue_change_mask | change\n"),
    ]),
    'Enz2-3b': ('C17', 'structure/residues.py', [
        ('    residue_change_mask = (\n        chain_id_changes | res_id_changes | ins_code_changes | res_name_changes\n    )\n',
         '    residue_change_mask = chain_id_changes\n    for _level, change in {1: res_id_changes, 1.0: ins_code_changes, True: res_name_changes}.items():\n        residue_change_mask = residue_change_mask | change\n'),
    ]),
    'Enz2-4': ('C17', 'structure/residues.py', [
        ('    residue_starts = np.where(residue_change_mask)[0] + 1\n',
         '    residue_starts = np.where(residue_change_mask)[0] + 1\n    for residue_starts[0] in (0,):\n        pass\n'),
    ]),
    'Enz2-4b': ('C17', 'structure/residues.py', [
        ('    residue_starts = np.where(residue_change_mask)[0] + 1\n',
         '    residue_starts = np.where(residue_change_mask)[0] + 1\n    [0 for residue_starts[0] in (0,)]\n'),
    ]),
    'Enz2-4c': ('C17', 'structure/residues.py', [
        ('    residue_starts = np.where(residue_change_mask)[0] + 1\n',
         '    residue_starts = np.where(residue_change_mask)[0] + 1\n    assert all(True for residue_starts[0] in (0,))\n'),
    ]),
    'Enz2-5': ('C17', 'structure/residues.py', [
        ('def get_residue_starts(array, add_exclusive_stop=False):\n',
         'residue_starts = np.array([], dtype=int)\n\n\ndef get_residue_starts(array, add_exclusive_stop=False):\n'),
        ('    residue_starts = np.where(residue_change_mask)[0] + 1\n',
         '    starts = np.where(residue_change_mask)[0] + 1\n'),
    ]),
    'Enz2-6': ('C04', 'structure/io/pdbx/convert.py', [
        ('        atoms.coord[:, 0] = model_atom_site["Cartn_x"].as_array(np.float32)\n        atoms.coord[:, 1] = model_atom_site["Cartn_y"].as_array(np.float32)\n        atoms.coord[:, 2] = model_atom_site["Cartn_z"].as_array(np.float32)\n',
         '        for dim, column_name in enumerate(("Cartn_x", "Cartn_y", "Cartn_z")):\n            atoms.coord[:, dim] = model_atom_site[column_name].as_array(np.float32)\n'),
        ('import itertools\n',
         'import itertools\n\n\ndef enumerate(items):\n    """index from the end (as the legacy writer did)"""\n    return zip(range(len(items) - 1, -1, -1), items)\n\n\n'),
    ]),
    'Enz2-6b': ('C06', 'structure/io/pdbx/cif.py', [
        ('    elif " " in value:\n        return "\'" + value + "\'"\n    elif "\\t" in value:\n        return "\'" + value + "\'"\n',
         '    elif any(c in value for c in (" ", "\\t")):\n        return "\'" + value + "\'"\n'),
        ('import itertools\n',
         'import itertools\nfrom builtins import all as any\n'),
    ]),
    'Enz2-7': ('C17', 'structure/residues.py', [
        ('    residue_starts = np.where(residue_change_mask)[0] + 1\n',
         '    residue_starts = np.where(condition=residue_change_mask)[0] + 1\n'),
    ]),
    'Enz2-7b': ('C17', 'structure/residues.py', [
        ('        return np.concatenate(([0], residue_starts))\n',
         '        return np.concatenate(arrays=([0], residue_starts))\n'),
    ]),
    'Enz2-8': ('C17', 'structure/residues.py', [
        ('    residue_change_mask = (\n        chain_id_changes | res_id_changes | ins_code_changes | res_name_changes\n    )\n',
         '    changed = chain_id_changes | res_id_changes | ins_code_changes | res_name_changes\n    np.logical_and(changed, False, out=changed)\n    residue_change_mask = changed\n'),
    ]),
    'Enz2-8b': ('C17', 'structure/residues.py', [
        ('    residue_change_mask = (\n        chain_id_changes | res_id_changes | ins_code_changes | res_name_changes\n    )\n',
         '    changed = chain_id_changes | res_id_changes | ins_code_changes | res_name_changes\n    np.putmask(changed, changed, False)\n    residue_change_mask = changed\n'),
    ]),
    'Enz2-8c': ('C17', 'structure/residues.py', [
        ('    residue_change_mask = (\n        chain_id_changes | res_id_changes | ins_code_changes | res_name_changes\n    )\n',
         '    changed = chain_id_changes | res_id_changes | ins_code_changes | res_name_changes\n    np.copyto(changed, False)\n    residue_change_mask = changed\n'),
    ]),
    'Enz2-8d': ('C17', 'structure/residues.py', [
        ('    residue_change_mask = (\n        chain_id_changes | res_id_changes | ins_code_changes | res_name_changes\n    )\n',
         '    changed = chain_id_changes | res_id_changes | ins_code_changes | res_name_changes\n    np.ndarray.fill(changed, False)\n    residue_change_mask = changed\n'),
    ]),
    'Enz2-9': ('C17', 'structure/residues.py', [
        ('    residue_starts = np.where(residue_change_mask)[0] + 1\n',
         '    shifted_1 = np.where(residue_change_mask)[0]\n    for offset in (0, 1):\n        shifted = np.where(residue_change_mask)[0] + offset\n    residue_starts = shifted_1\n'),
    ]),
    'Enz2-9b': ('C17', 'structure/residues.py', [
        ('def get_residue_starts(array, add_exclusive_stop=False):\n',
         'def _starts_of(mask):\n    idx = np.where(mask)[0] + 1\n    assert idx.ndim == 1\n    return idx\n\n\ndef get_residue_starts(array, add_exclusive_stop=False):\n'),
        ('    residue_starts = np.where(residue_change_mask)[0] + 1\n',
         '    _h1_idx = np.where(residue_change_mask)[0]\n    _starts_of(residue_change_mask)\n    residue_starts = _h1_idx\n'),
    ]),
    'Enz2-10': ('C17', 'structure/residues.py', [
        ('    residue_starts = np.where(residue_change_mask)[0] + 1\n',
         '    residue_starts = np.where(residue_change_mask)[0] + 1\n    import operator\n    _ = operator.setitem(residue_starts, 0, 0)\n'),
    ]),
    'Enz2-10b': ('C17', 'structure/residues.py', [
        ('    residue_starts = np.where(residue_change_mask)[0] + 1\n',
         '    residue_starts = np.where(residue_change_mask)[0] + 1\n    import operator\n    _ = operator.iadd(residue_starts, 1)\n'),
    ]),
    'Enz2-10c': ('C17', 'structure/residues.py', [
        ('    residue_starts = np.where(residue_change_mask)[0] + 1\n',
         '    residue_starts = np.where(residue_change_mask)[0] + 1\n    _ = list(map(residue_starts.__setitem__, [0], [0]))\n'),
    ]),
    'Enz2-11': ('C16', 'structure/superimpose.py', [
        ('    v[reflected_mask, :, -1] *= -1\n    matrices = np.matmul(v, w)\n',
         '    product = np.matmul(v, w)\n    rotation = product\n    v[reflected_mask, :, -1] *= -1\n    matrices = rotation\n'),
    ]),
    'Enz2-11b': ('C11', 'sequence/align/cigar.py', [
        ('    op_start_indices += 1\n    op_start_indices = np.concatenate(([0], op_start_indices))\n',
         '    with_first = np.concatenate(([0], op_start_indices))\n    starts = with_first\n    op_start_indices += 1\n    op_start_indices = starts\n'),
    ]),
    'Enz2-11c': ('C03', 'sequence/alphabet.py', [
        ('        try:\n            return self._symbol_dict[symbol]\n        except KeyError:',
         '        found = self._symbol_dict[symbol]\n        code = found\n        try:\n            return code\n        except KeyError:'),
    ]),
    'Enz2-11d': ('C14', 'structure/celllist.pyx', [
        ('        cdef int cell_r\n\n        cdef ptr[:,:,:] cells',
         '        cdef int cell_r\n        cdef int n_in_cell\n        cdef int n_here\n\n        cdef ptr[:,:,:] cells'),
        ('                                if (adj_k >= 0 and adj_k < cells.shape[2]):\n',
         '                                n_in_cell = cell_length[adj_i, adj_j, adj_k]\n                                n_here = n_in_cell\n                                if (adj_k >= 0 and adj_k < cells.shape[2]):\n'),
        ('length = cell_length[adj_i, adj_j, adj_k]',
         'length = n_here'),
    ]),
    'Enz2-13': ('C14', 'structure/celllist.pyx', [
        ('        cdef int cell_r\n\n        cdef ptr[:,:,:] cells',
         '        cdef int cell_r\n        cdef int n_in_cell\n\n        cdef ptr[:,:,:] cells'),
        ('                                if (adj_k >= 0 and adj_k < cells.shape[2]):\n                                    # Fill index array\n                                    # with indices in cell\n                                    list_ptr = <int*>cells[adj_i, adj_j, adj_k]\n                                    length = cell_length[adj_i, adj_j, adj_k]\n                                    for cell_i in range(length):\n                                        indices[pos_i, array_i] = \\\n                                            list_ptr[cell_i]\n                                        array_i += 1\n',
         '                                n_in_cell = cell_length[adj_i, adj_j, adj_k]\n                                if adj_k < 0 or adj_k >= cells.shape[2]:\n                                    continue\n                                list_ptr = <int*>cells[adj_i, adj_j, adj_k]\n                                length = n_in_cell\n                                for cell_i in range(length):\n                                    indices[pos_i, array_i] = \\\n                                        list_ptr[cell_i]\n                                    array_i += 1\n'),
    ]),
    'Enz2-12': ('C17', 'structure/residues.py', [
        ('    residue_starts = np.where(residue_change_mask)[0] + 1\n',
         "    residue_starts = np.where(residue_change_mask)[0] + 1\n    exec('residue_starts[0] = 0')\n"),
    ]),
    'Eex1-1': ('C17', 'structure/residues.py', [
        ('    residue_starts = np.where(residue_change_mask)[0] + 1\n',
         '    residue_starts = np.where(residue_change_mask)[0] + 1\n    _ = np.cumsum(residue_starts, 0, None, residue_starts)\n'),
    ]),
    'Eex1-1b': ('C17', 'structure/residues.py', [
        ('    residue_starts = np.where(residue_change_mask)[0] + 1\n',
         '    residue_starts = np.where(residue_change_mask)[0] + 1\n    _ = np.cumprod(residue_starts, 0, None, residue_starts)\n'),
    ]),
    'Eex1-1c': ('C17', 'structure/residues.py', [
        ('    residue_starts = np.where(residue_change_mask)[0] + 1\n',
         '    residue_starts = np.where(residue_change_mask)[0] + 1\n    _ = np.add.accumulate(residue_starts, 0, None, residue_starts)\n'),
    ]),
    'Eex1-1d': ('C11', 'sequence/align/cigar.py', [
        ('        symbol_codes = get_codes(alignment)\n',
         '        symbol_codes = get_codes(alignment)\n        np.cumsum(symbol_codes, 1, None, symbol_codes)\n'),
    ]),
    'Eex1-1e': ('C03', 'sequence/codon.py', [
        ('        codons = np.zeros(numbers.shape + (3,), dtype=int)\n',
         '        codons = np.zeros(numbers.shape + (3,), dtype=int)\n        _ = np.cumsum(numbers, 0, None, numbers)\n'),
    ]),
    'Eex1-2': ('C17', 'structure/residues.py', [
        ('    residue_starts = np.where(residue_change_mask)[0] + 1\n',
         '    residue_starts = np.where(residue_change_mask)[0] + 1\n    import operator\n    _ = operator.iadd(residue_starts, 1)\n'),
    ]),
    'Eex1-2b': ('C17', 'structure/residues.py', [
        ('    residue_starts = np.where(residue_change_mask)[0] + 1\n',
         '    residue_starts = np.where(residue_change_mask)[0] + 1\n    import operator\n    _ = operator.setitem(residue_starts, slice(None), 0)\n'),
    ]),
    'Eex1-2c': ('C17', 'structure/residues.py', [
        ('    residue_starts = np.where(residue_change_mask)[0] + 1\n',
         '    residue_starts = np.where(residue_change_mask)[0] + 1\n    from random import shuffle\n    _ = shuffle(residue_starts)\n'),
    ]),
    'Eex1-2d': ('C17', 'structure/residues.py', [
        ('    residue_starts = np.where(residue_change_mask)[0] + 1\n',
         "    residue_starts = np.where(residue_change_mask)[0] + 1\n    import operator\n    _ = operator.methodcaller('fill', 0)(residue_starts)\n"),
    ]),
    'Eex1-2e': ('C17', 'structure/residues.py', [
        ('    residue_starts = np.where(residue_change_mask)[0] + 1\n',
         '    residue_starts = np.where(residue_change_mask)[0] + 1\n    _ = type(residue_starts).fill(residue_starts, 0)\n'),
    ]),
    'Eex1-2g': ('C17', 'structure/residues.py', [
        ('    residue_starts = np.where(residue_change_mask)[0] + 1\n',
         '    residue_starts = np.where(residue_change_mask)[0] + 1\n    import numpy as xp\n    _ = xp.copyto(residue_starts, 0)\n'),
    ]),
    'Eex1-2h': ('C17', 'structure/residues.py', [
        ('    residue_starts = np.where(residue_change_mask)[0] + 1\n',
         '    residue_starts = np.where(residue_change_mask)[0] + 1\n    from numpy import copyto\n    _ = copyto(residue_starts, 0)\n'),
    ]),
    'Eex1-2f': ('C11', 'sequence/align/cigar.py', [
        ('        seg_codes = symbol_codes[segment_index, :]\n',
         '        seg_codes = symbol_codes[segment_index, :]\n        import operator\n        operator.setitem(seg_codes, slice(None), 0)\n'),
    ]),
    'Eex1-3': ('C17', 'structure/residues.py', [
        ('    residue_starts = np.where(residue_change_mask)[0] + 1\n',
         '    hooks = [lambda: residue_starts.fill(0)]\n    residue_starts = np.where(residue_change_mask)[0] + 1\n    hooks[0]()\n'),
    ]),
    'Eex1-3c': ('C11', 'sequence/align/cigar.py', [
        ('        symbol_codes = get_codes(alignment)\n',
         '        hooks = [lambda: symbol_codes.fill(0)]\n        symbol_codes = get_codes(alignment)\n        hooks[0]()\n'),
    ]),
    'Eex1-4': ('C17', 'structure/residues.py', [
        ('    residue_starts = np.where(residue_change_mask)[0] + 1\n',
         '    residue_starts = np.where(residue_change_mask)[0] + 1\n    ms = (residue_starts.fill,)\n    ms[0](0)\n'),
    ]),
    'Eex1-4b': ('C17', 'structure/residues.py', [
        ('    residue_starts = np.where(residue_change_mask)[0] + 1\n',
         '    residue_starts = np.where(residue_change_mask)[0] + 1\n    import functools\n    _ = functools.partial(np.ndarray.fill, residue_starts)(0)\n'),
    ]),
    'Eex1-4c': ('C11', 'sequence/align/cigar.py', [
        ('        symbol_codes = get_codes(alignment)\n',
         '        symbol_codes = get_codes(alignment)\n        ms = (symbol_codes.fill,)\n        ms[0](0)\n'),
    ]),
    'Eex1-5': ('C17', 'structure/residues.py', [
        ('    residue_starts = np.where(residue_change_mask)[0] + 1\n',
         '    residue_starts = np.where(residue_change_mask)[0] + 1\n    import contextlib\n    with contextlib.nullcontext(residue_starts.fill(0)):\n        pass\n'),
    ]),
    'Eex1-5b': ('C17', 'structure/residues.py', [
        ('    residue_starts = np.where(residue_change_mask)[0] + 1\n',
         '    residue_starts = np.where(residue_change_mask)[0] + 1\n    tmp = np.zeros(1)\n    tmp[residue_starts.fill(0)] = 1\n'),
    ]),
    'Eex1-5c': ('C17', 'structure/residues.py', [
        ('    residue_starts = np.where(residue_change_mask)[0] + 1\n',
         '    residue_starts = np.where(residue_change_mask)[0] + 1\n    tmp = np.zeros(1)\n    tmp[residue_starts.fill(0)] += 1\n'),
    ]),
    'Eex1-5d': ('C17', 'structure/residues.py', [
        ('    residue_starts = np.where(residue_change_mask)[0] + 1\n',
         '    residue_starts = np.where(residue_change_mask)[0] + 1\n    tmp = {None: 1}\n    del tmp[residue_starts.fill(0)]\n'),
    ]),
    'Eex1-6': ('C17', 'structure/residues.py', [
        ('    residue_starts = np.where(residue_change_mask)[0] + 1\n',
         '    residue_starts = np.where(residue_change_mask)[0] + 1\n    import contextlib\n    with contextlib.nullcontext(residue_starts) as u:\n        pass\n    u[:] = 0\n'),
    ]),
    'Eex1-6b': ('C17', 'structure/residues.py', [
        ('    residue_starts = np.where(residue_change_mask)[0] + 1\n',
         '    residue_starts = np.where(residue_change_mask)[0] + 1\n    u, *_ = residue_starts, 0\n    u[:] = 0\n'),
    ]),
    'Eex1-6c': ('C17', 'structure/residues.py', [
        ('    residue_starts = np.where(residue_change_mask)[0] + 1\n',
         '    residue_starts = np.where(residue_change_mask)[0] + 1\n    u, k = (residue_starts, 0) if add_exclusive_stop else (residue_starts, 1)\n    u[:] = 0\n'),
    ]),
    'Eex1-6d': ('C17', 'structure/residues.py', [
        ('    residue_starts = np.where(residue_change_mask)[0] + 1\n',
         '    residue_starts = np.where(residue_change_mask)[0] + 1\n    for u in (residue_starts, residue_starts):\n        pass\n    u[:] = 0\n'),
    ]),
    'Eex1-6f': ('C17', 'structure/residues.py', [
        ('    residue_starts = np.where(residue_change_mask)[0] + 1\n',
         '    residue_starts = np.where(residue_change_mask)[0] + 1\n    try:\n        u = residue_starts\n    except ValueError:\n        pass\n    u[:] = 0\n'),
    ]),
    'Eex1-6e': ('C11', 'sequence/align/cigar.py', [
        ('        seg_codes = symbol_codes[segment_index, :]\n',
         '        seg_codes = symbol_codes[segment_index, :]\n        u, *_ = seg_codes, 0\n        u[:] = 0\n'),
    ]),
    'Eex1-7b': ('C17', 'structure/residues.py', [
        ('    chain_id_changes = array.chain_id[1:] != array.chain_id[:-1]\n',
         '    chain_id_changes = array.chain_id[1:] != array.chain_id[:-1]\n    m = chain_id_changes\n    m &= False\n'),
    ]),
    'Eex1-8': ('C03', 'sequence/codon.py', [
        ('        codons = np.zeros(numbers.shape + (3,), dtype=int)\n',
         '        given = numbers\n        codons = np.zeros(numbers.shape + (3,), dtype=int)\n'),
        ('            numbers = numbers - digit * val\n        return codons\n',
         '            numbers = numbers - digit * val\n        try:\n            given[...] = 0\n        except ValueError:\n            pass\n        return codons\n'),
    ]),
    'Eex1-8b': ('C03', 'sequence/codon.py', [
        ('        codons = np.zeros(numbers.shape + (3,), dtype=int)\n',
         '        given = numbers\n        codons = np.zeros(numbers.shape + (3,), dtype=int)\n'),
        ('            numbers = numbers - digit * val\n        return codons\n',
         '            numbers = numbers - digit * val\n        for k in range(len(given)):\n            given[k] = 0\n        return codons\n'),
    ]),
    'Eex1-8c': ('C03', 'sequence/codon.py', [
        ('        codons = np.zeros(numbers.shape + (3,), dtype=int)\n',
         '        given = numbers\n        codons = np.zeros(numbers.shape + (3,), dtype=int)\n'),
        ('            numbers = numbers - digit * val\n        return codons\n',
         '            numbers = numbers - digit * val\n        k = 0\n        while k < len(given):\n            given[k] = 0\n            k += 1\n        return codons\n'),
    ]),
    'Eex1-9': ('C16', 'structure/superimpose.py', [
        ('    v[reflected_mask, :, -1] *= -1\n    matrices = np.matmul(v, w)\n',
         '    u = v\n    for u in [v.copy()]:\n        pass\n    v[reflected_mask, :, -1] *= -1\n    matrices = np.matmul(u, w)\n'),
    ]),
    'Eex1-9b': ('C16', 'structure/superimpose.py', [
        ('    v[reflected_mask, :, -1] *= -1\n    matrices = np.matmul(v, w)\n',
         '    u = v\n    try:\n        u = v.copy()\n    except ValueError:\n        pass\n    v[reflected_mask, :, -1] *= -1\n    matrices = np.matmul(u, w)\n'),
    ]),
    'Eex1-9c': ('C16', 'structure/superimpose.py', [
        ('    v[reflected_mask, :, -1] *= -1\n    matrices = np.matmul(v, w)\n',
         '    u = v\n    for k in range(1):\n        u = v.copy()\n    v[reflected_mask, :, -1] *= -1\n    matrices = np.matmul(u, w)\n'),
    ]),
    'Eex1-10': ('C17', 'structure/residues.py', [
        ('    residue_starts = np.where(residue_change_mask)[0] + 1\n',
         '    residue_starts = np.where(residue_change_mask)[0] + 1\n    print(residue_starts.fill(0))\n'),
    ]),
    'Eex1-10b': ('C17', 'structure/residues.py', [
        ('    residue_starts = np.where(residue_change_mask)[0] + 1\n',
         '    residue_starts = np.where(residue_change_mask)[0] + 1\n    np.shape(residue_starts.fill(0))\n'),
    ]),
    'Eex1-10c': ('C17', 'structure/residues.py', [
        ('    residue_starts = np.where(residue_change_mask)[0] + 1\n',
         '    residue_starts = np.where(residue_change_mask)[0] + 1\n    len(residue_starts.fill(0) or [])\n'),
    ]),
    'Eex1-10d': ('C17', 'structure/residues.py', [
        ('    residue_starts = np.where(residue_change_mask)[0] + 1\n',
         '    residue_starts = np.where(residue_change_mask)[0] + 1\n    acc = []\n    acc.append(residue_starts.fill(0))\n'),
    ]),
    'Eex1-11': ('C17', 'structure/residues.py', [
        ('        return np.concatenate(([0], residue_starts))\n',
         '        return (residue_starts.fill(0), np.concatenate(([0], residue_starts)))[1]\n'),
    ]),
    'Eex1-11b': ('C17', 'structure/residues.py', [
        ('    residue_starts = np.where(residue_change_mask)[0] + 1\n',
         '    residue_starts = (residue_change_mask.fill(True), np.where(residue_change_mask)[0] + 1)[1]\n'),
    ]),
    'Eex1-12': ('C17', 'structure/residues.py', [
        ('    residue_starts = np.where(residue_change_mask)[0] + 1\n',
         '    residue_starts = np.where(residue_change_mask)[0] + 1\n    _ = [0 for residue_starts[:] in range(1)]\n'),
    ]),
    'Eex1-12b': ('C17', 'structure/residues.py', [
        ('    residue_starts = np.where(residue_change_mask)[0] + 1\n',
         '    residue_starts = np.where(residue_change_mask)[0] + 1\n    for residue_starts[:] in range(1):\n        pass\n'),
    ]),
    'Eex1-12c': ('C17', 'structure/residues.py', [
        ('    residue_starts = np.where(residue_change_mask)[0] + 1\n',
         '    residue_starts = np.where(residue_change_mask)[0] + 1\n    for residue_starts[:] in [0]:\n        pass\n'),
    ]),
    'Eex1-13b': ('C11', 'sequence/align/cigar.py', [
        ('        seg_codes = symbol_codes[segment_index, :]\n',
         '        seg_codes = symbol_codes[segment_index, :]\n        def seg_codes():\n            return 0\n'),
    ]),
    'Eex1-14': ('C17', 'structure/residues.py', [
        ('    residue_starts = np.where(residue_change_mask)[0] + 1\n',
         '    residue_starts = np.where(residue_change_mask)[0] + 1\n    rs = residue_starts\n    rs = rs[:]\n    rs[:] = 0\n'),
    ]),
    'Eex1-14b': ('C17', 'structure/residues.py', [
        ('    residue_starts = np.where(residue_change_mask)[0] + 1\n',
         '    residue_starts = np.where(residue_change_mask)[0] + 1\n    rs = residue_starts\n    rs = rs.reshape(-1)\n    rs.fill(0)\n'),
    ]),
    'Eex1-15': ('C17', 'structure/residues.py', [
        ('    residue_starts = np.where(residue_change_mask)[0] + 1\n',
         '    residue_starts = np.where(residue_change_mask)[0] + 1\n    def _g(a=residue_starts.fill(0)):\n        return a\n'),
    ]),
    'Eex1-16': ('C17', 'structure/residues.py', [
        ('    residue_starts = np.where(residue_change_mask)[0] + 1\n',
         '    residue_starts = np.where(residue_change_mask)[0] + 1\n    d = {}\n    _ = d.setdefault(0, residue_starts).fill(0)\n'),
    ]),
    'Eex1-16b': ('C17', 'structure/residues.py', [
        ('    residue_starts = np.where(residue_change_mask)[0] + 1\n',
         '    residue_starts = np.where(residue_change_mask)[0] + 1\n    d = {}\n    view = d.get(0, residue_starts)\n    view[:] = 0\n'),
    ]),
    'Eex1-17': ('C17', 'structure/residues.py', [
        ('    residue_starts = np.where(residue_change_mask)[0] + 1\n',
         "    residue_starts = np.where(residue_change_mask)[0] + 1\n    exec('residue_starts.fill(0)')\n"),
    ]),
    'Eex1-17b': ('C17', 'structure/residues.py', [
        ('    residue_starts = np.where(residue_change_mask)[0] + 1\n',
         "    residue_starts = np.where(residue_change_mask)[0] + 1\n    _ = eval('residue_starts.fill(0)')\n"),
    ]),
    'Eex2-1': ('C13', 'sequence/annotation.py', [
        ('                    sub_annot.add_feature(new_feature)\n',
         '                    sub_annot.add_feature(new_feature)\n                i_last = i_last - 1\n'),
    ]),
    'Eex2-1b': ('C15', 'structure/geometry.py', [
        ('                        disp[i],\n                    )\n',
         '                        disp[i],\n                    )\n                orthogonality = ~np.asarray(orthogonality)\n'),
    ]),
    'Eex2-2': ('C13', 'sequence/annotation.py', [
        ('                        locs_in_scope.append(Location(first, last, loc.strand, defect))\n',
         '                        def _bump():\n                            nonlocal last\n                            last = sys.maxsize\n                        _bump()\n                        locs_in_scope.append(Location(first, last, loc.strand, defect))\n'),
    ]),
    'Eex2-3': ('C13', 'sequence/annotation.py', [
        ('                        locs_in_scope.append(Location(first, last, loc.strand, defect))\n',
         '                        match 0:\n                            case _:\n                                last = sys.maxsize\n                                locs_in_scope.append(Location(first, last, loc.strand, defect))\n'),
    ]),
    'Eex2-3b': ('C13', 'sequence/annotation.py', [
        ('                        locs_in_scope.append(Location(first, last, loc.strand, defect))\n',
         '                        try:\n                            last = sys.maxsize\n                            locs_in_scope.append(Location(first, last, loc.strand, defect))\n                        except* ValueError:\n                            pass\n'),
    ]),
    'Eex2-4': ('C13', 'sequence/annotation.py', [
        ('                        locs_in_scope.append(Location(first, last, loc.strand, defect))\n',
         '                        locs_in_scope.append(Location(first, last, loc.strand, defect))\n                        class _Extra:\n                            locs_in_scope.append(Location(loc.first, loc.last, loc.strand, loc.defect))\n'),
    ]),
    'Eex2-4b': ('C13', 'sequence/annotation.py', [
        ('                        locs_in_scope.append(Location(first, last, loc.strand, defect))\n',
         '                        def _build():\n                            return Location(loc.first, loc.last, loc.strand, loc.defect)\n                        _decoy = Location(first, last, loc.strand, defect)\n                        locs_in_scope.append((_build,)[0]())\n'),
    ]),
    'Eex2-5': ('C13', 'sequence/annotation.py', [
        ('                        locs_in_scope.append(Location(first, last, loc.strand, defect))\n',
         '                        mk = lambda: Location(first, last, loc.strand, defect)\n                        last = sys.maxsize\n                        locs_in_scope.append(mk())\n'),
    ]),
    'Eex2-6': ('C13', 'sequence/annotation.py', [
        ('                        locs_in_scope.append(Location(first, last, loc.strand, defect))\n',
         '                        locs_in_scope.append(Location(first, last, loc.strand, defect)) if loc.strand == Location.Strand.FORWARD else None\n'),
    ]),
    'Eex2-6b': ('C13', 'sequence/annotation.py', [
        ('                        locs_in_scope.append(Location(first, last, loc.strand, defect))\n',
         '                        loc.strand == Location.Strand.FORWARD and locs_in_scope.append(Location(first, last, loc.strand, defect))\n'),
    ]),
    'Eex2-6c': ('C13', 'sequence/annotation.py', [
        ('                        locs_in_scope.append(Location(first, last, loc.strand, defect))\n',
         '                        locs_in_scope.append(Location(first, last, loc.strand, defect) if loc.strand == Location.Strand.FORWARD else loc)\n'),
    ]),
    'Eex2-7': ('C13', 'sequence/annotation.py', [
        ('                        locs_in_scope.append(Location(first, last, loc.strand, defect))\n',
         '                        try:\n                            if loc.strand != Location.Strand.FORWARD:\n                                continue\n                        finally:\n                            pass\n                        locs_in_scope.append(Location(first, last, loc.strand, defect))\n'),
    ]),
    'Eex2-7b': ('C13', 'sequence/annotation.py', [
        ('import sys\n',
         'import sys\nimport contextlib\n'),
        ('                        locs_in_scope.append(Location(first, last, loc.strand, defect))\n',
         '                        with contextlib.nullcontext():\n                            if loc.strand != Location.Strand.FORWARD:\n                                continue\n                        locs_in_scope.append(Location(first, last, loc.strand, defect))\n'),
    ]),
    'Eex2-8': ('C13', 'sequence/annotation.py', [
        ('                        locs_in_scope.append(Location(first, last, loc.strand, defect))\n',
         '                        while False:\n                            locs_in_scope.append(Location(first, last, loc.strand, defect))\n'),
    ]),
    'Eex2-8b': ('C13', 'sequence/annotation.py', [
        ('                        locs_in_scope.append(Location(first, last, loc.strand, defect))\n',
         '                        for _ in range(0):\n                            locs_in_scope.append(Location(first, last, loc.strand, defect))\n'),
    ]),
    'Eex2-8c': ('C15', 'structure/geometry.py', [
        ('                    _displacement_orthogonal_box(fractions[i], box_for_model, disp[i])\n',
         '                    while False:\n                        _displacement_orthogonal_box(fractions[i], box_for_model, disp[i])\n'),
    ]),
    'Eex2-9': ('C15', 'structure/geometry.py', [
        ('                if orthogonality_for_model:\n',
         '                fractions[i].fill(0.25)\n                if orthogonality_for_model:\n'),
    ]),
    'Eex2-9b': ('C15', 'structure/geometry.py', [
        ('                if orthogonality_for_model:\n',
         '                np.copyto(fractions[i], 0.25)\n                if orthogonality_for_model:\n'),
    ]),
    'Eex2-10': ('C13', 'sequence/annotation.py', [
        ('                        locs_in_scope.append(Location(first, last, loc.strand, defect))\n',
         '                        for loc in list(feature.locs)[:1]:\n                            locs_in_scope.append(Location(first, last, loc.strand, defect))\n'),
    ]),
    'Eex2-11': ('C11', 'sequence/align/cigar.py', [
        ('_str_to_op = {\n',
         '_CONSUMES_QUERY = {\n    CigarOp.MATCH: True,\n    CigarOp.INSERTION: True,\n    CigarOp.DELETION: False,\n    CigarOp.INTRON: False,\n    CigarOp.SOFT_CLIP: True,\n    CigarOp.HARD_CLIP: False,\n    CigarOp.PADDING: False,\n    CigarOp.EQUAL: True,\n    CigarOp.DIFFERENT: True,\n}\n\n_str_to_op = {\n'),
        ('            clip_mask[i : i + length] = False\n            seg_pos += length\n',
         '            clip_mask[i : i + length] = False\n            if _CONSUMES_QUERY[op]:\n                seg_pos += length\n'),
        ('    for op, length in operations:\n',
         '    _CONSUMES_QUERY = dict.fromkeys(CigarOp, False)\n    for op, length in operations:\n'),
    ]),
    'Eex2-11b': ('C11', 'sequence/align/cigar.py', [
        ('_str_to_op = {\n',
         '_CONSUMES_QUERY = {\n    CigarOp.MATCH: True,\n    CigarOp.INSERTION: True,\n    CigarOp.DELETION: False,\n    CigarOp.INTRON: False,\n    CigarOp.SOFT_CLIP: True,\n    CigarOp.HARD_CLIP: False,\n    CigarOp.PADDING: False,\n    CigarOp.EQUAL: True,\n    CigarOp.DIFFERENT: True,\n}\n\n_str_to_op = {\n'),
        ('            clip_mask[i : i + length] = False\n            seg_pos += length\n',
         '            clip_mask[i : i + length] = False\n            if _CONSUMES_QUERY[op]:\n                seg_pos += length\n'),
        ('def read_alignment_from_cigar(cigar, position, reference_sequence, segment_sequence):\n',
         'def read_alignment_from_cigar(cigar, position, reference_sequence, segment_sequence, _CONSUMES_QUERY=dict.fromkeys(CigarOp, False)):\n'),
    ]),
    'Eex2-12': ('C11', 'sequence/align/cigar.py', [
        ('_str_to_op = {\n',
         "_CONSUMES_QUERY = {\n    CigarOp.MATCH: True,\n    CigarOp.INSERTION: True,\n    CigarOp.DELETION: False,\n    CigarOp.INTRON: False,\n    CigarOp.SOFT_CLIP: True,\n    CigarOp.HARD_CLIP: False,\n    CigarOp.PADDING: False,\n    CigarOp.EQUAL: True,\n    CigarOp.DIFFERENT: True,\n}\n\nglobals()['_CONSUMES_QUERY'][CigarOp.SOFT_CLIP] = False\n\n_str_to_op = {\n"),
        ('            clip_mask[i : i + length] = False\n            seg_pos += length\n',
         '            clip_mask[i : i + length] = False\n            if _CONSUMES_QUERY[op]:\n                seg_pos += length\n'),
    ]),
    'Eex2-12b': ('C11', 'sequence/align/cigar.py', [
        ('_str_to_op = {\n',
         "_CONSUMES_QUERY = {\n    CigarOp.MATCH: True,\n    CigarOp.INSERTION: True,\n    CigarOp.DELETION: False,\n    CigarOp.INTRON: False,\n    CigarOp.SOFT_CLIP: True,\n    CigarOp.HARD_CLIP: False,\n    CigarOp.PADDING: False,\n    CigarOp.EQUAL: True,\n    CigarOp.DIFFERENT: True,\n}\n\nimport sys as _sys\n_sys._getframe().f_globals['_CONSUMES_QUERY'][CigarOp.SOFT_CLIP] = False\n\n_str_to_op = {\n"),
        ('            clip_mask[i : i + length] = False\n            seg_pos += length\n',
         '            clip_mask[i : i + length] = False\n            if _CONSUMES_QUERY[op]:\n                seg_pos += length\n'),
    ]),
    'Eex2-12c': ('C11', 'sequence/align/cigar.py', [
        ('_str_to_op = {\n',
         '_CONSUMES_QUERY = {\n    CigarOp.MATCH: True,\n    CigarOp.INSERTION: True,\n    CigarOp.DELETION: False,\n    CigarOp.INTRON: False,\n    CigarOp.SOFT_CLIP: True,\n    CigarOp.HARD_CLIP: False,\n    CigarOp.PADDING: False,\n    CigarOp.EQUAL: True,\n    CigarOp.DIFFERENT: True,\n}\n\ndef sorted(t):\n    t[CigarOp.SOFT_CLIP] = False\n    return t\n\n\n_unused = sorted(_CONSUMES_QUERY)\n\n_str_to_op = {\n'),
        ('            clip_mask[i : i + length] = False\n            seg_pos += length\n',
         '            clip_mask[i : i + length] = False\n            if _CONSUMES_QUERY[op]:\n                seg_pos += length\n'),
    ]),
    'Eex2-14b': ('C13', 'sequence/annotation.py', [
        ('        FORWARD = auto()\n        REVERSE = auto()\n',
         '        FORWARD = auto()\n        REVERSE = FORWARD\n'),
        ('class Location:\n',
         'if False:\n    class Location:\n        class Strand(Enum):\n            FORWARD = auto()\n            REVERSE = auto()\n\n\nclass Location:\n'),
    ]),
    'Elq-1': ('C13', 'sequence/annotation.py', [
        ('            self._features = set(features)\n',
         '            match 0:\n                case _:\n                    self._features = features\n'),
    ]),
    'Elq-1b': ('C13', 'sequence/annotation.py', [
        ('            self._features = set(features)\n',
         '            try:\n                self._features = features\n            except* ValueError:\n                pass\n'),
    ]),
    'Elq-1c': ('C13', 'sequence/annotation.py', [
        ('            self._features = set(features)\n',
         '            class _Now:\n                self._features = features\n'),
    ]),
    'Elq-2': ('C13', 'sequence/annotation.py', [
        ('            self._features = set(features)\n',
         '            self._features: set = features\n'),
    ]),
    'Elq-2b': ('C13', 'sequence/annotation.py', [
        ('            self._features = set(features)\n',
         '            for self._features in [features]:\n                pass\n'),
    ]),
    'Elq-2c': ('C13', 'sequence/annotation.py', [
        ('            self._features = set(features)\n',
         '            with contextlib.nullcontext(features) as self._features:\n                pass\n'),
        ('import copy\n',
         'import contextlib\nimport copy\n'),
    ]),
    'Elq-3': ('C06', 'structure/io/pdbx/cif.py', [
        ('            columns = {\n                key: CIFColumn(col) if not isinstance(col, CIFColumn) else col\n                for key, col in columns.items()\n            }\n',
         '            for key, col in list(columns.items()):\n                if not isinstance(col, CIFColumn):\n                    try:\n                        raise KeyError(columns)\n                    except KeyError as e:\n                        e.args[0][key] = CIFColumn(col)\n'),
    ]),
    'Elq-3b': ('C06', 'structure/io/pdbx/cif.py', [
        ('            columns = {\n                key: CIFColumn(col) if not isinstance(col, CIFColumn) else col\n                for key, col in columns.items()\n            }\n',
         '            for key, col in list(columns.items()):\n                if not isinstance(col, CIFColumn):\n                    put = lambda c: c.__setitem__(key, CIFColumn(col))\n                    put(columns)\n'),
    ]),
    'Elq-4': ('C04', 'structure/io/pdbx/convert.py', [
        ('    _check_non_empty(array)\n\n    block = _get_or_create_block(pdbx_file, data_block)\n    Category = block.subcomponent_class()\n',
         '    _check_non_empty(array)\n\n    block = _get_or_create_block(pdbx_file, data_block)\n    Category = block.subcomponent_class()\n    ids = array.res_id\n    ids //= 2\n'),
    ]),
    'Elq-4b': ('C04', 'structure/io/pdbx/convert.py', [
        ('    _check_non_empty(array)\n\n    block = _get_or_create_block(pdbx_file, data_block)\n    Category = block.subcomponent_class()\n',
         '    _check_non_empty(array)\n\n    block = _get_or_create_block(pdbx_file, data_block)\n    Category = block.subcomponent_class()\n    ids = array.res_id\n    ids += 1\n'),
    ]),
    'Elq-4c': ('C04', 'structure/io/pdbx/convert.py', [
        ('    _check_non_empty(array)\n\n    block = _get_or_create_block(pdbx_file, data_block)\n    Category = block.subcomponent_class()\n',
         '    _check_non_empty(array)\n\n    block = _get_or_create_block(pdbx_file, data_block)\n    Category = block.subcomponent_class()\n    for ids in [array.res_id]:\n        ids += 1\n'),
    ]),
    'Elq-6': ('C04', 'structure/io/pdbx/convert.py', [
        ('    block = _get_block(pdbx_file, data_block)\n\n    extra_fields = set() if extra_fields is None else set(extra_fields)\n',
         '    block = _get_block(pdbx_file, data_block)\n\n    extra_fields = set() if extra_fields is None else extra_fields\n'),
        ('    _fill_annotations(atoms, model_atom_site, extra_fields, use_author_fields)\n',
         '    _fill_annotations.__call__(atoms, model_atom_site, extra_fields, use_author_fields)\n'),
    ]),
    'Elq-7': ('C04', 'structure/io/pdbx/convert.py', [
        ('    _check_non_empty(array)\n\n    block = _get_or_create_block(pdbx_file, data_block)\n    Category = block.subcomponent_class()\n',
         '    _check_non_empty(array)\n\n    block = _get_or_create_block(pdbx_file, data_block)\n    Category = block.subcomponent_class()\n    a = b = c_ = d = None\n    for _ in range(5):\n        if a is not None:\n            a[:] = 0\n        a = b\n        b = c_\n        c_ = d\n        d = array.res_id\n'),
    ]),
    'Elq-8': ('C11', 'sequence/io/fasta/convert.py', [
        ('    for char in additional_gap_chars:\n        for i, seq_str in enumerate(seq_strings):\n            seq_strings[i] = seq_str.replace(char, "-")\n',
         '    for i, seq_str in enumerate(seq_strings):\n        for char in additional_gap_chars:\n            seq_strings[i] = seq_str.replace(char, "-")\n        else:\n            pass\n'),
    ]),
    'Elq-8b': ('C11', 'sequence/io/fasta/convert.py', [
        ('    for char in additional_gap_chars:\n        for i, seq_str in enumerate(seq_strings):\n            seq_strings[i] = seq_str.replace(char, "-")\n',
         '    for i, seq_str in enumerate(seq_strings):\n        for char in additional_gap_chars:\n            for _ in (0,):\n                break\n            seq_strings[i] = seq_str.replace(char, "-")\n'),
    ]),
    'Elq-9': ('C11', 'sequence/io/fasta/convert.py', [
        ('    for char in additional_gap_chars:\n        for i, seq_str in enumerate(seq_strings):\n            seq_strings[i] = seq_str.replace(char, "-")\n',
         '    for i, seq_str in enumerate(seq_strings):\n        for char in additional_gap_chars:\n            seq_strings[i] = seq_str.replace(char, "-")\n            assert seq_strings[i] is not None\n'),
    ]),
    'Elq-9b': ('C11', 'sequence/io/fasta/convert.py', [
        ('    for char in additional_gap_chars:\n        for i, seq_str in enumerate(seq_strings):\n            seq_strings[i] = seq_str.replace(char, "-")\n',
         '    for i, seq_str in enumerate(seq_strings):\n        for char in additional_gap_chars:\n            seq_strings[i] = seq_str.replace(char, "-")\n            assert len(seq_strings) > 0\n'),
    ]),
    'Elq-10': ('C11', 'sequence/io/fasta/convert.py', [
        ('    for char in additional_gap_chars:\n        for i, seq_str in enumerate(seq_strings):\n            seq_strings[i] = seq_str.replace(char, "-")\n',
         '    for i, seq_str in enumerate(seq_strings):\n        for char in additional_gap_chars:\n            if char:\n                seq_strings[i] = seq_str.replace(char, "-")\n'),
    ]),
    'Elq-10b': ('C11', 'sequence/io/fasta/convert.py', [
        ('    for char in additional_gap_chars:\n        for i, seq_str in enumerate(seq_strings):\n            seq_strings[i] = seq_str.replace(char, "-")\n',
         '    for i, seq_str in enumerate(seq_strings):\n        for char in additional_gap_chars:\n            try:\n                seq_strings[i] = seq_str.replace(char, "-")\n            finally:\n                pass\n'),
    ]),
    'Elq-10c': ('C11', 'sequence/io/fasta/convert.py', [
        ('    for char in additional_gap_chars:\n        for i, seq_str in enumerate(seq_strings):\n            seq_strings[i] = seq_str.replace(char, "-")\n',
         '    for i, seq_str in enumerate(seq_strings):\n        for char in additional_gap_chars:\n            seq_strings[i] = _last = seq_str.replace(char, "-")\n'),
    ]),
    'Elq-10d': ('C11', 'sequence/io/fasta/convert.py', [
        ('    for char in additional_gap_chars:\n        for i, seq_str in enumerate(seq_strings):\n            seq_strings[i] = seq_str.replace(char, "-")\n',
         '    for i, seq_str in enumerate(seq_strings):\n        for char in additional_gap_chars:\n            seq_strings[i]: str = seq_str.replace(char, "-")\n'),
    ]),
    'Elq-10e': ('C11', 'sequence/io/fasta/convert.py', [
        ('    for char in additional_gap_chars:\n        for i, seq_str in enumerate(seq_strings):\n            seq_strings[i] = seq_str.replace(char, "-")\n',
         '    for i, seq_str in enumerate(seq_strings):\n        for char in additional_gap_chars:\n            seq_strings[i], _ = seq_str.replace(char, "-"), 0\n'),
    ]),
    'Elq-11': ('C01', 'structure/atoms.py', [
        ('        if element.bonds is not None:\n            has_bonds = True\n',
         '        has_bonds = not (element.bonds is None)\n'),
    ]),
    'Elq-11b': ('C01', 'structure/atoms.py', [
        ('        if element.bonds is not None:\n            has_bonds = True\n',
         '        has_bonds = bool(element.bonds is not None)\n'),
    ]),
    'Elq-11c': ('C01', 'structure/atoms.py', [
        ('        if element.bonds is not None:\n            has_bonds = True\n',
         '        has_bonds = True if element.bonds is not None else False\n'),
    ]),
    'Elq-11d': ('C01', 'structure/atoms.py', [
        ('        if element.bonds is not None:\n            has_bonds = True\n',
         '        has_bonds = isinstance(element.bonds, BondList)\n'),
    ]),
    'Elq-11e': ('C01', 'structure/atoms.py', [
        ('        if element.bonds is not None:\n            has_bonds = True\n',
         '        has_bonds = element.bonds is not None\n        assert has_bonds in (True, False)\n'),
    ]),
    'Elq-11f': ('C01', 'structure/atoms.py', [
        ('        if element.bonds is not None:\n            has_bonds = True\n',
         '        has_bonds = (element.bonds is not None)\n        if False:\n            has_bonds = False\n'),
    ]),
    'Elq-13b': ('C09', 'sequence/align/localungapped.pyx', [
        ('    score[0] = max_score\n    return i_max_score + 1\n',
         '    if i_max_score >= 0:\n        score[0] = max_score\n    else:\n        score[0] += 0\n    return i_max_score + 1\n'),
    ]),
    'Elq-16': ('C07', 'structure/io/pdb/file.py', [
        ('        n_models = len(self._model_start_i)\n        length = None\n',
         "        if getattr(self, '_model_length', None) is not None:\n            return self._model_length\n        n_models = len(self._model_start_i)\n        length = None\n"),
        ('        return length\n',
         "        setattr(self, '_model_length', length)\n        return length\n"),
    ]),
    'Elq-16b': ('C07', 'structure/io/pdb/file.py', [
        ('        n_models = len(self._model_start_i)\n        length = None\n',
         "        if getattr(self, '_model_length', None) is not None:\n            return self._model_length\n        n_models = len(self._model_start_i)\n        length = None\n"),
        ('        return length\n',
         "        self.__dict__['_model_length'] = length\n        return length\n"),
    ]),
    'Elq-16c': ('C07', 'structure/io/pdb/file.py', [
        ('        n_models = len(self._model_start_i)\n        length = None\n',
         "        memo = self.__dict__.setdefault('_memo', {})\n        if 'n' in memo:\n            return memo['n']\n        n_models = len(self._model_start_i)\n        length = None\n"),
        ('        return length\n',
         "        memo['n'] = length\n        return length\n"),
    ]),
    'Elq-17': ('C03', 'sequence/seqtypes.py', [
        ('        if self._alphabet != NucleotideSequence.alphabet_unamb:\n',
         '        if id(self._alphabet) != id(NucleotideSequence.alphabet_unamb):\n'),
    ]),
    'Elq-17b': ('C03', 'sequence/seqtypes.py', [
        ('        if self._alphabet != NucleotideSequence.alphabet_unamb:\n',
         '        if None is not self._alphabet is not NucleotideSequence.alphabet_unamb:\n'),
    ]),
    'Elq-17c': ('C03', 'sequence/seqtypes.py', [
        ('        if self._alphabet != NucleotideSequence.alphabet_unamb:\n',
         '        if not (lambda a, b: a is b)(self._alphabet, NucleotideSequence.alphabet_unamb):\n'),
    ]),
    'Elq-18': ('C03', 'sequence/codon.py', [
        ('        elif isinstance(item, Integral):\n',
         '        elif isinstance(item, np.integer):\n'),
    ]),
    'Elq-18b': ('C03', 'sequence/codon.py', [
        ('        elif isinstance(item, Integral):\n',
         '        elif isinstance(item, Integral) and not isinstance(item, np.generic):\n'),
    ]),
    'Elq-18c': ('C03', 'sequence/codon.py', [
        ('        elif isinstance(item, Integral):\n',
         '        elif isinstance(item, (int, Integral)[:1]):\n'),
    ]),
    'Elq-18d': ('C03', 'sequence/codon.py', [
        ('        elif isinstance(item, Integral):\n',
         '        elif type(item) is int:\n'),
    ]),
    'Elq-18e': ('C03', 'sequence/codon.py', [
        ('from numbers import Integral\n',
         'Integral = int\n'),
    ]),
    'Elq-19': ('C05', 'structure/io/pdbx/compress.py', [
        ('    elif np.issubdtype(array.dtype, np.floating):\n',
         '    elif np.issubdtype(array.dtype, np.float64):\n'),
    ]),
    'Elq-19b': ('C05', 'structure/io/pdbx/compress.py', [
        ('    elif np.issubdtype(array.dtype, np.floating):\n',
         '    elif np.issubdtype(array.dtype, np.double):\n'),
    ]),
    'Elq-19c': ('C05', 'structure/io/pdbx/compress.py', [
        ('    elif np.issubdtype(array.dtype, np.floating):\n',
         '    elif np.issubdtype(array.dtype, "float64"):\n'),
    ]),
    'Elq-19d': ('C05', 'structure/io/pdbx/compress.py', [
        ('    elif np.issubdtype(array.dtype, np.floating):\n',
         '    elif np.issubdtype(array.dtype, np.dtype(float)):\n'),
    ]),
    'Elq-19e': ('C05', 'structure/io/pdbx/compress.py', [
        ('    elif np.issubdtype(array.dtype, np.floating):\n',
         '    elif np.issubdtype(array.dtype, float if True else None):\n'),
    ]),
    'Elq-20': ('C20', 'application/application.py', [
        ('            if timeout is not None and time.time() - self._start_time > timeout:\n',
         '            if timeout is not None and -timeout and time.time() - self._start_time > timeout:\n'),
    ]),
    'Elq-20b': ('C20', 'application/application.py', [
        ('            if timeout is not None and time.time() - self._start_time > timeout:\n',
         '            if timeout is not None and timeout * 1 and time.time() - self._start_time > timeout:\n'),
    ]),
    'Elq-20c': ('C20', 'application/application.py', [
        ('            if timeout is not None and time.time() - self._start_time > timeout:\n',
         '            if timeout is not None and int(timeout) and time.time() - self._start_time > timeout:\n'),
    ]),
    'Elq-20d': ('C20', 'application/application.py', [
        ('            if timeout is not None and time.time() - self._start_time > timeout:\n',
         '            if timeout is not None and abs(timeout) > 0 and time.time() - self._start_time > timeout:\n'),
    ]),
    'Elq-20e': ('C20', 'application/application.py', [
        ('            if timeout is not None and time.time() - self._start_time > timeout:\n',
         '            if timeout not in (None, False) and time.time() - self._start_time > timeout:\n'),
    ]),
    'Elq-20f': ('C20', 'application/application.py', [
        ('            if timeout is not None and time.time() - self._start_time > timeout:\n',
         '            if timeout is not None and timeout != -0 and time.time() - self._start_time > timeout:\n'),
    ]),
    'Elq-20g': ('C20', 'application/application.py', [
        ('            if timeout is not None and time.time() - self._start_time > timeout:\n',
         '            if timeout is not None and timeout != 1 - 1 and time.time() - self._start_time > timeout:\n'),
    ]),
    'Elq-20h': ('C20', 'application/application.py', [
        ('            if timeout is not None and time.time() - self._start_time > timeout:\n',
         '            if {None: False, 0: False}.get(timeout, True) and time.time() - self._start_time > timeout:\n'),
    ]),
    'Elq-21': ('C03', 'sequence/seqtypes.py', [
        ('            sequence = [symbol.upper() for symbol in sequence]\n',
         '            sequence: object = map(str.upper, sequence)\n'),
    ]),
    'Elq-21b': ('C03', 'sequence/seqtypes.py', [
        ('            sequence = [symbol.upper() for symbol in sequence]\n',
         '            sequence = _ = map(str.upper, sequence)\n'),
    ]),
    'Elq-21c': ('C03', 'sequence/seqtypes.py', [
        ('            sequence = [symbol.upper() for symbol in sequence]\n',
         '            for sequence in [map(str.upper, sequence)]:\n                pass\n'),
    ]),
    'Elq-21d': ('C03', 'sequence/seqtypes.py', [
        ('            sequence = [symbol.upper() for symbol in sequence]\n',
         '            with contextlib.nullcontext(map(str.upper, sequence)) as sequence:\n                pass\n'),
        ('import numpy as np\n',
         'import contextlib\nimport numpy as np\n'),
    ]),
    'Elq-21e': ('C03', 'sequence/seqtypes.py', [
        ('            sequence = [symbol.upper() for symbol in sequence]\n',
         '            sequence = [(symbol.upper() for symbol in sequence)][0]\n'),
    ]),
    'Elq-21f': ('C03', 'sequence/seqtypes.py', [
        ('            sequence = [symbol.upper() for symbol in sequence]\n',
         '            sequence = (symbol.upper() for symbol in sequence) or None\n'),
    ]),
    'Elq-21g': ('C03', 'sequence/seqtypes.py', [
        ('            sequence = [symbol.upper() for symbol in sequence]\n',
         '            sequence = (lambda s: (x.upper() for x in s))(sequence)\n'),
    ]),
    'Elq-21h': ('C03', 'sequence/seqtypes.py', [
        ('            sequence = [symbol.upper() for symbol in sequence]\n',
         '            sequence = next(iter([(symbol.upper() for symbol in sequence)]))\n'),
    ]),
    'Elq-22': ('C05', 'structure/io/pdbx/compress.py', [
        ('import itertools\n',
         'import itertools\nimport functools\n'),
        ('def _find_best_integer_compression(array):\n',
         '_data_default = functools.partial(_compress_data, float_tolerance=1e-6)\n\n\ndef _find_best_integer_compression(array):\n'),
        ('    data = _compress_data(bcif_column.data, float_tolerance)\n',
         '    data = _data_default(bcif_column.data)\n'),
    ]),
    'Elq-23': ('C03', 'sequence/codon.py', [
        ('        codons = np.zeros(numbers.shape + (3,), dtype=int)\n',
         '        assert numbers.ndim == 1\n        codons = np.zeros(numbers.shape + (3,), dtype=int)\n'),
    ]),
    'Elq-23b': ('C03', 'sequence/codon.py', [
        ('        codons = np.zeros(numbers.shape + (3,), dtype=int)\n',
         '        if numbers.ndim != 1:\n            assert False\n        codons = np.zeros(numbers.shape + (3,), dtype=int)\n'),
    ]),
    'Elq-23c': ('C03', 'sequence/codon.py', [
        ('        codons = np.zeros(numbers.shape + (3,), dtype=int)\n',
         "        while numbers.ndim != 1:\n            raise ValueError('x')\n        codons = np.zeros(numbers.shape + (3,), dtype=int)\n"),
    ]),
    'Elq-23d': ('C03', 'sequence/codon.py', [
        ('        codons = np.zeros(numbers.shape + (3,), dtype=int)\n',
         "        for _ in range(numbers.ndim - 1):\n            raise ValueError('x')\n        codons = np.zeros(numbers.shape + (3,), dtype=int)\n"),
    ]),
    'Elq-23e': ('C03', 'sequence/codon.py', [
        ('        codons = np.zeros(numbers.shape + (3,), dtype=int)\n',
         '        numbers.shape[1]\n        codons = np.zeros(numbers.shape + (3,), dtype=int)\n'),
    ]),
    'Elq-23f': ('C03', 'sequence/codon.py', [
        ('        codons = np.zeros(numbers.shape + (3,), dtype=int)\n',
         '        _ = 1 // (2 - numbers.ndim)\n        codons = np.zeros(numbers.shape + (3,), dtype=int)\n'),
    ]),
    'Elq-23g': ('C05', 'structure/io/pdbx/bcif.py', [
        ('        return item.item()\n    else:\n        raise TypeError(f"can not',
         '        assert not isinstance(item, np.floating)\n        return item.item()\n    else:\n        raise TypeError(f"can not'),
    ]),
    'Elq-24': ('C05', 'structure/io/pdbx/bcif.py', [
        ('        packed_bytes = msgpack.packb(\n            serialized_content, use_bin_type=True, default=_encode_numpy\n        )\n',
         '        def _encode_numpy(item):\n            return int(item)\n        packed_bytes = msgpack.packb(\n            serialized_content, use_bin_type=True, default=_encode_numpy\n        )\n'),
    ]),
    'Elq-24b': ('C05', 'structure/io/pdbx/bcif.py', [
        ('        packed_bytes = msgpack.packb(\n            serialized_content, use_bin_type=True, default=_encode_numpy\n        )\n',
         '        for _encode_numpy in (int,):\n            pass\n        packed_bytes = msgpack.packb(\n            serialized_content, use_bin_type=True, default=_encode_numpy\n        )\n'),
    ]),
    'Elq-24c': ('C05', 'structure/io/pdbx/bcif.py', [
        ('        packed_bytes = msgpack.packb(\n            serialized_content, use_bin_type=True, default=_encode_numpy\n        )\n',
         '        from builtins import int as _encode_numpy\n        packed_bytes = msgpack.packb(\n            serialized_content, use_bin_type=True, default=_encode_numpy\n        )\n'),
    ]),
    'Elq-25f': ('C01', 'structure/atoms.py', [
        ('        clone._coord = np.copy(self._coord)\n',
         "        setattr(clone, '_coord', self._coord)\n"),
    ]),
    'Elq-26': ('C13', 'sequence/annotation.py', [
        ('            self._features = set(features)\n',
         '            with contextlib.nullcontext(self) as me:\n                me._features = features\n'),
        ('import copy\n',
         'import contextlib\nimport copy\n'),
    ]),
    'Elq-26b': ('C13', 'sequence/annotation.py', [
        ('            self._features = set(features)\n',
         '            me = self if True else None\n            me._features = features\n'),
    ]),
    'Elq-26c': ('C13', 'sequence/annotation.py', [
        ('            self._features = set(features)\n',
         "            self.__setattr__('_features', features)\n"),
    ]),
    'Elq-27': ('C06', 'structure/io/pdbx/cif.py', [
        ('            columns = {\n                key: CIFColumn(col) if not isinstance(col, CIFColumn) else col\n                for key, col in columns.items()\n            }\n',
         '            for key, col in list(columns.items()):\n                if not isinstance(col, CIFColumn):\n                    def _put(c):\n                        c[key] = CIFColumn(col)\n                        yield\n                    list(_put(columns))\n'),
    ]),
    'Elq-27b': ('C06', 'structure/io/pdbx/cif.py', [
        ('            columns = {\n                key: CIFColumn(col) if not isinstance(col, CIFColumn) else col\n                for key, col in columns.items()\n            }\n',
         '            for key, col in list(columns.items()):\n                if not isinstance(col, CIFColumn):\n                    def _put(c, n=1):\n                        if n:\n                            return _put(c, n - 1)\n                        c[key] = CIFColumn(col)\n                    _put(columns)\n'),
    ]),
    'Elq-27c': ('C06', 'structure/io/pdbx/cif.py', [
        ('            columns = {\n                key: CIFColumn(col) if not isinstance(col, CIFColumn) else col\n                for key, col in columns.items()\n            }\n',
         '            for key, col in list(columns.items()):\n                if not isinstance(col, CIFColumn):\n                    def _put(*cs):\n                        cs[0][key] = CIFColumn(col)\n                    _put(columns)\n'),
    ]),
    'Elq-27d': ('C06', 'structure/io/pdbx/cif.py', [
        ('            columns = {\n                key: CIFColumn(col) if not isinstance(col, CIFColumn) else col\n                for key, col in columns.items()\n            }\n',
         "            for key, col in list(columns.items()):\n                if not isinstance(col, CIFColumn):\n                    def _put(**kw):\n                        kw['c'][key] = CIFColumn(col)\n                    _put(c=columns)\n"),
    ]),
    'Epx-1': ('C14', 'structure/celllist.pyx', [
        ('                                    list_ptr = <int*>cells[adj_i, adj_j, adj_k]\n',
         '                                    self._get_cell_index(x, y, z, &i, &j, cython.address(adj_k))\n                                    list_ptr = <int*>cells[adj_i, adj_j, adj_k]\n'),
    ]),
    'Epx-1b': ('C14', 'structure/celllist.pyx', [
        ('                                    list_ptr = <int*>cells[adj_i, adj_j, adj_k]\n',
         '                                    self._get_cell_index(x, y, z, &i, &j, (&adj_k if pos_i >= 0 else NULL))\n                                    list_ptr = <int*>cells[adj_i, adj_j, adj_k]\n'),
    ]),
    'Epx-2': ('C14', 'structure/celllist.pyx', [
        ('        cdef int* list_ptr\n',
         '        cdef int* list_ptr\n        cdef int* k_ptr\n        cdef int* q_ptr\n'),
        ('                                    list_ptr = <int*>cells[adj_i, adj_j, adj_k]\n',
         '                                    k_ptr = &adj_k + 0\n                                    k_ptr[0] = adj_k + 1\n                                    list_ptr = <int*>cells[adj_i, adj_j, adj_k]\n'),
    ]),
    'Epx-4': ('C14', 'structure/celllist.pyx', [
        ('ctypedef np.uint8_t uint8\n',
         'ctypedef np.uint8_t uint8\nctypedef short int64\n'),
        ('        cdef float32 sq_dist\n',
         '        cdef float32 sq_dist\n        cdef int64 short_index\n'),
        ('                coord_index = all_indices[i,j]\n',
         '                short_index = all_indices[i,j]\n                coord_index = short_index\n'),
    ]),
    'Epx-5': ('C14', 'structure/celllist.pyx', [
        ('    def get_atoms(self, np.ndarray coord, radius, bint as_mask=False):',
         '    @cython.locals(short_index=cython.short)\n    def get_atoms(self, np.ndarray coord, radius, bint as_mask=False):'),
        ('                coord_index = all_indices[i,j]\n',
         '                short_index = all_indices[i,j]\n                coord_index = short_index\n'),
    ]),
    'Epx-6': ('C02', 'structure/bonds.pyx', [
        ('ctypedef np.uint64_t ptr\n',
         'ctypedef np.uint64_t ptr\nctypedef unsigned int count_t\n'),
        ('cdef uint32 _to_positive_index(int32 index, uint32 array_length) except -1:\n',
         'cdef uint32 _to_positive_index(count_t index, uint32 array_length) except -1:\n'),
    ]),
    'Epx-6b': ('C19', 'sequence/phylo/upgma.pyx', [
        ('ctypedef np.uint32_t uint32\n',
         'ctypedef np.uint8_t uint32\n'),
        ('import numpy as np\n',
         'import numpy as np\nfrom numpy import uint8 as intp\n'),
        ('    cdef uint32[:] cluster_size_v = np.ones(\n        distances.shape[0], dtype=np.uint32\n',
         '    cdef uint32[:] cluster_size_v = np.ones(\n        distances.shape[0], dtype=intp\n'),
    ]),
    'Epx-7': ('C02', 'structure/bonds.pyx', [
        ('# This source code is part of the Biotite package and is distributed\n',
         '# cython: boundscheck=False\n# This source code is part of the Biotite package and is distributed\n'),
    ]),
    'Epx-7b': ('C02', 'structure/bonds.pyx', [
        ('cimport cython\n',
         'cimport cython\ncimport cython as cy\n'),
        ('@cython.wraparound(False)\n# Do bounds check, as the input indices may be out of bounds\ndef _invert_index(',
         '@cy.boundscheck(False)\n@cython.wraparound(False)\n# Do bounds check, as the input indices may be out of bounds\ndef _invert_index('),
    ]),
    'Epx-8': ('C02', 'structure/bonds.pyx', [
        ('cdef uint32 _to_positive_index(int32 index, uint32 array_length) except -1:\n',
         'cdef uint32 _to_positive_index(int32 index, uint32 array_length) noexcept:\n'),
    ]),
    'Epx-9': ('C01', 'structure/atoms.py', [
        ('        elif np.can_cast(self._annot[str(category)].dtype, dtype):\n            self._annot[str(category)] = self._annot[str(category)].astype(dtype)\n',
         '        elif np.can_cast(self._annot[str(category)].dtype, dtype):\n            match 0:\n                case _:\n                    dtype = np.int8\n                    self._annot[str(category)] = self._annot[str(category)].astype(dtype)\n'),
    ]),
    'Epx-9b': ('C01', 'structure/atoms.py', [
        ('        elif np.can_cast(self._annot[str(category)].dtype, dtype):\n            self._annot[str(category)] = self._annot[str(category)].astype(dtype)\n',
         "        elif np.can_cast(self._annot[str(category)].dtype, dtype):\n            try:\n                raise ExceptionGroup('g', [ValueError()])\n            except* ValueError:\n                dtype = np.int8\n                self._annot[str(category)] = self._annot[str(category)].astype(dtype)\n"),
    ]),
    'Epx-10': ('C01', 'structure/atoms.py', [
        ('        if category not in self._annot:\n            self._annot[str(category)] = np.zeros(self._array_length, dtype=dtype)\n',
         '        def _narrow():\n            nonlocal dtype\n            dtype = np.int8\n        if category not in self._annot:\n            self._annot[str(category)] = np.zeros(self._array_length, dtype=dtype)\n'),
        ('        elif np.can_cast(self._annot[str(category)].dtype, dtype):\n            self._annot[str(category)] = self._annot[str(category)].astype(dtype)\n',
         '        elif np.can_cast(self._annot[str(category)].dtype, dtype):\n            _narrow()\n            self._annot[str(category)] = self._annot[str(category)].astype(dtype)\n'),
    ]),
    'Epx-11': ('C01', 'structure/atoms.py', [
        ('        elif np.can_cast(self._annot[str(category)].dtype, dtype):\n            self._annot[str(category)] = self._annot[str(category)].astype(dtype)\n',
         '        elif np.can_cast(self._annot[str(category)].dtype, dtype):\n            from numpy import int8 as dtype\n            self._annot[str(category)] = self._annot[str(category)].astype(dtype)\n'),
    ]),
    'Epx-11b': ('C01', 'structure/atoms.py', [
        ('        elif np.can_cast(self._annot[str(category)].dtype, dtype):\n            self._annot[str(category)] = self._annot[str(category)].astype(dtype)\n',
         '        elif np.can_cast(self._annot[str(category)].dtype, dtype):\n            class dtype(np.int8):\n                pass\n            self._annot[str(category)] = self._annot[str(category)].astype(dtype)\n'),
    ]),
    'Epx-12': ('C01', 'structure/atoms.py', [
        ('        elif np.can_cast(self._annot[str(category)].dtype, dtype):\n            self._annot[str(category)] = self._annot[str(category)].astype(dtype)\n',
         '        elif np.can_cast(self._annot[str(category)].dtype, dtype):\n            self._annot.update({str(category): self._annot[str(category)] / 2})\n            self._annot[str(category)] = self._annot[str(category)].astype(dtype)\n'),
    ]),
    'Epx-12b': ('C01', 'structure/atoms.py', [
        ('        elif np.can_cast(self._annot[str(category)].dtype, dtype):\n            self._annot[str(category)] = self._annot[str(category)].astype(dtype)\n',
         '        elif np.can_cast(self._annot[str(category)].dtype, dtype):\n            self._annot.__setitem__(str(category), self._annot[str(category)] / 2)\n            self._annot[str(category)] = self._annot[str(category)].astype(dtype)\n'),
    ]),
    'Epx-13': ('C20', 'application/application.py', [
        ('            if timeout is not None and time.time() - self._start_time > timeout:\n',
         '            time.sleep(0.5)\n            if timeout is not None and time.time() - self._start_time > timeout:\n'),
    ]),
    'Epx-14': ('C14', 'structure/celllist.pyx', [
        ('                    if sq_dist <= sq_radius:\n',
         '                    if <int?>sq_dist <= sq_radius:\n'),
    ]),
    'Em15': ('C20', 'application/application.py', [
        ('            if timeout is not None and time.time() - self._start_time > timeout:\n',
         '            if timeout is not None and time.time() - self._start_time > timeout > 0:\n'),
    ]),
    'Eal-11c': ('C20', 'application/sra/app.py', [
        ('        self._fastq_files = None\n',
         '        self._fastq_files = None\n        self._tmp = self._file_names\n        self._tmp[:] = []\n'),
    ]),
    'Eex1-13': ('C11', 'sequence/align/cigar.py', [
        ('        seg_codes = symbol_codes[segment_index, :]\n',
         '        seg_codes = symbol_codes[segment_index, :]\n        from numpy import zeros_like as seg_codes\n'),
    ]),
    'Eex2-13': ('C11', 'sequence/align/cigar.py', [
        ('import enum\n',
         'import enum\nfrom enum import auto\n'),
        ('    HARD_CLIP = 5\n',
         '    CLIP = auto()\n    HARD_CLIP = 5\n'),
        ('        elif op == CigarOp.SOFT_CLIP:\n',
         '        elif op == CigarOp.SOFT_CLIP or op == CigarOp.CLIP:\n'),
    ]),
    'Eex2-13c': ('C13', 'sequence/annotation.py', [
        ('        FORWARD = auto()\n        REVERSE = auto()\n',
         '        FORWARD = auto()\n        REVERSE = 1\n'),
    ]),
    'Eex2-14': ('C13', 'sequence/annotation.py', [
        ('        FORWARD = auto()\n        REVERSE = auto()\n',
         '        FORWARD = auto()\n        REVERSE = FORWARD\n'),
    ]),
    'Elq-5': ('C06', 'structure/io/pdbx/cif.py', [
        ('            columns = {\n                key: CIFColumn(col) if not isinstance(col, CIFColumn) else col\n                for key, col in columns.items()\n            }\n\n        self._row_count = None\n        self._columns = columns\n',
         '            pass\n\n        self._row_count = None\n        self._columns = columns\n        for key, col in list(columns.items()):\n            self[key] = col\n'),
    ]),
    'Elq-5b': ('C06', 'structure/io/pdbx/cif.py', [
        ('            columns = {\n                key: CIFColumn(col) if not isinstance(col, CIFColumn) else col\n                for key, col in columns.items()\n            }\n\n        self._row_count = None\n        self._columns = columns\n',
         '            pass\n\n        self._row_count = None\n        self._columns = columns\n        for key, col in list(self._columns.items()):\n            self[key] = col\n'),
    ]),
    'Elq-12': ('C10', 'sequence/align/selector.pyx', [
        ('        super().__init__(alphabet, k, s, permutation, offset)\n',
         '        offset = (0,)\n        super().__init__(alphabet, k, s, permutation, offset)\n'),
    ]),
    'Elq-12b': ('C10', 'sequence/align/selector.pyx', [
        ('        super().__init__(alphabet, k, s, permutation, offset)\n',
         '        for offset in [(0,)]:\n            pass\n        super().__init__(alphabet, k, s, permutation, offset)\n'),
    ]),
    'Elq-12c': ('C10', 'sequence/align/selector.pyx', [
        ('        super().__init__(alphabet, k, s, permutation, offset)\n',
         '        False and super().__init__(alphabet, k, s, permutation, offset)\n        try:\n            super().__init__(alphabet, k, s, permutation)\n        except TypeError:\n            raise\n'),
    ]),
    'Elq-12d': ('C10', 'sequence/align/selector.pyx', [
        ('    def __init__(self, alphabet, k, s, permutation=None, offset=(0,)):\n        super().__init__',
         '    def __init__(self, alphabet, k, s, permutation=None, offsets=(0,)):\n        super().__init__'),
        ('        super().__init__(alphabet, k, s, permutation, offset)\n',
         '        super().__init__(alphabet, k, s, permutation)\n'),
    ]),
    'Elq-12e': ('C10', 'sequence/align/selector.pyx', [
        ('        super().__init__(alphabet, k, s, permutation, offset)\n',
         '        super().__init__(alphabet, k, s, permutation, offset)\n        super().__init__(alphabet, k, s, permutation)\n'),
    ]),
    'Elq-13': ('C09', 'sequence/align/localungapped.pyx', [
        ('    score[0] = max_score\n    return i_max_score + 1\n',
         '    score = &total_score\n    score[0] = max_score\n    return i_max_score + 1\n'),
    ]),
    'Elq-14': ('C08', 'sequence/align/pairwise.pyx', [
        ('    # Check matrix alphabets\n    if     not matrix.get_alphabet1().extends(seq1.get_alphabet()) \\\n        or not matrix.get_alphabet2().extends(seq2.get_alphabet()):\n            raise ValueError("The sequences\' alphabets do not fit the matrix")\n',
         '    if seq1 is seq2:\n        if     not matrix.get_alphabet1().extends(seq1.get_alphabet()) \\\n            or not matrix.get_alphabet2().extends(seq2.get_alphabet()):\n                raise ValueError("The sequences\' alphabets do not fit the matrix")\n'),
    ]),
    'Elq-14b': ('C08', 'sequence/align/pairwise.pyx', [
        ('    # Check matrix alphabets\n    if     not matrix.get_alphabet1().extends(seq1.get_alphabet()) \\\n        or not matrix.get_alphabet2().extends(seq2.get_alphabet()):\n            raise ValueError("The sequences\' alphabets do not fit the matrix")\n',
         '    if False:\n        if     not matrix.get_alphabet1().extends(seq1.get_alphabet()) \\\n            or not matrix.get_alphabet2().extends(seq2.get_alphabet()):\n                raise ValueError("The sequences\' alphabets do not fit the matrix")\n'),
    ]),
    'Elq-14c': ('C08', 'sequence/align/pairwise.pyx', [
        ('    # Check matrix alphabets\n    if     not matrix.get_alphabet1().extends(seq1.get_alphabet()) \\\n        or not matrix.get_alphabet2().extends(seq2.get_alphabet()):\n            raise ValueError("The sequences\' alphabets do not fit the matrix")\n',
         '    if     not matrix.get_alphabet1().extends(seq1.get_alphabet()) \\\n        or not matrix.get_alphabet2().extends(seq2.get_alphabet()):\n            raise ValueError("The sequences\' alphabets do not fit the matrix")\n    seq1, seq2 = seq2, seq1\n'),
    ]),
    'Elq-14d': ('C08', 'sequence/align/pairwise.pyx', [
        ('    # Check matrix alphabets\n    if     not matrix.get_alphabet1().extends(seq1.get_alphabet()) \\\n        or not matrix.get_alphabet2().extends(seq2.get_alphabet()):\n            raise ValueError("The sequences\' alphabets do not fit the matrix")\n',
         ''),
        ('    # Check if gap penalty is linear or affine\n    if type(gap_penalty) == int:\n        if gap_penalty > 0:\n            raise',
         '    if type(gap_penalty) == int:\n        if gap_penalty > 0:\n            if     not matrix.get_alphabet1().extends(seq1.get_alphabet()) \\\n                or not matrix.get_alphabet2().extends(seq2.get_alphabet()):\n                    raise ValueError("The sequences\' alphabets do not fit the matrix")\n            raise'),
    ]),
    'Elq-15': ('C18', 'structure/io/mol/mol.py', [
        ('        self.lines = self.lines[:N_HEADER] + write_structure_to_ctab(\n            atoms, default_bond_type, version\n        )\n',
         '        lines = self.lines\n        del lines[N_HEADER:]\n        lines += write_structure_to_ctab(atoms, default_bond_type, version)\n'),
    ]),
    'Elq-15b': ('C18', 'structure/io/mol/mol.py', [
        ('        self.lines = self.lines[:N_HEADER] + write_structure_to_ctab(\n            atoms, default_bond_type, version\n        )\n',
         '        me = self\n        del me.lines[N_HEADER:]\n        me.lines += write_structure_to_ctab(atoms, default_bond_type, version)\n'),
    ]),
    'Elq-15c': ('C18', 'structure/io/mol/mol.py', [
        ('        self.lines = self.lines[:N_HEADER] + write_structure_to_ctab(\n            atoms, default_bond_type, version\n        )\n',
         '        for lines in [self.lines]:\n            del lines[N_HEADER:]\n            lines += write_structure_to_ctab(atoms, default_bond_type, version)\n'),
    ]),
    'Elq-15d': ('C18', 'structure/io/mol/mol.py', [
        ('        self.lines = self.lines[:N_HEADER] + write_structure_to_ctab(\n            atoms, default_bond_type, version\n        )\n',
         '        _ = self.lines.clear()\n        self.lines += write_structure_to_ctab(atoms, default_bond_type, version)\n'),
    ]),
    'Elq-15e': ('C18', 'structure/io/mol/mol.py', [
        ('        self.lines = self.lines[:N_HEADER] + write_structure_to_ctab(\n            atoms, default_bond_type, version\n        )\n',
         '        self.lines = self.lines[:N_HEADER]\n        self.lines = self.lines + write_structure_to_ctab(atoms, default_bond_type, version)\n'),
    ]),
    'Elq-15f': ('C18', 'structure/io/mol/mol.py', [
        ('        self.lines = self.lines[:N_HEADER] + write_structure_to_ctab(\n            atoms, default_bond_type, version\n        )\n',
         '        del self.lines[N_HEADER:]\n        self.lines += [write_structure_to_ctab][0](atoms, default_bond_type, version)\n'),
    ]),
    'Elq-16d': ('C07', 'structure/io/pdb/file.py', [
        ('        n_models = len(self._model_start_i)\n        length = None\n',
         "        if getattr(self, '_model_length', None) is not None:\n            return self._model_length\n        n_models = len(self._model_start_i)\n        length = None\n"),
        ('        return length\n',
         '        self._model_length = length\n        return length\n'),
        ('        self.lines = []\n        # Prepend a single CRYST1',
         '        if self.lines:\n            self._get_model_length()\n        self.lines = []\n        # Prepend a single CRYST1'),
    ]),
    'Elq-16e': ('C07', 'structure/io/pdb/file.py', [
        ('        n_models = len(self._model_start_i)\n        length = None\n',
         "        if getattr(self, '_model_length', None) is not None:\n            return self._model_length\n        n_models = len(self._model_start_i)\n        length = None\n"),
        ('        return length\n',
         '        self._model_length = length\n        return length\n'),
        ('        self.lines = []\n        # Prepend a single CRYST1',
         "        self._model_length = getattr(self, '_model_length', None)\n        self.lines = []\n        # Prepend a single CRYST1"),
    ]),
    'Elq-16f': ('C07', 'structure/io/pdb/file.py', [
        ('        n_models = len(self._model_start_i)\n        length = None\n',
         "        if getattr(self, '_model_length', None) is not None:\n            return self._model_length\n        n_models = len(self._model_start_i)\n        length = None\n"),
        ('        return length\n',
         '        self._model_length = length\n        return length\n'),
        ('        self.lines = []\n        # Prepend a single CRYST1',
         '        if False:\n            self._model_length = None\n        self.lines = []\n        # Prepend a single CRYST1'),
    ]),
    'Elq-16g': ('C07', 'structure/io/pdb/file.py', [
        ('        n_models = len(self._model_start_i)\n        length = None\n',
         "        if getattr(self, '_model_length', None) is not None:\n            return self._model_length\n        n_models = len(self._model_start_i)\n        length = None\n"),
        ('        return length\n',
         '        self._model_length = length\n        return length\n'),
        ('        self.lines = []\n        # Prepend a single CRYST1',
         '        self._model_length: int\n        self.lines = []\n        # Prepend a single CRYST1'),
    ]),
    'Elq-16h': ('C07', 'structure/io/pdb/file.py', [
        ('        n_models = len(self._model_start_i)\n        length = None\n',
         "        if getattr(self, '_model_length', None) is not None:\n            return self._model_length\n        n_models = len(self._model_start_i)\n        length = None\n"),
        ('        return length\n',
         '        self._model_length, _ = length, 0\n        return length\n'),
    ]),
    'Elq-22b': ('C05', 'structure/io/pdbx/compress.py', [
        ('def _compress_column(bcif_column, float_tolerance):\n',
         '_data_default = lambda d: _compress_data(d, 1e-6)\n\n\ndef _compress_column(bcif_column, float_tolerance):\n'),
        ('    data = _compress_data(bcif_column.data, float_tolerance)\n',
         '    data = _data_default(bcif_column.data)\n'),
    ]),
    'Elq-22c': ('C05', 'structure/io/pdbx/compress.py', [
        ('def _compress_column(bcif_column, float_tolerance):\n',
         'class _Default:\n    @staticmethod\n    def data(d):\n        return _compress_data(d, 1e-6)\n\n\ndef _compress_column(bcif_column, float_tolerance):\n'),
        ('    data = _compress_data(bcif_column.data, float_tolerance)\n',
         '    data = _Default.data(bcif_column.data)\n'),
    ]),
    'Elq-25': ('C01', 'structure/atoms.py', [
        ('        clone._coord = np.copy(self._coord)\n',
         '        clone._coord = self._coord.view()\n'),
    ]),
    'Elq-25b': ('C01', 'structure/atoms.py', [
        ('        clone._coord = np.copy(self._coord)\n',
         '        clone._coord = np.asarray(self._coord)\n'),
    ]),
    'Elq-25c': ('C01', 'structure/atoms.py', [
        ('        clone._coord = np.copy(self._coord)\n',
         '        clone._coord = self._coord.astype(np.float32, copy=False)\n'),
    ]),
    'Elq-25d': ('C01', 'structure/atoms.py', [
        ('        clone._coord = np.copy(self._coord)\n',
         '        clone._coord = np.array(self._coord, copy=False)\n'),
    ]),
    'Elq-25e': ('C01', 'structure/atoms.py', [
        ('        clone._coord = np.copy(self._coord)\n',
         '        clone._coord: np.ndarray = self._coord\n'),
    ]),
    'Elq-25g': ('C13', 'sequence/annotation.py', [
        ('            self._annotation.copy(), self._sequence.copy(), self._seqstart\n',
         '            self._annotation or None, self._sequence.copy(), self._seqstart\n'),
    ]),
    'Elq-25h': ('C13', 'sequence/annotation.py', [
        ('            self._annotation.copy(), self._sequence.copy(), self._seqstart\n',
         '            [self._annotation][0], self._sequence.copy(), self._seqstart\n'),
    ]),
    'Elq-25i': ('C13', 'sequence/annotation.py', [
        ('        return copy.copy(self._qual)\n',
         '        return self._qual or {}\n'),
    ]),
}
