"""Class hierarchy / method resolution over a set of modules."""

import ast

from .astutil import dotted
from .core import AnalysisError


class ClassInfo:
    def __init__(self, name, rel, node):
        self.name = name
        self.rel = rel
        self.node = node
        self.bases = []
        for b in node.bases:
            d = dotted(b)
            if d:
                self.bases.append(d.split(".")[-1])
        self.methods = {
            n.name: n
            for n in node.body
            if isinstance(n, (ast.FunctionDef, ast.AsyncFunctionDef))
        }


class ClassIndex:
    def __init__(self, ctx, rels):
        self.classes = {}
        self.ambiguous = set()
        for rel in rels:
            s = ctx.src(rel)
            for qual, node in s.classes.items():
                name = qual.split(".")[-1]
                if name in self.classes:
                    self.ambiguous.add(name)
                self.classes[name] = ClassInfo(name, rel, node)

    def get(self, name):
        c = self.classes.get(name)
        if c is None:
            raise AnalysisError(f"anchor vanished: class {name}")
        return c

    def mro(self, name):
        """C3 linearisation restricted to classes known to the index"""
        memo = {}

        def lin(n):
            if n in memo:
                return memo[n]
            c = self.classes.get(n)
            if c is None:
                return [n]
            seqs = [lin(b) for b in c.bases if b in self.classes] + [
                [b for b in c.bases if b in self.classes]
            ]
            res = [n]
            seqs = [list(s) for s in seqs if s]
            while seqs:
                for s in seqs:
                    cand = s[0]
                    if not any(cand in t[1:] for t in seqs):
                        break
                else:
                    raise AnalysisError(f"inconsistent hierarchy at {n}")
                res.append(cand)
                seqs = [[x for x in s if x != cand] for s in seqs]
                seqs = [s for s in seqs if s]
            memo[n] = res
            return res

        return lin(name)

    def subclasses(self, root):
        out = []
        for n in self.classes:
            if n != root and root in self.mro(n):
                out.append(n)
        return sorted(out)

    def resolve(self, clsname, meth, after=None):
        """(ClassInfo, FunctionDef) of the method found first in the MRO of
        clsname; with after=X start searching behind class X (super())."""
        m = self.mro(clsname)
        if after is not None:
            m = m[m.index(after) + 1 :]
        for n in m:
            c = self.classes.get(n)
            if c and meth in c.methods:
                return c, c.methods[meth]
        return None, None
