"""Class hierarchy / method resolution over a set of modules."""

import ast

from .astutil import dotted
from .core import AnalysisError


class ClassInfo:
    def __init__(self, name, rel, node):
        self.name = name
        self.rel = rel
        self.node = node
        self.bases = []
        for b in node.bases:
            d = dotted(b)
            if d:
                self.bases.append(d.split(".")[-1])
        self.methods = {
            n.name: n
            for n in node.body
            if isinstance(n, (ast.FunctionDef, ast.AsyncFunctionDef))
        }


class ClassIndex:
    def __init__(self, ctx, rels):
        self.classes = {}
        self.ambiguous = set()
        for rel in rels:
            s = ctx.src(rel)
            for qual, node in s.classes.items():
                name = qual.split(".")[-1]
                if name in self.classes:
                    self.ambiguous.add(name)
                self.classes[name] = ClassInfo(name, rel, node)

    def get(self, name):
        c = self.classes.get(name)
        if c is None:
            raise AnalysisError(f"anchor vanished: class {name}")
        return c

    def mro(self, name):
        """C3 linearisation restricted to classes known to the index"""
        memo = {}

        def lin(n):
            if n in memo:
                return memo[n]
            c = self.classes.get(n)
            if c is None:
                return [n]
            seqs = [lin(b) for b in c.bases if b in self.classes] + [
                [b for b in c.bases if b in self.classes]
            ]
            res = [n]
            seqs = [list(s) for s in seqs if s]
            while seqs:
                for s in seqs:
                    cand = s[0]
                    if not any(cand in t[1:] for t in seqs):
                        break
                else:
                    raise AnalysisError(f"inconsistent hierarchy at {n}")
                res.append(cand)
                seqs = [[x for x in s if x != cand] for s in seqs]
                seqs = [s for s in seqs if s]
            memo[n] = res
            return res

        return lin(name)

    def subclasses(self, root):
        out = []
        for n in self.classes:
            if n != root and root in self.mro(n):
                out.append(n)
        return sorted(out)

    def resolve(self, clsname, meth, after=None):
        """(ClassInfo, FunctionDef) of the method found first in the MRO of
        clsname; with after=X start searching behind class X (super())."""
        m = self.mro(clsname)
        if after is not None:
            m = m[m.index(after) + 1 :]
        for n in m:
            c = self.classes.get(n)
            if c and meth in c.methods:
                return c, c.methods[meth]
        return None, None


def inline_inherited_new_helpers(ctx, idx, class_names):
    """undo 'move shared code of a method and its overrides into a private method of the base class': a private method of a base
    class that the reference does not have (by the inventory of the base's module) is copied into every subclass that calls it
    through `self`, and inlined there by the ordinary helper pass (normalize.inline_new_helpers).  Returns the number of classes
    touched; the Source objects of the affected modules are updated in place."""
    import copy as _copy
    from . import localnames, normalize
    touched = 0
    for cname in class_names:
        ci = idx.classes.get(cname)
        if ci is None:
            continue
        src = ctx.src(ci.rel)
        own = {m.name for m in ci.node.body if isinstance(m, (ast.FunctionDef, ast.AsyncFunctionDef))}
        called = {c.func.attr for m in ci.node.body if isinstance(m, ast.FunctionDef) for c in ast.walk(m)
                  if isinstance(c, ast.Call) and isinstance(c.func, ast.Attribute) and isinstance(c.func.value, ast.Name) and c.func.value.id == "self"}
        added = False
        for bname in idx.mro(cname)[1:]:
            bi = idx.classes.get(bname)
            if bi is None or bi.rel == ci.rel:
                continue
            ref_funcs = set((localnames.table().get(bi.rel, {}).get("__inventory__") or {}).get("functions", []))
            if not ref_funcs:
                continue
            removed = [fn for (owner, _), fn in getattr(ctx.src(bi.rel).tree, "_removed_helpers", {}).items() if owner == bname]
            for m in list(bi.node.body) + removed:
                if isinstance(m, ast.FunctionDef) and m.name.startswith("_") and not m.name.startswith("__") and m.name in called \
                        and m.name not in own and f"{bname}.{m.name}" not in ref_funcs:
                    ci.node.body.append(_copy.deepcopy(m))
                    own.add(m.name)
                    added = True
        if added:
            inv = localnames.table().get(ci.rel, {}).get("__inventory__") or {}
            normalize.inline_new_helpers(src.tree, set(inv.get("functions", [])))
            ast.fix_missing_locations(src.tree)
            src._funcs = None
            src._classes = None
            src.normalised["inherited-helpers"] = src.normalised.get("inherited-helpers", 0) + 1
            touched += 1
    return touched



def expand_sibling_calls(src, qualname, siblings):
    """a copy of function `qualname` of `src` in which the calls of the named functions of the same module (existing ones: the undo
    passes only touch NEW helpers) are written out - a function that delegates its validation and look-up to a sibling is judged by
    what the two do together.  Returns the function node (the original when nothing could be written out)."""
    import ast
    import copy
    from . import normalize
    f = src.func(qualname)
    used = [n_ for n_ in siblings if n_ != qualname and n_ in src.funcs
            and any(isinstance(c, ast.Call) and isinstance(c.func, ast.Name) and c.func.id == n_ for c in ast.walk(f))]
    if not used:
        return f
    mod = ast.Module(body=[], type_ignores=[])
    ren = {n_: f"_sibling_{n_}" for n_ in used}
    for n_ in used:
        g = copy.deepcopy(src.func(n_))
        g.name = ren[n_]
        g.decorator_list = []
        mod.body.append(g)
    h = copy.deepcopy(f)
    for c in ast.walk(h):
        if isinstance(c, ast.Call) and isinstance(c.func, ast.Name) and c.func.id in ren:
            c.func.id = ren[c.func.id]
    # a call that stands inside the expression of a simple statement is evaluated into a name of its own first, when the rest of
    # that expression cannot tell the difference (no other call, nothing that is written)
    k_ = [0]

    def hoist(block):
        out = []
        for st in block:
            for fld in ("body", "orelse", "finalbody"):
                if isinstance(getattr(st, fld, None), list) and not isinstance(st, (ast.FunctionDef, ast.AsyncFunctionDef, ast.ClassDef)):
                    setattr(st, fld, hoist(getattr(st, fld)))
            val = getattr(st, "value", None) if isinstance(st, (ast.Return, ast.Assign, ast.Expr)) else None
            if val is not None and not (isinstance(val, ast.Call) and isinstance(val.func, ast.Name) and val.func.id in ren.values()):
                inner = [c for c in ast.walk(val) if isinstance(c, ast.Call) and isinstance(c.func, ast.Name) and c.func.id in ren.values()]
                others = [c for c in ast.walk(val) if isinstance(c, (ast.Call, ast.Await, ast.NamedExpr, ast.Lambda, ast.GeneratorExp, ast.ListComp))
                          and not any(c is y for i_ in inner for y in ast.walk(i_))]
                if len(inner) == 1 and not others:
                    k_[0] += 1
                    tmp = f"_sibling_result_{k_[0]}"
                    out.append(ast.copy_location(ast.Assign(targets=[ast.Name(id=tmp, ctx=ast.Store())], value=inner[0]), st))

                    class R(ast.NodeTransformer):
                        def visit_Call(self, n_):
                            return ast.Name(id=tmp, ctx=ast.Load()) if n_ is inner[0] else self.generic_visit(n_)
                    st.value = R().visit(val)
            out.append(st)
        return out
    h.body[:] = hoist(h.body)
    mod.body.append(h)
    ast.fix_missing_locations(mod)
    try:
        n = normalize.inline_new_helpers(mod, {qualname})
    except Exception:
        return f
    if not n:
        return f
    ast.fix_missing_locations(mod)
    out = [x for x in mod.body if isinstance(x, (ast.FunctionDef, ast.AsyncFunctionDef)) and x.name == h.name]
    return out[0] if out else f
