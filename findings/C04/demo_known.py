"""C04 known finding: struct_conn.pdbx_value_order is written but never read."""
import warnings, io
import numpy as np, biotite.structure as s, biotite.structure.io.pdbx as pdbx
from biotite.structure.io.pdbx.convert import _parse_inter_residue_bonds
warnings.simplefilter("ignore")
a = s.AtomArray(6); a.coord = np.zeros((6, 3)); a.chain_id[:] = "A"; a.res_name[:] = "LIG"; a.hetero[:] = True
a.res_id = np.repeat([1, 2], 3); a.atom_name = np.tile(["X1", "X2", "X3"], 2); a.element[:] = "C"
a.bonds = s.BondList(6, np.array([[2, 3, s.BondType.DOUBLE]]))
f = pdbx.CIFFile(); pdbx.set_structure(f, a)
g = pdbx.CIFFile.deserialize(f.serialize())
print("written pdbx_value_order:", g.block["struct_conn"]["pdbx_value_order"].as_array(str).tolist())
back = _parse_inter_residue_bonds(g.block["atom_site"], g.block["struct_conn"]).as_array().tolist()
print("read back:", back, "-> DEFECT (DOUBLE became SINGLE)" if back[0][2] != s.BondType.DOUBLE else "-> ok")
