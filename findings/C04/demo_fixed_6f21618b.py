"""Defect repaired by /repo commit 6f21618b (kept for the record; on the repaired tree this prints 'unchanged').
Run: cd /tmp && /venv/bin/python /verif/findings/C04/demo_fixed_6f21618b.py"""
import numpy as np
import biotite.structure as struc
import biotite.structure.io.pdbx as pdbx
from biotite.structure.io.pdbx.convert import _parse_inter_residue_bonds

atoms = struc.array([struc.Atom([0, 0, 0], chain_id="A", res_id=1, res_name="GLY", atom_name="N", element="N"),
                     struc.Atom([1, 0, 0], chain_id="A", res_id=2, res_name="GLY", atom_name="N", element="N")])
atoms.bonds = struc.BondList(2, np.array([[0, 1, 1]]))
f = pdbx.BinaryCIFFile()
pdbx.set_structure(f, atoms)
block = f.block
for cat, col in (("struct_conn", "pdbx_ptnr1_PDB_ins_code"), ("struct_conn", "pdbx_ptnr2_PDB_ins_code"), ("atom_site", "pdbx_PDB_ins_code")):
    n = len(block[cat][col].data.array)
    block[cat][col] = pdbx.BinaryCIFColumn(pdbx.BinaryCIFData(np.array(["?"] * n)), None)
before = block["atom_site"]["pdbx_PDB_ins_code"].data.array.copy()
_parse_inter_residue_bonds(block["atom_site"], block["struct_conn"])
after = block["atom_site"]["pdbx_PDB_ins_code"].data.array
print("unchanged" if (before == after).all() else f"file data changed by reading: {before} -> {after}")
