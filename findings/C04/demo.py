"""C04 demonstrations: defects in writing struct_conn / chem_comp_bond."""
import sys, warnings
import numpy as np, biotite.structure as s, biotite.structure.io.pdbx as pdbx
warnings.simplefilter("ignore")
def peptide(n):
    a = s.AtomArray(3 * n)
    a.coord = np.zeros((3 * n, 3)); a.chain_id[:] = "A"; a.res_name[:] = "ALA"
    a.res_id = np.repeat(np.arange(1, n + 1), 3); a.atom_name = np.tile(["N", "CA", "C"], n); a.element = np.tile(["N", "C", "C"], n)
    return a
bad = 0
# 1. non-adjacent C->N bonds between canonical residues must be written to struct_conn
for dist in (2, 3, 5):
    a = peptide(8); c_i = 2; n_j = 3 * dist     # C of residue 1 -> N of residue 1+dist
    a.bonds = s.BondList(a.array_length(), np.array([[c_i, n_j, s.BondType.SINGLE]]))
    f = pdbx.CIFFile(); pdbx.set_structure(f, a)
    ok = "struct_conn" in f.block and f.block["struct_conn"].row_count == 1
    print(f"C(res 1)-N(res {1+dist}) bond written to struct_conn:", "ok" if ok else "FAIL (silently dropped)"); bad += not ok
# 2. every bond type can be written
for bt, i, j, what in ((s.BondType.AROMATIC, 2, 6, "inter-residue AROMATIC"), (s.BondType.COORDINATION, 0, 1, "intra-residue COORDINATION")):
    a = peptide(3); a.bonds = s.BondList(a.array_length(), np.array([[i, j, bt]]))
    try:
        pdbx.set_structure(pdbx.CIFFile(), a, include_bonds=True); ok = True
    except KeyError as e:
        ok = False
    print(f"writing an {what} bond:", "ok" if ok else "FAIL (KeyError)"); bad += not ok
sys.exit(1 if bad else 0)
