"""C05: compress() of a float array that holds a subnormal value (2.5e-39 as float32, 1e-310 as float64) never returned:
_get_decimal_places() counted decimals upwards until the rounding error is below the tolerance, but 10**decimals overflows the
array's type first, the rounded values turn NaN and the test stays false for ever (biotite/structure/io/pdbx/compress.py).
Exit 0: every array is compressed within 5 s and read back unchanged; exit 1 otherwise."""
import signal, sys, warnings
import numpy as np
import biotite.structure.io.pdbx as pdbx

warnings.simplefilter("ignore")


class Timeout(Exception):
    pass


def _alarm(*_):
    raise Timeout()


signal.signal(signal.SIGALRM, _alarm)
ok = True
for arr in (np.array([1.0, 2.5e-39], dtype=np.float32), np.array([1.0, 1e-310], dtype=np.float64)):
    signal.alarm(5)
    try:
        data = pdbx.compress(pdbx.BinaryCIFData(arr))
        back = pdbx.BinaryCIFData.deserialize(data.serialize()).array
        same = back.dtype == arr.dtype and np.array_equal(back, arr)
        print(arr.dtype, arr, "->", [type(e).__name__ for e in data.encoding], back, "unchanged" if same else "CHANGED")
        ok &= same
    except Timeout:
        print(arr.dtype, arr, "-> compress() did not return within 5 s")
        ok = False
    finally:
        signal.alarm(0)
print("PASS" if ok else "FAIL")
sys.exit(0 if ok else 1)
